"""run-time contracts on real code objects (bounded stand-in / replay harness for C01, C02, C08, C17)"""
import itertools
import numpy as np
from .util import all_code_classes, supported, deformation_variants, small_sizes


def op_anticommute(op1, op2):
    """parity of the number of qubits on which two dict-operators carry different non-identity Paulis"""
    return sum(1 for k, v in op1.items() if k in op2 and op2[k] != v) % 2


def gf2_rank(rows):
    rows = [int(''.join(map(str, r)), 2) for r in rows]
    rank = 0
    while rows:
        p = rows.pop()
        if p:
            rank += 1
            lsb = p & -p
            rows = [r ^ p if r & lsb else r for r in rows]
    return rank


def make(name, size, defo=None, kw=None):
    import panqec.codes as C
    code = getattr(C, name)(*size)
    if defo:
        code.deform(defo, **(kw or {}))
    return code


def c01_contract(code, rank=True, max_pairs=None, rng=None):
    """the clauses of C01 evaluated on a real object through the coordinate API (dict operators, independent of bs_prod);
    returns list of (clause, detail)"""
    out = []
    stabs = [(loc, code.get_stabilizer(loc)) for loc in code.stabilizer_coordinates]
    qi = code.qubit_index
    # support index for fast pair enumeration
    touch = {}
    for idx, (loc, op) in enumerate(stabs):
        for k in op:
            touch.setdefault(k, []).append(idx)
    seen = set()
    for k, lst in touch.items():
        for a, b in itertools.combinations(lst, 2):
            if (a, b) in seen:
                continue
            seen.add((a, b))
            if op_anticommute(stabs[a][1], stabs[b][1]):
                out.append(('comm', 'generators at %s and %s anticommute' % (stabs[a][0], stabs[b][0])))
                break
        if out:
            break
    lx, lz = code.get_logicals_x(), code.get_logicals_z()
    if len(lx) != len(lz):
        out.append(('pair', 'number of X logicals %d != number of Z logicals %d' % (len(lx), len(lz))))
        return out
    for kind, logs in (('x', lx), ('z', lz)):
        for i, lop in enumerate(logs):
            bad = [loc for loc, op in stabs if op_anticommute(lop, op)]
            if bad:
                out.append(('logcomm', 'logical %s[%d] anticommutes with the generator at %s' % (kind, i, bad[0])))
                break
            missing = [k for k in lop if k not in qi]
            if missing:
                out.append(('logcomm', 'logical %s[%d] acts on %s which is not a qubit' % (kind, i, missing[0])))
    for i, a in enumerate(lx):
        for j, b in enumerate(lz):
            if op_anticommute(a, b) != (1 if i == j else 0):
                out.append(('pair', 'X[%d] and Z[%d] %s' % (i, j, 'commute' if i == j else 'anticommute')))
    for kind, logs in (('x', lx), ('z', lz)):
        for i, j in itertools.combinations(range(len(logs)), 2):
            if op_anticommute(logs[i], logs[j]):
                out.append(('pair', '%s[%d] and %s[%d] anticommute' % (kind, i, kind, j)))
    if not out:
        # the objects a simulation actually uses are the cached matrices: they must be the BSF images of the listed operators (same order),
        # and code.k the number of listed pairs
        import numpy as _np
        n = code.n
        for kind, logs, mat in (('x', lx, _np.asarray(code.logicals_x)), ('z', lz, _np.asarray(code.logicals_z))):
            want = _np.zeros((len(logs), 2 * n), dtype=int)
            for i, lop in enumerate(logs):
                for loc, pl in lop.items():
                    if loc in qi:
                        want[i, qi[loc]] = pl in 'XY'; want[i, n + qi[loc]] = pl in 'YZ'
            if mat.shape != want.shape or not _np.array_equal(mat % 2, want):
                bad_i = 0 if mat.shape != want.shape else int(_np.nonzero((mat % 2 != want).any(axis=1))[0][0])
                out.append(('logmatrix', 'code.logicals_%s row %d is not the binary-symplectic image of get_logicals_%s()[%d]' % (kind, bad_i, kind, bad_i)))
        if code.k != len(lx):
            out.append(('logmatrix', 'code.k = %r but %d logical pairs are listed' % (code.k, len(lx))))
    if rank and not out:
        H = code.stabilizer_matrix.toarray() % 2
        r = gf2_rank(H.astype(int).tolist())
        if r != code.n - len(lx):
            out.append(('rank', 'rank(H) = %d but n-k = %d (n=%d, k=%d)' % (r, code.n - len(lx), code.n, len(lx))))
    return out


def sweep(tier, maxn, maxL, rnd=None, per_class=None, deform=True):
    """(name, size, deformation, kwargs) cases over every class's supported family"""
    for name, cls in all_code_classes():
        sizes = small_sizes(cls, name, maxn, maxL)
        if per_class and len(sizes) > per_class and per_class >= 6:
            # shape-covering choice: smallest, largest, every ordering of unequal extents (permutations of (2,3,4) / (2,4)), then a seeded sample
            import itertools as _it
            dim = len(sizes[0])
            want = [sizes[0], sizes[-1]] + [p_ for base in ((2, 3, 4), (2, 4, 3), (2, 2, 4), (3, 4, 4)) for p_ in _it.permutations(base[:dim] if dim == 3 else base[:2])]
            keep = []
            for w_ in want:
                if tuple(w_) in [tuple(x_) for x_ in sizes] and tuple(w_) not in keep:
                    keep.append(tuple(w_))
            rest = [x_ for x_ in sizes if tuple(x_) not in keep]
            if rnd is not None:
                rnd.shuffle(rest)
            sizes = (keep + rest)[:max(per_class, len(keep))] if len(keep) <= per_class + 6 else keep[:per_class + 6]
        elif per_class and len(sizes) > per_class:
            # keep the smallest, the largest and a seeded sample in between (non-cubic sizes included)
            keep = [sizes[0], sizes[-1]]
            mid = [s for s in sizes[1:-1]]
            if rnd is not None:
                rnd.shuffle(mid)
            sizes = keep + mid[:per_class - 2]
        for size in sizes:
            for defo, kw in (deformation_variants(cls) if deform else [(None, {})]):
                yield name, cls, size, defo, kw
