"""kill-at-every-effect-point harness for BatchSimulation (bounded stand-in / replay for C12).

Child process (`python -m bounded.crash child <out> <k> <N> <compress>`): runs the real BatchSimulation with the file-system effects reachable from
save_json instrumented; at the k-th effect point the process dies with os._exit(17) - after a truncating open, in the middle of a write (half of the bytes
reach the file), before / after os.replace.  After every save_json call that RETURNS, a snapshot of the saved data is recorded through an uninstrumented
side channel.  The parent then restarts the same specification (optionally with more trials / an extra simulation) and checks the post-condition."""
import builtins, gzip, io, json, os, subprocess, sys, warnings

SPEC = {'ranges': {'label': 't', 'code': {'name': 'Toric2DCode', 'parameters': [{'L_x': 2, 'L_y': 2}]},
                   'error_model': {'name': 'PauliErrorModel', 'parameters': {'r_x': 1 / 3, 'r_y': 1 / 3, 'r_z': 1 / 3}},
                   'decoder': {'name': 'MatchingDecoder', 'parameters': {}}, 'error_rate': [0.1, 0.2]}}


def child(out, k, N, extra_rate=None, interrupt_at=None):
    warnings.filterwarnings('ignore')
    import contextlib
    import panqec.utils as U
    import panqec.simulation._batch_simulation as B
    real_open, real_gzopen, real_replace = builtins.open, gzip.open, os.replace
    state = {'n': 0}
    side = out + '.completed'

    def point(what):
        state['n'] += 1
        if state['n'] == k:
            os._exit(17)

    class Proxy:
        """buffers the writes of one open..close and replays them as: half of the bytes, crash point, the rest, close, crash point"""
        def __init__(self, f):
            self._f = f; self._buf = []

        def write(self, data):
            self._buf.append(data); return len(data)

        def __enter__(self):
            return self

        def __exit__(self, *a):
            data = ''.join(self._buf) if self._buf and isinstance(self._buf[0], str) else b''.join(self._buf)
            self._f.write(data[: len(data) // 2]); self._f.flush()
            point('mid-write')
            self._f.write(data[len(data) // 2:]); self._f.close(); point('after-close'); return False

        def __getattr__(self, n):
            return getattr(self._f, n)

    def is_target(p):
        p = str(p)
        return p.startswith(out) and not p.endswith('.completed')

    def my_open(p, mode='r', *a, **kw):
        f = real_open(p, mode, *a, **kw)
        if is_target(p) and any(c in mode for c in 'wa'):
            point('after-open'); return Proxy(f)
        return f

    def my_gzopen(p, mode='rb', *a, **kw):
        if is_target(p) and any(c in mode for c in 'wa'):
            raw = real_open(p, 'wb'); point('after-open')
            buf = io.BytesIO()
            gz = gzip.GzipFile(fileobj=buf, mode='wb')

            class G:
                def write(s_, data):
                    return gz.write(data)

                def __enter__(s_):
                    return s_

                def __exit__(s_, *a_):
                    gz.close(); data = buf.getvalue()
                    raw.write(data[: len(data) // 2]); raw.flush(); point('mid-write')
                    raw.write(data[len(data) // 2:]); raw.close(); point('after-close'); return False
            return G()
        return real_gzopen(p, mode, *a, **kw)

    def my_replace(a, b):
        if is_target(b):
            point('before-replace'); real_replace(a, b); point('after-replace')
        else:
            real_replace(a, b)
    U.open = my_open            # module-level name lookups in panqec.utils resolve here first
    class _GzipProxy:
        """gzip with an instrumented open(); everything else (compress, GzipFile, ...) is the real module"""
        open = staticmethod(my_gzopen)

        def __getattr__(self, name_):
            return getattr(gzip, name_)
    U.gzip = _GzipProxy()
    U.os = type('O', (), {'path': os.path, 'replace': staticmethod(my_replace), '__getattr__': lambda s, n: getattr(os, n)})()
    real_save = U.save_json

    def save_and_record(data, file):
        r = real_save(data, file)
        with real_open(side, 'w') as f:
            json.dump(json.loads(json.dumps(data, cls=U.NumpyEncoder)), f)
            f.flush(); os.fsync(f.fileno())
        return r
    B.save_json = save_and_record
    spec = json.loads(json.dumps(SPEC))
    if extra_rate is not None:
        spec['ranges']['error_rate'].append(extra_rate)
    with contextlib.redirect_stdout(io.StringIO()):
        b = B.read_input_dict(spec, out, verbose=False)
        import numpy as np
        import panqec.simulation._direct_simulation as DSm
        orig = DSm.run_once
        cnt = {'n': 0}

        def ro(*a, **kw):
            # every trial is tagged with (process id, serial number) so that "kept as a prefix" cannot hold by coincidence
            cnt['n'] += 1
            if interrupt_at is not None and cnt['n'] == interrupt_at:
                raise KeyboardInterrupt()
            r = orig(*a, **kw)
            r['effective_error'] = np.array([os.getpid() % 1000003, cnt['n']])
            return r
        DSm.run_once = ro
        b.run(N)
    print(json.dumps({'effects': state['n'], 'n': [s.n_results for s in b]}))


def run_child(out, k, N, extra_rate=None, interrupt_at=None):
    here = os.path.dirname(os.path.dirname(os.path.abspath(__file__)))
    p = subprocess.run([sys.executable, '-m', 'bounded.crash', 'child', out, str(k), str(N), json.dumps(extra_rate), json.dumps(interrupt_at)],
                       capture_output=True, text=True, cwd=here, timeout=600, env=dict(os.environ, PYTHONWARNINGS='ignore'))
    return p


def verify(out, N2, nsim, snap, crashed=False):
    """post-condition of C12 on the results file `out` after the final run to N2 trials"""
    from panqec.utils import load_json
    data = load_json(out)
    if len(data) != nsim:
        return 'results file holds %d simulations, expected %d' % (len(data), nsim), crashed
    for i, rec in enumerate(data):
        res = rec['results']
        if res['n_runs'] != N2:
            return 'simulation %d has n_runs=%d after restart, requested %d' % (i, res['n_runs'], N2), crashed
        for key in ('effective_error', 'success', 'codespace'):
            if len(res[key]) != N2:
                return 'simulation %d: list %r has length %d, expected %d' % (i, key, len(res[key]), N2), crashed
    owner = {}
    for i, rec in enumerate(data):          # every trial carries a unique (pid, serial) tag: none may appear twice, none in two simulations
        for row in rec['results']['effective_error']:
            t = tuple(row)
            if t in owner:
                return ('trial %s appears twice in simulation %d' % (t, i)) if owner[t] == i else ('trial %s of simulation %d (error rate %r) was also adopted by simulation %d (error rate %r)'
                                                                                               % (t, owner[t], data[owner[t]]['inputs'].get('error_rate'), i, rec['inputs'].get('error_rate'))), crashed
            owner[t] = i
    if snap is not None:
        for i, srec in enumerate(snap):
            match = [r for r in data if r['inputs'] == srec['inputs']]
            if len(match) != 1:
                return 'simulation of the last completed save not found exactly once after restart', crashed
            for key in ('effective_error', 'success', 'codespace'):
                old = srec['results'][key]
                if match[0]['results'][key][:len(old)] != old:
                    return 'trials of the last completed save (%d) are not kept as a prefix (simulation %d, %r)' % (len(old), i, key), crashed
    return None, crashed


def scenario(workdir, compress, k, N1=4, N2=6, extra_rate=None, interrupt_at=None):
    """crash at effect point k during a run to N1 trials, then restart to N2 trials; returns None or a failure string"""
    out = os.path.join(workdir, 'out.json' + ('.gz' if compress else ''))
    for f in os.listdir(workdir):
        os.unlink(os.path.join(workdir, f))
    p1 = run_child(out, k, N1, None, interrupt_at)
    crashed = p1.returncode == 17
    if p1.returncode not in (0, 17):
        return 'first run failed on its own: %s' % p1.stderr[-300:], crashed
    snap = None
    if os.path.exists(out + '.completed'):
        snap = json.load(open(out + '.completed'))
    p2 = run_child(out, 0, N2, extra_rate)
    if p2.returncode != 0:
        return 'restart after a crash at effect point %d raises: %s' % (k, p2.stderr.strip().splitlines()[-1][:200] if p2.stderr.strip() else p2.returncode), crashed
    nsim = 2 + (1 if extra_rate is not None else 0)
    return verify(out, N2, nsim, snap, crashed)



def child_history(out, N, plan, interrupts):
    """one process, several run() calls: `plan` is a string such as 'AAA' or 'ABB' - a new letter builds a NEW BatchSimulation from the same specification,
    a repeated letter calls run(N) AGAIN on the same object (what a notebook user does after Ctrl-C); KeyboardInterrupt is raised inside the trial whose global
    serial number is in `interrupts`.  The last call is never interrupted."""
    warnings.filterwarnings('ignore')
    import contextlib
    import numpy as np
    import panqec.utils as U
    import panqec.simulation._batch_simulation as B
    import panqec.simulation._direct_simulation as DSm
    side = out + '.completed'
    real_save = U.save_json

    def save_and_record(data, file):
        r = real_save(data, file)
        with open(side, 'w') as f:
            json.dump(json.loads(json.dumps(data, cls=U.NumpyEncoder)), f)
        return r
    B.save_json = save_and_record
    orig = DSm.run_once
    cnt = {'n': 0}
    todo = set(interrupts)

    def ro(*a, **kw):
        cnt['n'] += 1
        if cnt['n'] in todo:
            todo.discard(cnt['n'])
            raise KeyboardInterrupt()
        r = orig(*a, **kw)
        r['effective_error'] = np.array([os.getpid() % 1000003, cnt['n']])
        return r
    DSm.run_once = ro
    objs = {}
    with contextlib.redirect_stdout(io.StringIO()):
        for idx, letter in enumerate(plan):
            if letter not in objs:
                objs[letter] = B.read_input_dict(json.loads(json.dumps(SPEC)), out, verbose=False)
            objs[letter].run(N)
            if os.path.exists(side):          # what the last completed save of this call holds
                with open(side) as f_, open('%s.%d' % (side, idx), 'w') as g_:
                    g_.write(f_.read())
    print(json.dumps({'n': [s.n_results for s in objs[plan[-1]]], 'pending_interrupts': sorted(todo)}))


def scenario_history(workdir, compress, plan, interrupts, N=8):
    """several run() calls in one process (same object re-run after KeyboardInterrupt); returns None or a failure string"""
    out = os.path.join(workdir, 'out.json' + ('.gz' if compress else ''))
    for f in os.listdir(workdir):
        os.unlink(os.path.join(workdir, f))
    here = os.path.dirname(os.path.dirname(os.path.abspath(__file__)))
    p = subprocess.run([sys.executable, '-m', 'bounded.crash', 'history', out, str(N), plan, json.dumps(list(interrupts))],
                       capture_output=True, text=True, cwd=here, timeout=600, env=dict(os.environ, PYTHONWARNINGS='ignore'))
    if p.returncode != 0:
        return 'run() history %s with interrupts %s raises: %s' % (plan, list(interrupts), p.stderr.strip().splitlines()[-1][:200] if p.stderr.strip() else p.returncode)
    info = json.loads(p.stdout.strip().splitlines()[-1])
    if info['pending_interrupts']:
        return None                        # the plan finished before every interrupt was delivered: not a history of the intended kind, nothing claimed
    for idx in range(len(plan)):
        sp = '%s.completed.%d' % (out, idx)
        snap = json.load(open(sp)) if os.path.exists(sp) else None
        why, _ = verify(out, N, 2, snap)
        if why:
            return 'history %s (same letter = run() again on the same object), interrupts in trials %s: %s' % (plan, list(interrupts), why)
    return None


if __name__ == '__main__' and len(sys.argv) > 1 and sys.argv[1] == 'history':
    child_history(sys.argv[2], int(sys.argv[3]), sys.argv[4], json.loads(sys.argv[5]))
elif __name__ == '__main__' and len(sys.argv) > 1 and sys.argv[1] == 'child':
    child(sys.argv[2], int(sys.argv[3]), int(sys.argv[4]), json.loads(sys.argv[5]) if len(sys.argv) > 5 else None, json.loads(sys.argv[6]) if len(sys.argv) > 6 else None)
