"""run-time contracts on real decoder objects (bounded stand-in / replay harness for C05, C06, C09, C11)"""
import io, os, contextlib, itertools
import numpy as np
from .codes import make

# decoder -> list of (code class, size, deformation, kwargs)
def cases(tier='quick'):
    big = tier != 'quick'
    c = {
        'MatchingDecoder': [('Toric2DCode', (2, 2)), ('Toric2DCode', (3, 4)), ('Planar2DCode', (2, 3)), ('Planar2DCode', (4, 4)), ('RotatedPlanar2DCode', (3, 3)), ('RotatedPlanar2DCode', (4, 3))],
        'UnionFindDecoder': [('Toric2DCode', (3, 3)), ('Toric2DCode', (4, 3)), ('Toric2DCode', (5, 5))],
        'BeliefPropagationOSDDecoder': [('Toric2DCode', (3, 3)), ('Planar2DCode', (2, 2)), ('RotatedPlanar2DCode', (3, 3)), ('Toric3DCode', (2, 2, 2)), ('XCubeCode', (2, 2, 2)),
                                        ('Color666PlanarCode', (2, 2)), ('RhombicPlanarCode', (2, 2, 2)), ('RotatedToric3DCode', (2, 3, 2)), ('Color488Code', (1, 1))],
        'MemoryBeliefPropagationDecoder': [('Toric2DCode', (3, 3)), ('Planar2DCode', (2, 2))],
        'SweepDecoder3D': [('Toric3DCode', (2, 2, 2)), ('Planar3DCode', (2, 2, 2))],
        'RotatedSweepDecoder3D': [('RotatedPlanar3DCode', (2, 2, 2)), ('RotatedToric3DCode', (2, 2, 2))],
        'SweepMatchDecoder': [('Toric3DCode', (2, 2, 2)), ('Toric3DCode', (3, 3, 3)), ('Planar3DCode', (2, 2, 2))],
        'RotatedSweepMatchDecoder': [('RotatedPlanar3DCode', (2, 2, 2)), ('RotatedPlanar3DCode', (3, 3, 3)), ('RotatedToric3DCode', (2, 2, 2)), ('RotatedToric3DCode', (4, 2, 2))],
        'XCubeMatchingDecoder': [('XCubeCode', (2, 2, 2)), ('XCubeCode', (3, 3, 3)), ('XCubeCode', (2, 3, 2)), ('XCubeCode', (3, 2, 2)), ('XCubeCode', (2, 2, 3)), ('XCubeCode', (2, 3, 4))],
    }
    out = []
    for d, lst in c.items():
        for name, size in lst:
            out.append((d, name, size, None, {}))
    # deformed / non-CSS variants for the decoders that accept every code
    out += [('BeliefPropagationOSDDecoder', 'Toric2DCode', (3, 3), 'XZZX', {}), ('BeliefPropagationOSDDecoder', 'Toric2DCode', (2, 3), 'XY', {}),
            ('BeliefPropagationOSDDecoder', 'Planar3DCode', (2, 2, 2), 'XZZX', {}), ('BeliefPropagationOSDDecoder', 'RhombicToricCode', (2, 2, 2), 'Checkerboard XZZX', {}),
            ('MemoryBeliefPropagationDecoder', 'Toric2DCode', (2, 2), 'XZZX', {})]
    # BP-OSD and MBP declare support for every code: every class at its smallest supported size, every deformation
    from .util import all_code_classes, small_sizes, deformation_variants
    for name, cls in all_code_classes():
        sizes = small_sizes(cls, name, 200, 3)
        if not sizes:
            continue
        size = sorted(sizes, key=lambda s_: (cls(*s_).n))[0] if False else sizes[0]
        for defo, kw in deformation_variants(cls)[: (3 if not big else 9)]:
            if not any(o[0] == 'BeliefPropagationOSDDecoder' and o[1] == name and o[3] == defo for o in out):
                out.append(('BeliefPropagationOSDDecoder', name, size, defo, kw))
    if big:
        out += [('BeliefPropagationOSDDecoder', 'Toric3DCode', (3, 3, 3), 'XZZX', {}), ('BeliefPropagationOSDDecoder', 'HollowRhombicCode', (2, 2, 3), None, {}),
                ('BeliefPropagationOSDDecoder', 'Color3DCode', (2, 2, 2), None, {}), ('MatchingDecoder', 'Toric2DCode', (6, 6), None, {}), ('UnionFindDecoder', 'Toric2DCode', (6, 7), None, {})]
    return out


COMPLETE = {'MatchingDecoder', 'UnionFindDecoder', 'BeliefPropagationOSDDecoder'}
RANDOMISED = {'SweepDecoder3D', 'RotatedSweepDecoder3D', 'SweepMatchDecoder', 'RotatedSweepMatchDecoder'}


def build(dname, code, direction=(1 / 3, 1 / 3, 1 / 3), p=0.1, noise_deformation=None, noise_kwargs=None, **kw):
    import panqec.decoders as Dm
    from panqec.error_models import PauliErrorModel
    em = PauliErrorModel(*direction, deformation_name=noise_deformation, deformation_kwargs=noise_kwargs)
    if dname == 'MemoryBeliefPropagationDecoder':
        kw.setdefault('max_bp_iter', 10)
    if dname == 'BeliefPropagationOSDDecoder':
        kw.setdefault('max_bp_iter', 20); kw.setdefault('osd_order', 0)
    with contextlib.redirect_stdout(io.StringIO()):
        return getattr(Dm, dname)(code, em, p, **kw), em


def sector_syndromes(code, rnd, k):
    """syndromes of X-only and of Z-only errors (one CSS sector of the syndrome is then identically zero)"""
    out = []
    n = code.n
    for i in range(k):
        for half in (0, 1):
            e = np.zeros(2 * n, dtype=np.uint8)
            for q in rnd.sample(range(n), min(n, rnd.randint(1, 3))):
                e[half * n + q] = 1
            out.append(np.asarray(code.measure_syndrome(e)).astype(np.uint8) % 2)
    return out


class DecodeDidNotReturn(Exception):
    pass


DECODE_LIMIT_S = int(os.environ.get('VERIF_DECODE_LIMIT_S', '60'))


def quiet_decode(dec, syn):
    """dec.decode(syn) with stdout silenced; a call that has not returned after DECODE_LIMIT_S seconds (ordinary calls on the sizes used here take
    milliseconds to a few seconds) is abandoned and reported as DecodeDidNotReturn - "returns ... without raising" is part of C05, and a check that
    waits for ever reports nothing.  Uses SIGALRM, i.e. only in the main thread of the (worker) process; elsewhere no limit is applied."""
    import signal, threading
    use_alarm = threading.current_thread() is threading.main_thread() and hasattr(signal, 'SIGALRM')
    if use_alarm:
        def on_alarm(signum, frame):
            raise DecodeDidNotReturn('%s.decode did not return within %d s' % (type(dec).__name__, DECODE_LIMIT_S))
        prev = signal.signal(signal.SIGALRM, on_alarm)
        signal.alarm(DECODE_LIMIT_S)
    try:
        with contextlib.redirect_stdout(io.StringIO()):
            return dec.decode(syn)
    finally:
        if use_alarm:
            signal.alarm(0)
            signal.signal(signal.SIGALRM, prev)


def syndromes(code, rnd, k, rates=(0.02, 0.08, 0.2)):
    """syndromes of random Pauli errors (always valid syndromes) + the zero syndrome"""
    out = [np.zeros(code.n_stabilizers, dtype=np.uint8)]
    n = code.n
    for i in range(k):
        r = rates[i % len(rates)]
        e = np.zeros(2 * n, dtype=np.uint8)
        for q in range(n):
            if rnd.random() < r:
                p = rnd.choice('XYZ')
                e[q] = p in 'XY'; e[n + q] = p in 'YZ'
        out.append(np.asarray(code.measure_syndrome(e)).astype(np.uint8) % 2)
    return out


def snapshot(code, em, p):
    """bytes of the cached tables a decoder must not alter"""
    tabs = em.probability_distribution(code, p)
    parts = [np.asarray(t).tobytes() for t in tabs]
    H = code.stabilizer_matrix
    parts += [H.data.tobytes(), H.indices.tobytes(), H.indptr.tobytes(), np.asarray(code.x_indices).tobytes(), np.asarray(code.z_indices).tobytes()]
    if code.is_css:
        for M in (code.Hx, code.Hz):
            parts += [M.data.tobytes(), M.indices.tobytes(), M.indptr.tobytes()]
    parts += [code.logicals_x.tobytes(), code.logicals_z.tobytes()]
    return b'|'.join(parts)
