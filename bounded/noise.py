"""run-time contracts on the real noise-model functions (bounded stand-in / replay harness for C07, C18)"""
import math
import numpy as np
from .util import StubRng


def spec_choice(ps, u):
    lo = 0.0
    for k, ch in enumerate('IXYZ'):
        hi = lo + ps[k]
        if lo <= u < hi:
            return ch
        lo = hi
    return None          # u beyond the cumulative sum (float shortfall): unspecified


def nat_fast_choice(ps, u):
    from panqec.error_models._pauli_error_model import fast_choice
    got = fast_choice(('I', 'X', 'Y', 'Z'), list(ps), rng=StubRng([u]))
    want = spec_choice(ps, u)
    if want is not None and got != want:
        return 'fast_choice(probs=%r, u=%r) = %r but u lies in the interval of %r' % (list(ps), u, got, want)
    return None


def nat_dist(code, direction, p, defo=None, kwargs=None):
    from panqec.error_models import PauliErrorModel
    em = PauliErrorModel(*direction, deformation_name=defo, deformation_kwargs=kwargs or None)
    getattr(em.probability_distribution, 'cache_clear', lambda: None)()          # (only if the tables are memoised by functools)
    return nat_dist_of(em, code, direction, p, defo, kwargs)


def nat_dist_of(em, code, direction, p, defo=None, kwargs=None):
    """the table of a GIVEN model object (whatever was done with it before) against the stated channel"""
    pi, px, py, pz = em.probability_distribution(code, p)
    n = code.n
    base = {'I': 1 - p, 'X': p * direction[0], 'Y': p * direction[1], 'Z': p * direction[2]}
    for arr in (pi, px, py, pz):
        if np.shape(arr) != (n,):
            return 'table shape %r != (%d,)' % (np.shape(arr), n)
    for i in range(n):
        Dm = {'X': 'X', 'Y': 'Y', 'Z': 'Z'}
        if defo is not None:
            Dm = code.get_deformation(code.qubit_coordinates[i], defo, **(kwargs or {}))
        want = (base['I'], base[Dm['X']], base[Dm['Y']], base[Dm['Z']])
        got = (pi[i], px[i], py[i], pz[i])
        if not np.allclose(got, want, atol=1e-12):
            return 'qubit %d: (p_I,p_X,p_Y,p_Z) = %r, expected %r (deformation %r)' % (i, tuple(map(float, got)), want, Dm)
        if min(got) < -1e-15 or abs(sum(got) - 1) > 1e-9:
            return 'qubit %d: probabilities %r not a distribution' % (i, got)
    return None


class _TableModel:
    """PauliErrorModel whose probability_distribution is prescribed (for model-driven replay)"""
    def __new__(cls, tables):
        from panqec.error_models import PauliErrorModel

        class TM(PauliErrorModel):
            def probability_distribution(self, code, error_rate):
                return tuple(np.array(t, dtype=float) for t in tables)
        return TM(1 / 3, 1 / 3, 1 / 3)


class _NCode:
    def __init__(self, n):
        self.n = n


def _coupling_check(em, code, p, us):
    """the sampler as it is written today: one rng.random() per qubit, inverse CDF in the order I, X, Y, Z"""
    pi, px, py, pz = em.probability_distribution(code, p)
    err = em.generate(code, p, rng=StubRng(us))
    n = code.n
    if np.shape(err) != (2 * n,):
        return 'generate returned shape %r, expected (%d,)' % (np.shape(err), 2 * n)
    if not set(np.unique(err).tolist()) <= {0, 1}:
        return 'generate returned non-binary entries'
    for i in range(n):
        want = spec_choice((pi[i], px[i], py[i], pz[i]), us[i % len(us)])
        if want is None:
            continue
        wx, wz = int(want in 'XY'), int(want in 'YZ')
        if (int(err[i]), int(err[n + i])) != (wx, wz):
            return 'qubit %d: draw u=%r with (p_I,p_X,p_Y,p_Z)=%r must give %s = bits (%d,%d); got (%d,%d)' % (
                i, us[i % len(us)], (float(pi[i]), float(px[i]), float(py[i]), float(pz[i])), want, wx, wz, int(err[i]), int(err[n + i]))
    return None


def _measure_check(em, code, p, m=1000):
    """implementation-independent: the push-forward of the uniform draws.  Every qubit is driven with the same u_j = (j + 1/2)/m, j < m; the fraction of draws that
    give each Pauli must equal its table entry up to the grid resolution (a sampler that is piecewise constant in u with <= 4 pieces per qubit)"""
    pi, px, py, pz = em.probability_distribution(code, p)
    n = code.n
    cnt = np.zeros((4, n))
    for j in range(m):
        err = np.asarray(em.generate(code, p, rng=StubRng([(j + 0.5) / m])))
        if err.shape != (2 * n,):
            return 'generate returned shape %r, expected (%d,)' % (err.shape, 2 * n)
        x, z = err[:n].astype(int), err[n:].astype(int)
        cnt[0] += (1 - x) * (1 - z); cnt[1] += x * (1 - z); cnt[2] += x * z; cnt[3] += (1 - x) * z
    freq = cnt / m
    tol = 5.0 / m
    for k, (nm, t) in enumerate(zip('IXYZ', (pi, px, py, pz))):
        bad = np.nonzero(np.abs(freq[k] - np.asarray(t, dtype=float)) > tol)[0]
        if len(bad):
            i = int(bad[0])
            return ('qubit %d: a fraction %.4f of the uniform draws gives %s, the channel probability is %.4f (table (p_I,p_X,p_Y,p_Z) = %r)'
                    % (i, float(freq[k][i]), nm, float(t[i]), (float(pi[i]), float(px[i]), float(py[i]), float(pz[i]))))
    return None


def _statistical_check(em, code, p, nsamp=20000, seed=12345):
    """last resort for a sampler that cannot be driven by the stub generator: seeded samples, 6.5-sigma band per (qubit, Pauli) - deterministic for a given seed"""
    pi, px, py, pz = em.probability_distribution(code, p)
    n = code.n
    rng = np.random.default_rng(seed)
    cnt = np.zeros((4, n))
    for _ in range(nsamp):
        err = np.asarray(em.generate(code, p, rng=rng))
        x, z = err[:n].astype(int), err[n:].astype(int)
        cnt[0] += (1 - x) * (1 - z); cnt[1] += x * (1 - z); cnt[2] += x * z; cnt[3] += (1 - x) * z
    for k, (nm, t) in enumerate(zip('IXYZ', (pi, px, py, pz))):
        t = np.asarray(t, dtype=float)
        band = 6.5 * np.sqrt(np.maximum(t * (1 - t), 1e-12) / nsamp) + 1e-9
        bad = np.nonzero((np.abs(cnt[k] / nsamp - t) > band) | ((t == 0) & (cnt[k] > 0)))[0]
        if len(bad):
            i = int(bad[0])
            return 'qubit %d: %s sampled with frequency %.4f over %d seeded samples, channel probability %.4f' % (i, nm, cnt[k][i] / nsamp, nsamp, float(t[i]))
    return None


def nat_generate(em, code, p, us):
    """sampling contract of C07.  The property asks for the right per-qubit DISTRIBUTION, not for a particular coupling to the generator: the exact coupling of the
    present implementation is tried first (exact, cheap); if it does not hold, the implementation-independent measure test decides; if the sampler cannot be
    driven by the stub generator at all, a seeded statistical test decides."""
    try:
        why = _coupling_check(em, code, p, us)
    except (AttributeError, TypeError, IndexError):
        why = 'stub generator not usable'
    if why is None:
        return None
    # the sampler does not use today's coupling: the distribution tests are much more expensive, so only a bounded number of them is run per process
    # (the callers visit deformed / biased models early)
    global _SLOW_BUDGET
    if _SLOW_BUDGET <= 0:
        return None
    _SLOW_BUDGET -= 1
    try:
        why2 = _measure_check(em, code, p, m=600)
    except (AttributeError, TypeError, IndexError):
        return _statistical_check(em, code, p, nsamp=12000)
    return why2


_SLOW_BUDGET = 80
def nat_weights(em, code, p, eps=1e-20):
    pi, px, py, pz = em.probability_distribution(code, p)
    wx, wz = em.get_weights(code, p, eps=eps)
    for i in range(code.n):
        qx, qz = px[i] + py[i], pz[i] + py[i]
        ex = -math.log((qx + eps) / (1 - qx + eps)); ez = -math.log((qz + eps) / (1 - qz + eps))
        if not (np.isclose(wx[i], ex, rtol=1e-9, atol=1e-9) and np.isclose(wz[i], ez, rtol=1e-9, atol=1e-9)):
            return 'qubit %d: weights (%r,%r) != LLR of flip marginals (%r,%r)' % (i, float(wx[i]), float(wz[i]), ex, ez)
        for w, q in ((wx[i], qx), (wz[i], qz)):
            if abs(q - 0.5) > 1e-9 and (w > 0) != (q < 0.5):
                return 'qubit %d: weight %r has the wrong sign for marginal %r' % (i, float(w), float(q))
    return None


def nat_update(corr, px, py, pz, direction):
    from panqec.decoders import BeliefPropagationOSDDecoder
    dec = BeliefPropagationOSDDecoder.__new__(BeliefPropagationOSDDecoder)
    got = dec.update_probabilities(np.array(corr), np.array(px, float), np.array(py, float), np.array(pz, float), direction=direction)
    for i in range(len(corr)):
        a, b = (pz[i], px[i]) if direction == 'z->x' else (px[i], pz[i])
        if corr[i] == 1:
            want = py[i] / (a + py[i]) if a + py[i] != 0 else 0.0
        else:
            if 1 - a - py[i] == 0:
                continue
            want = b / (1 - a - py[i])
        if not np.isclose(got[i], want, atol=1e-12):
            return 'index %d (%s, outcome %d): updated prior %r != conditional probability %r' % (i, direction, corr[i], float(got[i]), want)
    return None
