"""helpers shared by the bounded (run-time contract) layer"""
from fractions import Fraction
import itertools, warnings
import numpy as np
warnings.filterwarnings('ignore')


def frac(s, default=0.0):
    """z3 model value string -> float"""
    if s is None:
        return default
    s = str(s).replace('?', '')
    try:
        if '/' in s:
            return float(Fraction(s))
        return float(s)
    except Exception:
        return default


def toint(s, default=0):
    try:
        return int(str(s))
    except Exception:
        return default


class StubRng:
    """numpy-Generator stand-in handing out a prescribed sequence of uniform draws"""
    def __init__(self, us):
        self.us = list(us); self.k = 0

    def random(self, size=None):
        if size is None:
            u = self.us[self.k % len(self.us)]; self.k += 1
            return u
        import numpy as _np
        n_ = int(_np.prod(size))
        out = _np.array([self.us[(self.k + j) % len(self.us)] for j in range(n_)], dtype=float).reshape(size)
        self.k += n_
        return out


def all_code_classes():
    import panqec.codes as C
    names = [n for n in dict.fromkeys(C.__all__) if n != 'StabilizerCode']
    return [(n, getattr(C, n)) for n in names]


# supported size families (DESIGN.md section 3), as predicates on the size tuple
def supported(name, size):
    L = size
    if name in ('Toric2DCode', 'Toric3DCode', 'XCubeCode'):
        return all(l >= 2 for l in L)
    if name in ('Planar2DCode', 'RotatedPlanar2DCode', 'Planar3DCode', 'RotatedPlanar3DCode', 'HollowPlanar3DCode', 'Color666PlanarCode'):
        return all(l >= 1 for l in L)
    if name == 'RhombicToricCode':
        return all(l >= 2 and l % 2 == 0 for l in L)
    if name == 'RhombicPlanarCode':
        return L[0] >= 2 and L[1] >= 2 and L[2] >= 1
    if name == 'HollowRhombicCode':
        return L[0] >= 2 and L[1] >= 2 and L[2] >= 3
    if name == 'RotatedToric3DCode':
        return L[0] >= 2 and L[1] >= 2 and L[2] >= 1 and not (L[0] % 2 == 1 and L[1] % 2 == 1)
    if name in ('Color666ToricCode', 'Color488Code'):
        return L[0] == L[1] and L[0] >= 1
    if name == 'Color3DCode':
        return all(l >= 2 and l % 2 == 0 for l in L)
    return True


def deformation_variants(cls):
    """(name, kwargs) for every deformation the class offers, every axis it accepts"""
    out = [(None, {})]
    for dn in getattr(cls, 'deformation_names', []):
        if 'deformation_axis' in cls.get_deformation.__code__.co_varnames:
            for a in ['x', 'y', 'z'][:cls.dimension]:
                out.append((dn, {'deformation_axis': a}))
        else:
            out.append((dn, {}))
    return out


def small_sizes(cls, name, maxn, maxL=4):
    dim = cls.dimension
    out = []
    for size in itertools.product(range(1, maxL + 1), repeat=dim):
        if not supported(name, size):
            continue
        try:
            c = cls(*size)
            if c.n <= maxn:
                out.append(size)
        except Exception:
            continue
    return out
