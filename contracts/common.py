"""Shared pieces of the sidecar contracts: symbolic stand-ins for objects the verified functions receive."""
import z3
from pyvc.source import Module, get_class, get_func, Unsupported
from pyvc.symex import X, St, S, Red, UF
from pyvc.values import T, E, D, M, Arr, Obj, Opaque, NONE, Z, B, conc, ite, eq
from pyvc.solve import check

REAL = z3.RealSort()
INT = z3.IntSort()


def result(name, r, funcs, x=None, goal=None, **extra):
    """uniform obligation result from a solver verdict where `unsat` means discharged"""
    out = dict(verdict={'unsat': 'discharged', 'sat': 'refuted', 'unknown': 'unknown'}[r['verdict']], model=r.get('model'),
               backend=r['backend'], seconds=r['seconds'], tried=r.get('tried'),
               functions=[dict(function=f.ref, sha256_16=f.sha) for f in funcs],
               transparent=sorted(x.transparent) if x is not None else [])
    if goal is not None:
        sol = z3.Solver(); sol.add(*goal); out['smt2'] = sol.to_smt2()[:1500]
    out.update(extra)
    return out


def cover(name, r, funcs, x=None, **extra):
    """reachability / satisfiability-of-precondition query: `sat` is the good outcome"""
    v = 'discharged' if r['verdict'] == 'sat' else 'refuted' if r['verdict'] == 'unsat' else 'unknown'
    out = dict(verdict=v, model=None, backend=r['backend'], seconds=r['seconds'],
               functions=[dict(function=f.ref, sha256_16=f.sha) for f in funcs], transparent=sorted(x.transparent) if x else [],
               detail='cover query (must be satisfiable): %s' % r['verdict'])
    out.update(extra)
    return out


def prob_tables(n, tag=''):
    """the four per-qubit probability arrays (p_i, p_x, p_y, p_z) as uninterpreted real functions of the qubit index"""
    fs = {k: z3.Function('p_%s%s' % (k, tag), INT, REAL) for k in 'ixyz'}
    arrs = {k: Arr((n,), (lambda i, f=f: f(Z(i))), 'float', 'cache:probability_distribution') for k, f in fs.items()}
    return fs, arrs


def bsf_error(n, name='error'):
    """binary symplectic vector of length 2n: element function over {0,1}"""
    f = z3.Function(name, INT, INT)
    return f, Arr((2 * n,), (lambda i: f(Z(i))), 'int', 'param:' + name)
