"""Sidecar contracts for the decoder classes: which fields hold third-party objects, which collaborators are analysed from
source, which instance fields a decode() call may write (lazy initialisation only)."""
from pyvc.source import get_class

D_ = 'panqec/decoders/'
SC = get_class('panqec/codes/base/_stabilizer_code.py', 'StabilizerCode')
BEM = get_class('panqec/error_models/_base_error_model.py', 'BaseErrorModel')
PEM = get_class('panqec/error_models/_pauli_error_model.py', 'PauliErrorModel')

DECODERS = {
    'MatchingDecoder': D_ + 'matching/_matching_decoder.py',
    'UnionFindDecoder': D_ + 'union_find/uf_decoder.py',
    'BeliefPropagationOSDDecoder': D_ + 'belief_propagation/bposd_decoder.py',
    'MemoryBeliefPropagationDecoder': D_ + 'belief_propagation/mbp_decoder.py',
    'SweepDecoder3D': D_ + 'sweepmatch/_sweep_decoder_3d.py',
    'RotatedSweepDecoder3D': D_ + 'sweepmatch/_rotated_sweep_decoder.py',
    'SweepMatchDecoder': D_ + 'sweepmatch/_sweep_match_decoder.py',
    'RotatedSweepMatchDecoder': D_ + 'sweepmatch/_rotated_sweep_match_decoder.py',
    'XCubeMatchingDecoder': D_ + 'xcube/_xcube_matching_decoder.py',
}


def cls(name):
    return get_class(DECODERS[name], name)


def class_cfg():
    common = {'code': SC, 'error_model': PEM}
    cfg = {
        'MatchingDecoder': dict(ext={'matcher_x', 'matcher_z'}, attrs=dict(common)),
        'UnionFindDecoder': dict(ext=set(), attrs=dict(common)),
        'BeliefPropagationOSDDecoder': dict(ext={'z_decoder', 'x_decoder', 'decoder'}, attrs=dict(common)),
        'MemoryBeliefPropagationDecoder': dict(ext=set(), attrs=dict(common)),
        'SweepDecoder3D': dict(ext=set(), attrs=dict(common)),
        'RotatedSweepDecoder3D': dict(ext=set(), attrs=dict(common)),
        'XCubeMatchingDecoder': dict(ext=set(), attrs=dict(common)),
        'StabilizerCode': dict(ext=set(), attrs={}),
        'PauliErrorModel': dict(ext=set(), attrs={}),
        'BaseErrorModel': dict(ext=set(), attrs={}),
    }
    cfg['SweepMatchDecoder'] = dict(ext=set(), attrs=dict(common, sweeper=cls('SweepDecoder3D'), matcher=cls('MatchingDecoder')))
    cfg['RotatedSweepMatchDecoder'] = dict(ext=set(), attrs=dict(common, sweeper=cls('RotatedSweepDecoder3D'), matcher=cls('MatchingDecoder')))
    return cfg


# instance fields decode() may assign: one-time lazy initialisation guarded by _initialized (BP-OSD)
LAZY_FIELDS = {'BeliefPropagationOSDDecoder': {'z_decoder', 'x_decoder', 'decoder', '_initialized'}}
RANDOMISED = {'SweepDecoder3D', 'RotatedSweepDecoder3D', 'SweepMatchDecoder', 'RotatedSweepMatchDecoder'}
