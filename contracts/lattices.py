"""Sidecar contracts for the lattice classes: supported-size families (preconditions) and obligation builders."""
import z3
from pyvc.lattice import Lattice, effective, anticommute_count, anticommute_odd, xor_all, anti, pauli_conds, Acc
from pyvc.source import Unsupported
from pyvc.values import T, E, M, Z, B, eq
from pyvc.solve import check

B_ = 'panqec/codes/'
ge = lambda k: (lambda L: z3.And([l >= k for l in L]))                                    # noqa
even = lambda L: z3.And([z3.And(l >= 2, l % 2 == 0) for l in L])                          # noqa

# class -> (file, supported-size family as a predicate on L)   [DESIGN.md section 3; confirmed natively]
CLASSES = {
    'Toric2DCode': (B_ + 'surface_2d/_toric_2d_code.py', ge(2)),
    'Planar2DCode': (B_ + 'surface_2d/_planar_2d_code.py', ge(1)),
    'RotatedPlanar2DCode': (B_ + 'surface_2d/_rotated_planar_2d_code.py', ge(1)),
    'Toric3DCode': (B_ + 'surface_3d/_toric_3d_code.py', ge(2)),
    'Planar3DCode': (B_ + 'surface_3d/_planar_3d_code.py', ge(1)),
    'RotatedPlanar3DCode': (B_ + 'surface_3d/_rotated_planar_3d_code.py', ge(1)),
    'HollowPlanar3DCode': (B_ + 'surface_3d/_hollow_planar_3d_code.py', ge(1)),
    'RotatedToric3DCode': (B_ + 'surface_3d/_rotated_toric_3d_code.py', lambda L: z3.And(L[0] >= 2, L[1] >= 2, L[2] >= 1)),
    'RhombicToricCode': (B_ + 'surface_3d/_rhombic_toric_code.py', even),
    'RhombicPlanarCode': (B_ + 'surface_3d/_rhombic_planar_code.py', lambda L: z3.And(L[0] >= 2, L[1] >= 2, L[2] >= 1)),
    'HollowRhombicCode': (B_ + 'surface_3d/_hollow_rhombic_code.py', lambda L: z3.And(L[0] >= 2, L[1] >= 2, L[2] >= 3)),
    'XCubeCode': (B_ + 'fractons/_xcube_code.py', ge(2)),
    'Color488Code': (B_ + 'color_2d/_color_488_code.py', lambda L: z3.And(L[0] >= 1, L[0] == L[1])),
    'Color666PlanarCode': (B_ + 'color_2d/_color_666_planar_code.py', ge(1)),
    'Color666ToricCode': (B_ + 'color_2d/_color_666_toric_code.py', lambda L: z3.And(L[0] >= 1, L[0] == L[1])),
    'Color3DCode': (B_ + 'color_3d/_color_3d_code.py', even),
}


def lattice(name):
    path, pre = CLASSES[name]
    lat = Lattice(path, name)
    return lat, pre(lat.L)


def funcs_of(lat, names):
    out = []
    for n in names:
        f = lat.cls.lookup(n)
        if f is not None:
            out.append(f)
    return out


# ------------------------------------------------------------------------------------------------ obligation builders
def side_conditions(st):
    return [z3.And(c, z3.Not(f)) for _, c, f in st.side]


def sym_stab(lat, name, arity):
    a = [z3.Int('%s%d' % (name, i)) for i in range(arity)]
    m, st = lat.stabilizer(a)
    return a, m, st


def comm_query(lat, pre, arA, arB):
    """assertions whose unsatisfiability proves: any two generators of these arities commute, for every L in the family"""
    a, ma, sa = sym_stab(lat, 'a', arA)
    b, mb, sb = sym_stab(lat, 'b', arB)
    return [pre, lat.S(a), lat.S(b), anticommute_odd(effective(ma), effective(mb))], (a, b, ma, mb, sa, sb)


def op_value_at(acc, key):
    """Pauli (E) of a built operator at a symbolic key; empty alternatives when the key is not in the support"""
    return acc.value_at(key.items)


def logical_vs_stab_count(lat, acc, m_eff):
    """number of qubits where stabilizer entries anticommute with the built logical operator"""
    terms = []
    for g, k, v in m_eff:
        if len(k.items) not in acc.arities():
            continue
        lv = op_value_at(acc, k)
        terms.append(z3.If(z3.And(g, anti(v, lv)), 1, 0))
    return z3.Sum(terms) if terms else z3.IntVal(0)


def logical_vs_stab_odd(lat, acc, m_eff):
    """the stabilizer (effective entries) anticommutes with the built logical operator: odd number of anticommuting qubits"""
    conds = []
    for g, k, v in m_eff:
        if len(k.items) not in acc.arities():
            continue
        conds.append(z3.And(g, anti(v, op_value_at(acc, k))))
    return xor_all(conds)


def rename(f, old, tag):
    new = [z3.Int('%s_%s' % (v, tag)) for v in old]
    return (z3.substitute(f, *zip(old, new)) if old else f), new
