import itertools, sys, warnings
import numpy as np
warnings.filterwarnings('ignore')
from panqec.codes import *
from panqec.bpauli import bs_prod, brank
import panqec.codes as C
names=[n for n in C.__all__ if n!='StabilizerCode']
names=list(dict.fromkeys(names))
def check(code):
    H=code.stabilizer_matrix
    n=code.n; k=code.k
    out=[]
    if np.any(bs_prod(H,H)!=0): out.append('stab-noncommute')
    lx=code.logicals_x; lz=code.logicals_z
    if lx.shape!=lz.shape: out.append('k mismatch %s %s'%(lx.shape,lz.shape)); return out
    if np.any(bs_prod(H,lx)!=0): out.append('lx-vs-stab')
    if np.any(bs_prod(H,lz)!=0): out.append('lz-vs-stab')
    if np.any(bs_prod(lx,lz)!=np.eye(k)): out.append('lx-lz-not-identity')
    if np.any(bs_prod(lx,lx)!=0): out.append('lx-lx')
    if np.any(bs_prod(lz,lz)!=0): out.append('lz-lz')
    r=brank(H)
    if r!=n-k: out.append('rank %d != n-k %d (n=%d,k=%d)'%(r,n-k,n,k))
    return out
maxn=int(sys.argv[1]) if len(sys.argv)>1 else 4
for name in names:
    cls=getattr(C,name)
    dim=cls.dimension
    for size in itertools.product(range(1,maxn+1),repeat=dim):
        variants=[(None,{})]
        for dn in cls.deformation_names:
            if 'deformation_axis' in cls.get_deformation.__code__.co_varnames:
                axes=['x','y','z'][:dim]
                variants += [(dn,{'deformation_axis':a}) for a in axes]
            else: variants.append((dn,{}))
        for dn,kw in variants:
            try:
                code=cls(*size)
                if dn: code.deform(dn,**kw)
                res=check(code)
            except Exception as e:
                res=['EXC %s: %s'%(type(e).__name__, str(e)[:80])]
            if res: print(name,size,dn,kw,res, flush=True)
    print('done',name, flush=True)
