import numpy as np, itertools, warnings, sys, io, contextlib, multiprocessing as mp
warnings.filterwarnings('ignore')
import panqec.codes as C
from panqec.error_models import PauliErrorModel
from panqec.decoders import BeliefPropagationOSDDecoder
SZ={'Toric2DCode':[(2,2),(3,4)],'Planar2DCode':[(2,2),(3,4)],'RotatedPlanar2DCode':[(2,3),(4,3)],'Color666PlanarCode':[(1,1),(2,2)],'Color666ToricCode':[(1,1),(2,2)],'Color488Code':[(1,1),(2,2)],
'Toric3DCode':[(2,2,2),(2,3,2)],'Planar3DCode':[(2,2,2),(2,3,3)],'RotatedPlanar3DCode':[(2,2,2),(3,2,3)],'HollowPlanar3DCode':[(2,2,2),(3,3,3)],'RhombicToricCode':[(2,2,2),(2,4,2)],'RhombicPlanarCode':[(2,2,2),(3,2,2)],
'HollowRhombicCode':[(2,2,3),(4,4,4)],'RotatedToric3DCode':[(2,2,2),(3,2,2),(2,3,3)],'XCubeCode':[(2,2,2),(2,3,2)],'Color3DCode':[(2,2,2)]}
def variants(cls):
    v=[(None,{})]
    dim=cls.dimension
    for dn in cls.deformation_names:
        if 'deformation_axis' in cls.get_deformation.__code__.co_varnames:
            v+=[(dn,{'deformation_axis':a}) for a in 'xyz'[:dim]]
        else: v.append((dn,{}))
    return v
def job(a):
    cn,size,dn,kw=a
    out=[]
    try:
        code=getattr(C,cn)(*size)
        if dn: code.deform(dn,**kw)
        rng=np.random.default_rng(1)
        for em in [PauliErrorModel(1/3,1/3,1/3),PauliErrorModel(0.05,0.05,0.9,dn,kw) if dn else PauliErrorModel(0.05,0.05,0.9)]:
            dec=BeliefPropagationOSDDecoder(code,em,0.1,osd_order=0,max_bp_iter=20)
            bad=0; raised=0; first=None
            for t in range(40):
                e=em.generate(code,[0.02,0.1,0.3,0.0][t%4],rng)
                s=code.measure_syndrome(e); s0=s.copy()
                try: c=dec.decode(s)
                except Exception as ex: raised+=1; first=first or repr(ex)[:80]; continue
                if not np.array_equal(s,s0): out.append('MUT')
                if c.shape!=(2*code.n,): out.append('SHAPE')
                if not np.array_equal(code.measure_syndrome(c),s): bad+=1
                if t%4==3 and np.any(c): out.append('nonzero-corr-for-zero-syndrome')
            if bad or raised: out.append('mismatch %d raised %d %s'%(bad,raised,first))
    except Exception as ex:
        out.append('EXC '+repr(ex)[:100])
    return a,out
if __name__=='__main__':
    jobs=[(cn,s,dn,kw) for cn in SZ for s in SZ[cn] for dn,kw in variants(getattr(C,cn))]
    with mp.Pool(16) as p:
        for a,out in p.imap_unordered(job,jobs):
            if out: print(a,out,flush=True)
    print('done',len(jobs))
