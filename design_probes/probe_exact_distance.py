import numpy as np, warnings, itertools, time, multiprocessing as mp
warnings.filterwarnings('ignore')
import z3
import panqec.codes as C
def true_distance_leq(code, w):
    """is there a nontrivial logical of weight <= w ? (z3 pseudo-boolean)"""
    H=code.stabilizer_matrix.toarray(); n=code.n
    lx=code.logicals_x; lz=code.logicals_z
    x=[z3.Bool('x%d'%i) for i in range(n)]; z=[z3.Bool('z%d'%i) for i in range(n)]
    s=z3.Solver()
    def par(row):
        terms=[z[j] for j in np.nonzero(row[:n])[0]]+[x[j] for j in np.nonzero(row[n:])[0]]
        if not terms: return z3.BoolVal(False)
        r=terms[0]
        for t in terms[1:]: r=z3.Xor(r,t)
        return r
    for row in H: s.add(z3.Not(par(row)))
    s.add(z3.Or([par(r) for r in lx]+[par(r) for r in lz]))
    s.add(z3.PbLe([(z3.Or(x[i],z[i]),1) for i in range(n)], w))
    return s.check()==z3.sat
def job(a):
    cn,size=a
    try:
        code=getattr(C,cn)(*size); d=int(code.d); n=code.n
        t=time.time()
        if d>1 and true_distance_leq(code,d-1):
            # find actual
            w=d-1
            while w>1 and true_distance_leq(code,w-1): w-=1
            return a,n,d,'TRUE DISTANCE %d < reported'%w, round(time.time()-t,1)
        return a,n,d,'ok',round(time.time()-t,1)
    except Exception as e:
        return a,0,0,'EXC '+repr(e)[:80],0
SZ={'Toric2DCode':[(2,2),(2,3),(3,3),(3,5),(4,4)],'Planar2DCode':[(2,2),(2,3),(3,3),(4,3),(4,4)],'RotatedPlanar2DCode':[(2,2),(2,3),(3,3),(4,3),(5,5)],
'Color666PlanarCode':[(1,1),(2,2)],'Color666ToricCode':[(1,1),(2,2)],'Color488Code':[(1,1),(2,2)],
'Toric3DCode':[(2,2,2),(2,3,2),(3,3,3)],'Planar3DCode':[(2,2,2),(2,3,3),(3,3,3)],'RotatedPlanar3DCode':[(2,2,2),(3,2,3),(3,3,3)],'HollowPlanar3DCode':[(2,2,2),(3,3,3)],
'RhombicToricCode':[(2,2,2),(2,4,2)],'RhombicPlanarCode':[(2,2,2),(3,2,2),(3,3,3)],'HollowRhombicCode':[(2,2,3),(3,3,3)],'RotatedToric3DCode':[(2,2,2),(3,2,2),(2,3,3),(4,3,2)],'XCubeCode':[(2,2,2),(2,3,2),(3,3,3)],'Color3DCode':[(2,2,2)]}
if __name__=='__main__':
    jobs=[(cn,s) for cn in SZ for s in SZ[cn]]
    with mp.Pool(16) as p:
        for r in p.imap_unordered(job,jobs): print(r,flush=True)
