import time
from z3 import *
label=String('label'); d=String('dir')
S=Function('S',RealSort(),StringSort())   # str(eta), assumed injective
e1,e2=Reals('e1 e2'); 
inj=ForAll([e1,e2], Implies(S(e1)==S(e2), e1==e2))
def name_orig(e): return Concat(d, StringVal('/'), label, StringVal('.json'))
def name_fix(e): return Concat(d, StringVal('/'), label, StringVal('_'), S(e), StringVal('.json'))
a,b=Reals('a b')
for nm,f in (('orig',name_orig),('fixed',name_fix)):
    s=Solver(); s.set('timeout',30000); s.add(inj, a!=b, f(a)==f(b))
    t=time.time(); print(nm, s.check(), round(time.time()-t,2))
