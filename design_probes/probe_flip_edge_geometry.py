"""Design probe for C10.geom: flip_edge toggle set == faces whose stabilizer anticommutes with Z on the edge, for all L."""
import sys,time,z3,ast
sys.path.insert(0,'/verif/design_probes')
from sx import *
class Signs:
    def __init__(s): s.toggles=[]
class Idx:
    def __init__(s,loc): s.loc=loc
class StabIndex: pass
class DX(X):
    """executor for decoder methods: self.code.* is resolved in the code class"""
    def __init__(self,code_cls,dec_cls,L): super().__init__(code_cls,L); self.dec=dec_cls
    def ev(self,e,env):
        if isinstance(e,ast.Attribute) and isinstance(e.value,ast.Name) and e.value.id=='self' and e.attr=='code': return SelfV()
        if isinstance(e,ast.Attribute):
            b=self.ev(e.value,env)
            if isinstance(b,SelfV) and e.attr=='stabilizer_index': return StabIndex()
        if isinstance(e,ast.Subscript):
            b=self.ev(e.value,env)
            if isinstance(b,StabIndex): return Idx(self.ev(e.slice,env))
            if isinstance(b,Signs): return ('signval',self.ev(e.slice,env))
        if isinstance(e,ast.BinOp) and isinstance(e.op,ast.Sub):
            r=self.ev(e.right,env)
            if isinstance(r,tuple) and r and r[0]=='signval': return ('toggle',r[1])
        if isinstance(e,ast.ListComp):
            # [face for face in faces if cond(face)]  -> guarded list
            gen=e.generators[0]; src=self.ev(gen.iter,env); out=[]
            for item in src.items:
                env2=dict(env); self.assign(gen.target,item,env2,z3.BoolVal(True))
                g=z3.And([B(self.ev(c,env2)) for c in gen.ifs]) if gen.ifs else z3.BoolVal(True)
                out.append(('guarded',g,self.ev(e.elt,env2)))
            return T(out,'glist')
        return super().ev(e,env)
    def call(self,e,env):
        f=e.func
        if isinstance(f,ast.Attribute) and f.attr=='is_stabilizer' and len(e.args)==2:
            loc=self.ev(e.args[0],env); ty=self.ev(e.args[1],env)
            st=self.inline(self.c.methods['stabilizer_type'],[loc],True)
            return z3.And(self.S(loc.items), eq(st,ty))
        return super().call(e,env)
    def assign(self,tgt,val,env,g):
        if isinstance(tgt,ast.Subscript):
            b=self.ev(tgt.value,env)
            if isinstance(b,Signs):
                assert isinstance(val,tuple) and val[0]=='toggle'
                b.toggles.append((g,val[1].loc)); return
        return super().assign(tgt,val,env,g)
    def block(self,body,env,st):
        # support 'for face in glist'
        for s in body:
            if isinstance(s,ast.For):
                it=self.ev(s.iter,env)
                if isinstance(it,T) and it.kind=='glist':
                    outer=st['live']
                    for _,g,item in it.items:
                        st['live']=z3.And(outer,g); self.assign(s.target,item,env,st['live']); super().block(s.body,env,st)
                    st['live']=outer; continue
            super().block([s],env,st)
def geom(code_path,code_cls,dec_path,dec_cls,pre,extra=lambda L,q: z3.BoolVal(True)):
    cc=Cls(code_path,code_cls); dc=Cls(dec_path,dec_cls)
    L=tuple(z3.Int('L'+ch) for ch in 'xyz'); x=DX(cc,dc,L)
    q=tuple(z3.Int('q%d'%i) for i in range(3)); f=tuple(z3.Int('f%d'%i) for i in range(3))
    signs=Signs()
    fe=dc.methods['flip_edge']; params=[a.arg for a in fe.args.args]
    env={'self':SelfV(),params[1]:T(q),params[2]:signs}
    st={'ret':Undef(),'live':z3.BoolVal(True)}
    x.block(fe.body,env,st)
    # parity of toggles hitting face f
    tog=z3.Sum([z3.If(z3.And(g,eq(loc,T(f))),1,0) for g,loc in signs.toggles])%2==1
    m=x.inline(cc.methods['get_stabilizer'],[T(f)],True)
    ents=[]
    for i,(g,k,v) in enumerate(m.entries):
        e=g
        for gj,kj,vj in m.entries[i+1:]: e=z3.And(e,z3.Not(z3.And(gj,eq(k,kj))))
        ents.append((e,k,v))
    anti=z3.Sum([z3.If(z3.And(g,eq(k,T(q)),z3.Not(eq(v,'Z'))),1,0) for g,k,v in ents])%2==1
    stype=x.inline(cc.methods['stabilizer_type'],[T(f)],True)
    s=z3.Solver(); s.set('timeout',600000)
    s.add(pre(L),x.Q(q),x.S(f),eq(stype,'face'),extra(L,q),tog!=anti)
    t=time.time(); r=s.check()
    msg='%s x %s: %d toggles -> %s %.1fs'%(dec_cls,code_cls,len(signs.toggles),r,time.time()-t)
    if r==z3.sat:
        mo=s.model(); msg+='  cex L=%s edge=%s face=%s toggled=%s anticommutes=%s'%([mo.eval(v,True) for v in L],[mo.eval(v,True) for v in q],[mo.eval(v,True) for v in f],mo.eval(tog,True),mo.eval(anti,True))
    print(msg,flush=True)
b='/repo/panqec/'
ge=lambda k: (lambda L: z3.And([l>=k for l in L]))
if __name__=='__main__':
    w=sys.argv[1]
    if w=='toric': geom(b+'codes/surface_3d/_toric_3d_code.py','Toric3DCode',b+'decoders/sweepmatch/_sweep_decoder_3d.py','SweepDecoder3D',ge(2))
    if w=='planar': geom(b+'codes/surface_3d/_planar_3d_code.py','Planar3DCode',b+'decoders/sweepmatch/_sweep_decoder_3d.py','SweepDecoder3D',ge(1))
    if w=='rplanar': geom(b+'codes/surface_3d/_rotated_planar_3d_code.py','RotatedPlanar3DCode',b+'decoders/sweepmatch/_rotated_sweep_decoder.py','RotatedSweepDecoder3D',ge(1))
    if w=='rtoric': geom(b+'codes/surface_3d/_rotated_toric_3d_code.py','RotatedToric3DCode',b+'decoders/sweepmatch/_rotated_sweep_decoder.py','RotatedSweepDecoder3D',ge(2))
    if w=='rtoric_noseam':  # known-finding predicate conjoined negated: edges away from the periodic seam
        seam=lambda L,q: z3.And(q[0]>1,q[0]<2*L[0]-1,q[1]>1,q[1]<2*L[1]-1, q[0]!=2*L[0], q[1]!=2*L[1])
        geom(b+'codes/surface_3d/_rotated_toric_3d_code.py','RotatedToric3DCode',b+'decoders/sweepmatch/_rotated_sweep_decoder.py','RotatedSweepDecoder3D',ge(2),seam)
