import time
from z3 import *
def rng(v,a,b,s): return And(v>=a, v<b, (v-a)%s==0)
Lx,Ly,Lz=Ints('Lx Ly Lz'); x,y,z=Ints('x y z'); x2,y2,z2=Ints('x2 y2 z2')
# Toric3D logical X_1 = {(x,0,0): x in range(1,2Lx,2)}, Z_1={(1,y,z): y in range(0,2Ly,2), z in range(0,2Lz,2)}
def X1(p): return And(rng(p[0],1,2*Lx,2), p[1]==0, p[2]==0)
def Z1(p): return And(p[0]==1, rng(p[1],0,2*Ly,2), rng(p[2],0,2*Lz,2))
def Z2(p): return And(p[1]==1, rng(p[2],0,2*Lz,2), rng(p[0],0,2*Lx,2))
pre=And(Lx>=2,Ly>=2,Lz>=2)
# uniqueness
s=Solver(); s.add(pre, X1((x,y,z)),Z1((x,y,z)),X1((x2,y2,z2)),Z1((x2,y2,z2)), Or(x!=x2,y!=y2,z!=z2))
t=time.time(); print('unique', s.check(), round(time.time()-t,3))
# existence: forall L exists q  <=> not exists L forall q not in
s=Solver(); s.add(pre, ForAll([x,y,z], Not(And(X1((x,y,z)),Z1((x,y,z))))))
t=time.time(); print('exists (expect unsat)', s.check(), round(time.time()-t,3))
# emptiness X1 ∩ Z2
s=Solver(); s.add(pre, X1((x,y,z)),Z2((x,y,z)))
t=time.time(); print('empty', s.check(), round(time.time()-t,3))
