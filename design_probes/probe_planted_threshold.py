import numpy as np, json, gzip, warnings, os, sys
warnings.filterwarnings('ignore')
from panqec.analysis import Analysis
from panqec.codes import Toric2DCode
p_th,nu,A,B,C_=0.10,1.0,0.30,1.5,2.0
rates=np.round(np.linspace(0.07,0.13,13),6)
N=20000
records=[]
for L in [4,6,8,10]:
    code=Toric2DCode(L,L)
    for p in rates:
        x=(p-p_th)*L**nu
        f=A+B*x+C_*x*x
        nfail=int(round(f*N))
        succ=np.ones(N,dtype=bool); succ[:nfail]=False
        eff=np.zeros((N,4),dtype=int); eff[:nfail,0]=1
        records.append({'inputs':{'code':{'name':'Toric2DCode','parameters':{'L_x':L,'L_y':L,'L_z':None},'n':code.n,'k':code.k,'d':int(code.d)},
          'error_model':{'name':'PauliErrorModel','parameters':{'r_x':1/3,'r_y':1/3,'r_z':1/3,'deformation_name':None,'deformation_kwargs':{}}},
          'decoder':{'name':'MatchingDecoder','parameters':{}},'error_rate':float(p),'method':{'name':'direct','parameters':{}}},
          'results':{'n_runs':N,'wall_time':1.0,'effective_error':eff.tolist(),'success':succ.tolist(),'codespace':[True]*N}})
rng=np.random.default_rng(int(sys.argv[1]) if len(sys.argv)>1 else 0)
rng.shuffle(records)
for i in range(0,len(records),7):
    with gzip.open('res/r%d.json.gz'%i,'wb') as g: g.write(json.dumps(records[i:i+7]).encode())
a=Analysis('res')
t=a.thresholds
print(t[['p_th_fss','p_th_fss_left','p_th_fss_right','fit_status']].to_string())
print('fss_params',t['fss_params'].iloc[0])
