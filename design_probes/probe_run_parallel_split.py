import time
from z3 import *
# P4: run_parallel split. symbolic N tasks T=N*C, inputs I, trials R. per-task function as in the code.
def task(i_task, T, I, R, fixed=False):
    tpi = T / I            # z3 Int div (euclid == floor for positives)
    i_input = i_task / tpi
    i_input = If(i_input >= I, I-1, i_input)
    tpi2 = If(i_input == I-1, tpi + T % I, tpi)
    iti = i_task % tpi2
    iti = If(i_input == I-1, i_task - (T / I)*(I-1), iti)
    n_runs = R / tpi2
    extra = (R % tpi2) if fixed else (R % n_runs)
    n_runs2 = If(iti == tpi2-1, n_runs + extra, n_runs)
    return i_input, tpi2, iti, n_runs, n_runs2
T,I,R,t,j = Ints('T I R t j')
pre = And(I>=1, T>=I, R>=1)
for fixed in (False, True):
    # obligation D: for the last task of an input, n_runs2 == R - (tpi-1)*n_runs
    s=Solver(); s.set('timeout',30000)
    ii,tpi,iti,q,q2 = task(t,T,I,R,fixed)
    s.add(pre, t>=0, t<T, R>=tpi, iti==tpi-1, q2 != R-(tpi-1)*q)
    t0=time.time(); r=s.check(); print('fixed' if fixed else 'orig','D:',r, round(time.time()-t0,2))
    if r==sat: print('  ', s.model())
# lemma B/C: tasks of input j are exactly a contiguous block of size tpi_j and iti is bijection onto [0,tpi)
s=Solver(); s.set('timeout',60000)
ii,tpi,iti,q,q2 = task(t,T,I,R,True)
lo = j*(T/I); hi = If(j==I-1, T, (j+1)*(T/I))
s.add(pre, t>=0,t<T, j>=0, j<I, Not( (ii==j) == And(t>=lo,t<hi) ))
t0=time.time(); print('B:', s.check(), round(time.time()-t0,2))
s=Solver(); s.set('timeout',60000)
s.add(pre, t>=0,t<T, j>=0, j<I, ii==j, Not(And(tpi==hi-lo, iti==t-lo)))
t0=time.time(); print('C:', s.check(), round(time.time()-t0,2))
