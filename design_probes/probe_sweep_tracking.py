import numpy as np, itertools, warnings
warnings.filterwarnings('ignore')
from panqec.codes import Toric3DCode, RotatedToric3DCode
from panqec.error_models import PauliErrorModel
from panqec.decoders import SweepDecoder3D, RotatedSweepDecoder3D
def trace(codecls,size,deccls,errq):
    code=codecls(*size)
    em=PauliErrorModel(0,0,1)
    dec=deccls(code,em,0.1)
    dec.get_default_direction=lambda: int(dec._rng.choice([0,1,2],size=1)[0])
    e=code.to_bsf({q:'Z' for q in errq})
    orig=dec.sweep_move
    step=[0]
    def wrapped(signs,correction,*a):
        before=dict(correction)
        new=orig(signs,correction,*a)
        tot=(e+code.to_bsf(correction))%2
        syn=np.array(code.measure_syndrome(tot)).copy(); syn[code.z_indices]=0
        step[0]+=1
        ok=np.array_equal(syn,new)
        flipped=[k for k in correction if k not in before]
        print(' step',step[0],a,'ok' if ok else 'MISMATCH','n_signs',int(new.sum()),'true',int(syn.sum()),'corr size',len(correction),'newkeys',[tuple(int(v) for v in k) for k in flipped][:6])
        return new
    dec.sweep_move=wrapped
    c=dec.decode(code.measure_syndrome(e))
for q in [(1,0,0),(0,1,0),(0,0,1)]:
    print('Toric3D single Z at',q); trace(Toric3DCode,(3,3,3),SweepDecoder3D,[q])
print('RotatedToric (2,2,3) errors'); trace(RotatedToric3DCode,(2,2,3),RotatedSweepDecoder3D,[(1,1,3),(1,3,1)])
print("Toric3D 4 errors"); trace(Toric3DCode,(3,3,3),SweepDecoder3D,[(1, 0, 4), (5, 0, 4), (4, 5, 0), (4, 5, 2)])
