# Tier-3 feasibility: to_bsf loop invariant with ghost visited set, any code (uninterpreted qidx/coord bijection)
import time
from z3 import *
Loc=DeclareSort('Loc')
qidx=Function('qidx',Loc,IntSort()); coord=Function('coord',IntSort(),Loc)
op=Function('op',Loc,IntSort())   # 0=absent(I) 1=X 2=Y 3=Z
n=Int('n')
V=Function('V',Loc,BoolSort()); V2=Function('V2',Loc,BoolSort())
bsf=Array('bsf',IntSort(),IntSort())
j=Int('j'); l=Const('l',Loc)
bij=And(ForAll([l], Implies(op(l)!=0, And(qidx(l)>=0,qidx(l)<n, coord(qidx(l))==l))),
        ForAll([j], Implies(And(j>=0,j<n), qidx(coord(j))==j)))
def Inv(b,Vf):
    return ForAll([j], Implies(And(j>=0,j<n),
        And(b[j]==If(And(Vf(coord(j)),Or(op(coord(j))==1,op(coord(j))==2)),1,0),
            b[n+j]==If(And(Vf(coord(j)),Or(op(coord(j))==2,op(coord(j))==3)),1,0))))
# step: pick loc not visited, in keys
loc=Const('loc',Loc)
b1=If(Or(op(loc)==1,op(loc)==2), Store(bsf,qidx(loc),bsf[qidx(loc)]+1), bsf)
b2=If(Or(op(loc)==2,op(loc)==3), Store(b1,n+qidx(loc),b1[n+qidx(loc)]+1), b1)
s=Solver(); s.set('timeout',60000)
s.add(n>=0,bij,Inv(bsf,V), op(loc)!=0, Not(V(loc)), ForAll([l], V2(l)==Or(V(l),l==loc)), Not(Inv(b2,V2)))
t=time.time(); print('to_bsf step:', s.check(), round(time.time()-t,2))
# mutated body: second store at qidx(loc) instead of n+qidx(loc)
b2m=If(Or(op(loc)==2,op(loc)==3), Store(b1,qidx(loc),b1[qidx(loc)]+1), b1)
s=Solver(); s.set('timeout',60000)
s.add(n>=0,bij,Inv(bsf,V), op(loc)!=0, Not(V(loc)), ForAll([l], V2(l)==Or(V(l),l==loc)), Not(Inv(b2m,V2)))
t=time.time(); print('mutated step:', s.check(), round(time.time()-t,2))
