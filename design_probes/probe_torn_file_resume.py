import json, os, sys, warnings, gzip
warnings.filterwarnings('ignore')
from panqec.simulation import read_input_dict
spec={'ranges':{'label':'t','code':{'name':'Toric2DCode','parameters':[{'L_x':2,'L_y':2}]},
 'error_model':{'name':'PauliErrorModel','parameters':{'r_x':1/3,'r_y':1/3,'r_z':1/3}},
 'decoder':{'name':'MatchingDecoder','parameters':{}},'error_rate':[0.1,0.2]}}
for out in ['out.json','out.json.gz']:
    b=read_input_dict(spec,out,verbose=False); b.run(6)
    raw=open(out,'rb').read()
    open(out,'wb').write(raw[:len(raw)//2])      # torn file as left by a kill inside the write
    b2=read_input_dict(spec,out,verbose=False)
    try:
        b2.run(8)
        print(out,'restart ok; n_runs',[s.n_results for s in b2], 'lens',[len(s.results['success']) for s in b2])
    except BaseException as e:
        print(out,'restart RAISED',type(e).__name__,e)
