import sys,time,z3,traceback
sys.path.insert(0,'/verif/design_probes')
from sx import *
def paulis(v): return {p: z3.Or([c for c,s in v.alts if s==p]+[z3.BoolVal(False)]) for p in 'XYZ'}
def eff(m):
    out=[]
    for i,(g,k,v) in enumerate(m.entries):
        e=g
        for gj,kj,vj in m.entries[i+1:]:
            if len(kj.items)==len(k.items): e=z3.And(e,z3.Not(z3.And(gj,eq(k,kj))))
        out.append((e,k,v))
    return out
def anti(v1,v2):
    p1,p2=paulis(v1),paulis(v2)
    return z3.Or([z3.And(p1[a],p2[b]) for a in 'XYZ' for b in 'XYZ' if a!=b])
def comm(path,cls,pre,arities=(None,)):
    c=Cls(path,cls); dim=c.attr_dimension
    L=tuple(z3.Int('L'+ch) for ch in 'xyz'[:dim]); x=X(c,L)
    res=[]
    ars=[dim] if arities==(None,) else arities
    t0=time.time()
    for ra in ars:
        for rb in ars:
            if rb<ra: continue
            a=tuple(z3.Int('a%d'%i) for i in range(ra)); b=tuple(z3.Int('b%d'%i) for i in range(rb))
            ma=x.inline(c.methods['get_stabilizer'],[T(a)],True); mb=x.inline(c.methods['get_stabilizer'],[T(b)],True)
            ea,eb=eff(ma),eff(mb)
            cnt=z3.Sum([z3.If(z3.And(g1,g2,eq(k1,k2),anti(v1,v2)),1,0) for g1,k1,v1 in ea for g2,k2,v2 in eb])
            s=z3.Solver(); s.set('timeout',300000)
            s.add(pre(L),x.S(a),x.S(b),cnt%2!=0)
            t=time.time(); r=s.check()
            msg='%s arity(%d,%d) entries %dx%d -> %s %.1fs'%(cls,ra,rb,len(ea),len(eb),r,time.time()-t)
            if r==z3.sat:
                m=s.model(); msg+='  cex L=%s a=%s b=%s'%([m.eval(v,True) for v in L],[m.eval(v,True) for v in a],[m.eval(v,True) for v in b])
            print(msg,flush=True)
    print(cls,'total %.1fs'%(time.time()-t0),flush=True)
base='/repo/panqec/codes/'
ge=lambda k: (lambda L: z3.And([l>=k for l in L]))
even=lambda L: z3.And([z3.And(l>=2,l%2==0) for l in L])
jobs={
 'Toric3DCode':(base+'surface_3d/_toric_3d_code.py',ge(2),(None,)),
 'Planar3DCode':(base+'surface_3d/_planar_3d_code.py',ge(1),(None,)),
 'RotatedPlanar3DCode':(base+'surface_3d/_rotated_planar_3d_code.py',ge(1),(None,)),
 'HollowPlanar3DCode':(base+'surface_3d/_hollow_planar_3d_code.py',ge(1),(None,)),
 'RotatedToric3DCode':(base+'surface_3d/_rotated_toric_3d_code.py',ge(2),(None,)),
 'XCubeCode':(base+'fractons/_xcube_code.py',ge(2),(3,4)),
 'RhombicToricCode':(base+'surface_3d/_rhombic_toric_code.py',even,(3,4)),
 'RhombicPlanarCode':(base+'surface_3d/_rhombic_planar_code.py',ge(2),(3,4)),
 'Color488Code':(base+'color_2d/_color_488_code.py',lambda L: z3.And(L[0]>=1,L[0]==L[1]),(3,)),
}
if __name__=='__main__':
    which=sys.argv[1:] or list(jobs)
    for k in which:
        try: comm(jobs[k][0],k,jobs[k][1],jobs[k][2])
        except Unsupported as e: print(k,'UNSUPPORTED',e,flush=True)
        except Exception as e: print(k,'ERROR',repr(e)[:200]); traceback.print_exc()
