"""Scratch prototype v2 (NOT framework): state-merging symbolic executor for lattice classes."""
import ast, z3, itertools, numpy as np
class Unsupported(Exception): pass
class T:   # tuple/list/vector of values
    def __init__(s, items, kind='tuple'): s.items=list(items); s.kind=kind
class E:   # enum (symbolic string): list of (cond, str)
    def __init__(s, alts): s.alts=[(c,v) for c,v in alts]
    @staticmethod
    def const(v): return E([(z3.BoolVal(True),v)])
class M:   # finite map: entries (guard, key T, val E)
    def __init__(s, entries=None): s.entries=list(entries or [])
class R:
    def __init__(s,a,b,st): s.a,s.b,s.st=a,b,st
class D:   # dict literal with const keys
    def __init__(s,kv): s.kv=kv
class SelfV: pass
class Undef: pass
def Z(v):
    if isinstance(v,bool): return z3.BoolVal(v)
    if isinstance(v,(int,np.integer)): return z3.IntVal(int(v))
    return v
def B(v):
    if isinstance(v,bool): return z3.BoolVal(v)
    if isinstance(v,z3.BoolRef): return v
    if isinstance(v,(int,np.integer)): return z3.BoolVal(v!=0)
    if isinstance(v,z3.ArithRef): return v!=0
    raise Unsupported('truth %r'%type(v))
def ite(c,a,b):
    """merge two values under condition c"""
    if a is b: return a
    if isinstance(a,Undef): return b
    if isinstance(b,Undef): return a
    if isinstance(a,T) and isinstance(b,T):
        if len(a.items)!=len(b.items): return ('shape',c,a,b)
        return T([ite(c,x,y) for x,y in zip(a.items,b.items)],a.kind)
    if isinstance(a,E) and isinstance(b,E):
        return E([(z3.And(c,k),v) for k,v in a.alts]+[(z3.And(z3.Not(c),k),v) for k,v in b.alts])
    if isinstance(a,M) and isinstance(b,M):
        # common prefix + guarded tails
        n=0
        while n<len(a.entries) and n<len(b.entries) and a.entries[n] is b.entries[n]: n+=1
        return M(a.entries[:n]+[(z3.And(c,g),k,v) for g,k,v in a.entries[n:]]+[(z3.And(z3.Not(c),g),k,v) for g,k,v in b.entries[n:]])
    if isinstance(a,(bool,z3.BoolRef)) and isinstance(b,(bool,z3.BoolRef)): return z3.If(c,B(a),B(b))
    if isinstance(a,(int,np.integer,z3.ArithRef)) and isinstance(b,(int,np.integer,z3.ArithRef)): return z3.If(c,Z(a),Z(b))
    if isinstance(a,tuple) and a and a[0]=='shape': return ('shape',c,a,b)
    raise Unsupported('ite %s %s'%(type(a),type(b)))
def eq(a,b):
    if isinstance(a,T) and isinstance(b,T):
        if len(a.items)!=len(b.items): return z3.BoolVal(False)
        return z3.And([eq(x,y) for x,y in zip(a.items,b.items)])
    if isinstance(a,E) or isinstance(b,E):
        if isinstance(a,str): a=E.const(a)
        if isinstance(b,str): b=E.const(b)
        return z3.Or([z3.And(c1,c2) for c1,v1 in a.alts for c2,v2 in b.alts if v1==v2]+[z3.BoolVal(False)])
    return Z(a)==Z(b)

class Cls:
    def __init__(self,path,name):
        tree=ast.parse(open(path).read()); self.methods={}; self.funcs={}
        for n in tree.body:
            if isinstance(n,ast.FunctionDef): self.funcs[n.name]=n
            if isinstance(n,ast.ClassDef) and n.name==name:
                for m in n.body:
                    if isinstance(m,ast.FunctionDef): self.methods[m.name]=m
                    if isinstance(m,ast.Assign) and isinstance(m.targets[0],ast.Name): 
                        try: setattr(self,'attr_'+m.targets[0].id, ast.literal_eval(m.value))
                        except Exception: pass
BASE_ATTRS={'X_AXIS':0,'Y_AXIS':1,'Z_AXIS':2}

class X:
    def __init__(self,cls,L): self.c=cls; self.L=L; self._Q=None; self._S=None
    # ---------- builder rule ----------
    def member(self,fname,t):
        f=self.c.methods[fname]; alts=[]; bound=[]
        self._build(f.body,{'self':SelfV()},[],alts,t,bound)
        outs=[]
        for conds,eqs in alts:
            body=z3.And(conds+eqs)
            outs.append(z3.Exists(bound,body) if bound else body)
        g=z3.Or(outs) if outs else z3.BoolVal(False)
        return z3.simplify(z3.Tactic('qe')(g).as_expr())
    def _build(self,body,env,conds,alts,t,bound):
        env=dict(env)
        for st in body:
            if isinstance(st,ast.Expr) and isinstance(st.value,ast.Constant): continue
            if isinstance(st,(ast.Assign,ast.AnnAssign)):
                tgt=st.targets[0] if isinstance(st,ast.Assign) else st.target
                if isinstance(st.value,ast.List) and not st.value.elts: continue
                self.assign(tgt,self.ev(st.value,env),env,z3.BoolVal(True)); continue
            if isinstance(st,ast.For):
                it=self.ev(st.iter,env)
                if isinstance(it,R): names=[st.target]; rs=[it]
                elif isinstance(it,tuple) and it[0]=='product': names=st.target.elts; rs=it[1]
                else: raise Unsupported('builder iter')
                env2=dict(env); cs=list(conds)
                for nm,r in zip(names,rs):
                    v=z3.FreshInt(nm.id); env2[nm.id]=v; bound.append(v)
                    cs+=[v>=Z(r.a),v<Z(r.b),(v-Z(r.a))%r.st==0]
                self._build(st.body,env2,cs,alts,t,bound); continue
            if isinstance(st,ast.If):
                c=B(self.ev(st.test,env))
                self._build(st.body,env,conds+[c],alts,t,bound); self._build(st.orelse,env,conds+[z3.Not(c)],alts,t,bound); continue
            if isinstance(st,ast.Expr) and isinstance(st.value,ast.Call) and getattr(st.value.func,'attr','')=='append':
                el=self.ev(st.value.args[0],env)
                if len(el.items)==len(t): alts.append((conds,[Z(a)==b for a,b in zip(el.items,t)]))
                continue
            if isinstance(st,ast.Return): continue
            raise Unsupported('builder stmt '+type(st).__name__)
    def Q(self,t): 
        t=tuple(Z(x) for x in t)
        if self._Q is None or len(self._Q[0])!=len(t):
            vs=tuple(z3.Int('q%d'%i) for i in range(len(t))); self._Q=(vs,self.member('get_qubit_coordinates',vs))
        return z3.substitute(self._Q[1],*zip(self._Q[0],t))
    def S(self,t):
        t=tuple(Z(x) for x in t)
        key=len(t)
        if self._S is None: self._S={}
        if key not in self._S:
            vs=tuple(z3.Int('s%d_%d'%(key,i)) for i in range(key)); self._S[key]=(vs,self.member('get_stabilizer_coordinates',vs))
        return z3.substitute(self._S[key][1],*zip(self._S[key][0],t))
    # ---------- expressions ----------
    def ev(self,e,env):
        if isinstance(e,ast.Constant):
            return E.const(e.value) if isinstance(e.value,str) else e.value
        if isinstance(e,ast.Name):
            if e.id in env: return env[e.id]
            raise Unsupported('name '+e.id)
        if isinstance(e,ast.Tuple): return T([self.ev(x,env) for x in e.elts])
        if isinstance(e,ast.List): return T([self.ev(x,env) for x in e.elts],'list')
        if isinstance(e,ast.Dict): return D({k.value:self.ev(v,env) for k,v in zip(e.keys,e.values)})
        if isinstance(e,ast.UnaryOp):
            v=self.ev(e.operand,env)
            return -v if isinstance(e.op,ast.USub) else z3.Not(B(v))
        if isinstance(e,ast.BinOp): return self.bin(e.op,self.ev(e.left,env),self.ev(e.right,env))
        if isinstance(e,ast.BoolOp):
            vs=[B(self.ev(x,env)) for x in e.values]; return z3.And(vs) if isinstance(e.op,ast.And) else z3.Or(vs)
        if isinstance(e,ast.IfExp):
            return ite(B(self.ev(e.test,env)),self.ev(e.body,env),self.ev(e.orelse,env))
        if isinstance(e,ast.Compare):
            l=self.ev(e.left,env); out=[]
            for op,r in zip(e.ops,e.comparators):
                rv=self.ev(r,env); out.append(self.cmp(op,l,rv)); l=rv
            return out[0] if len(out)==1 else z3.And([B(o) for o in out])
        if isinstance(e,ast.Attribute):
            b=self.ev(e.value,env)
            if isinstance(b,SelfV):
                if e.attr=='size': return T(self.L)
                if e.attr in BASE_ATTRS: return BASE_ATTRS[e.attr]
            raise Unsupported('attr '+e.attr)
        if isinstance(e,ast.Subscript):
            b=self.ev(e.value,env); i=self.ev(e.slice,env)
            if isinstance(b,T):
                if isinstance(i,(int,np.integer)): return b.items[int(i)]
                # symbolic index into literal list
                r=b.items[-1]
                for k in range(len(b.items)-2,-1,-1): r=ite(Z(i)==k,b.items[k],r)
                return r
            if isinstance(b,D) and not isinstance(i,E):
                ks=list(b.kv); r=b.kv[ks[-1]]
                for k in ks[-2::-1]: r=ite(Z(i)==k,b.kv[k],r)
                return r
            if isinstance(b,D):
                if isinstance(i,E):
                    r=None
                    for c,v in i.alts:
                        if v not in b.kv: continue
                        r=b.kv[v] if r is None else ite(c,b.kv[v],r)
                    return r
            raise Unsupported('subscript')
        if isinstance(e,ast.Call): return self.call(e,env)
        raise Unsupported('expr '+type(e).__name__)
    def bin(self,op,a,b):
        if isinstance(a,T) or isinstance(b,T):
            if not isinstance(a,T): a=T([a]*len(b.items))
            if not isinstance(b,T): b=T([b]*len(a.items))
            return T([self.bin(op,x,y) for x,y in zip(a.items,b.items)],'vec')
        if isinstance(op,ast.Add):
            if isinstance(a,E) and isinstance(b,E): return E([(z3.And(c1,c2),x+y) for c1,x in a.alts for c2,y in b.alts])
            return a+b
        if isinstance(op,ast.Sub): return a-b
        if isinstance(op,ast.Mult): return a*b
        if isinstance(op,ast.Mod): return (a%b) if isinstance(a,(int,np.integer)) and isinstance(b,(int,np.integer)) else Z(a)%Z(b)
        if isinstance(op,ast.FloorDiv): return (a//b) if isinstance(a,(int,np.integer)) and isinstance(b,(int,np.integer)) else Z(a)/Z(b)
        raise Unsupported('binop')
    def cmp(self,op,a,b):
        if isinstance(op,(ast.In,ast.NotIn)):
            if isinstance(b,E) and isinstance(a,E):
                r=z3.Or([z3.And(c1,c2) for c1,x in a.alts for c2,y in b.alts if x in y]+[z3.BoolVal(False)])
            elif isinstance(b,T): r=z3.Or([B(eq(a,x)) for x in b.items])
            else: raise Unsupported('in')
            return r if isinstance(op,ast.In) else z3.Not(r)
        if isinstance(a,(E,T,str)) or isinstance(b,(E,T,str)):
            r=eq(a,b); return r if isinstance(op,ast.Eq) else z3.Not(r)
        if isinstance(a,(bool,z3.BoolRef)) and isinstance(b,(bool,z3.BoolRef)):
            r=B(a)==B(b); return r if isinstance(op,ast.Eq) else z3.Not(r)
        a=Z(a); b=Z(b)
        return {ast.Eq:lambda:a==b,ast.NotEq:lambda:a!=b,ast.Lt:lambda:a<b,ast.LtE:lambda:a<=b,ast.Gt:lambda:a>b,ast.GtE:lambda:a>=b}[type(op)]()
    def call(self,e,env):
        f=e.func
        if any(isinstance(a,ast.Starred) for a in e.args):
            if isinstance(f,ast.Attribute) and f.attr=='product':
                return ('product', self.ev(e.args[0].value,env).items)
            raise Unsupported('starred')
        args=[self.ev(a,env) for a in e.args]
        if isinstance(f,ast.Name):
            if f.id=='range':
                a,b,st=(0,args[0],1) if len(args)==1 else (args[0],args[1],1) if len(args)==2 else args
                return R(a,b,st)
            if f.id=='tuple': return T(args[0].items)
            if f.id=='dict': return M()
            if f.id=='len': return len(args[0].items)
            if f.id=='int': return args[0]
            if f.id in self.c.funcs: return self.inline(self.c.funcs[f.id],args,False)
            raise Unsupported('call '+f.id)
        if isinstance(f,ast.Attribute):
            if isinstance(f.value,ast.Name) and f.value.id=='np':
                if f.attr in('add',): return self.bin(ast.Add(),args[0],args[1])
                if f.attr=='array': return T(args[0].items,'vec')
                if f.attr=='mod': return self.bin(ast.Mod(),args[0],args[1])
            b=self.ev(f.value,env)
            if isinstance(b,SelfV):
                if f.attr=='is_qubit': return self.Q(args[0].items)
                if f.attr=='is_stabilizer': return self.S(args[0].items)
                if f.attr in self.c.methods: return self.inline(self.c.methods[f.attr],args,True)
            raise Unsupported('method '+f.attr)
        raise Unsupported('call')
    def assign(self,tgt,val,env,g):
        if isinstance(tgt,ast.Name): env[tgt.id]=val
        elif isinstance(tgt,ast.Tuple):
            for t,v in zip(tgt.elts,val.items): self.assign(t,v,env,g)
        elif isinstance(tgt,ast.Subscript):
            base=self.ev(tgt.value,env); key=self.ev(tgt.slice,env)
            if isinstance(base,M):
                if isinstance(val,str): val=E.const(val)
                env[tgt.value.id]=M(base.entries+[(g,key,val)]); return
            raise Unsupported('subscript assign')
        else: raise Unsupported('assign')
    # ---------- statements (state merging) ----------
    def inline(self,f,args,method):
        params=[a.arg for a in f.args.args]; env={'self':SelfV()} if method else {}
        defaults=f.args.defaults
        for p,a in zip(params[1 if method else 0:],args): env[p]=a
        st={'ret':Undef(),'live':z3.BoolVal(True)}
        self.block(f.body,env,st)
        return st['ret']
    def block(self,body,env,st):
        for s in body:
            if isinstance(s,ast.Expr) and isinstance(s.value,ast.Constant): continue
            live=st['live']
            if isinstance(s,(ast.Assign,ast.AnnAssign)):
                tgt=s.targets[0] if isinstance(s,ast.Assign) else s.target
                self.assign(tgt,self.ev(s.value,env),env,live)
            elif isinstance(s,ast.AugAssign):
                cur=self.ev(s.target,env); v=self.ev(s.value,env)
                if isinstance(cur,E) and isinstance(v,E):
                    new=E([(z3.And(c1,c2),a+b) for c1,a in cur.alts for c2,b in v.alts])
                else: new=self.bin(s.op,cur,v)
                self.assign(s.target,new,env,live)
            elif isinstance(s,ast.Return):
                v=self.ev(s.value,env)
                st['ret']=v if isinstance(st['ret'],Undef) else ite(live,v,st['ret'])
                st['live']=z3.BoolVal(False)
            elif isinstance(s,ast.Raise):
                st['live']=z3.BoolVal(False)      # excluded by precondition (checked separately)
            elif isinstance(s,ast.If):
                c=B(self.ev(s.test,env)); c=z3.simplify(c)
                if z3.is_true(c): self.block(s.body,env,st); continue
                if z3.is_false(c): self.block(s.orelse,env,st); continue
                e1=dict(env); e2=dict(env)
                s1={'ret':st['ret'],'live':z3.And(live,c)}; s2={'ret':st['ret'],'live':z3.And(live,z3.Not(c))}
                self.block(s.body,e1,s1); self.block(s.orelse,e2,s2)
                for k in set(e1)|set(e2):
                    a=e1.get(k,Undef()); b=e2.get(k,Undef())
                    env[k]=a if a is b else ite(c,a,b)
                r1,r2=s1['ret'],s2['ret']
                st['ret']=r1 if r1 is r2 else ite(c,r1,r2)
                st['live']=z3.simplify(z3.Or(s1['live'],s2['live']))
            elif isinstance(s,ast.For):
                it=self.ev(s.iter,env)
                def alts(v,cond):
                    if isinstance(v,T): return [(cond,v)]
                    if isinstance(v,tuple) and v[0]=='shape': return alts(v[2],z3.And(cond,v[1]))+alts(v[3],z3.And(cond,z3.Not(v[1])))
                    if isinstance(v,Undef): return []
                    raise Unsupported('for over '+type(v).__name__)
                outer=st['live']
                for cond,lst in alts(it,z3.BoolVal(True)):
                    st['live']=z3.And(outer,cond)
                    for item in lst.items:
                        self.assign(s.target,item,env,st['live']); self.block(s.body,env,st)
                st['live']=outer
            else: raise Unsupported('stmt '+type(s).__name__)
