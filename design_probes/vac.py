import sys; sys.path.insert(0,'/verif/design_probes')
exec(open('/verif/design_probes/run2.py').read().split("if __name__")[0])
for k,(path,pre,ars) in jobs.items():
    c=Cls(path,k); dim=c.attr_dimension; L=tuple(z3.Int('L'+ch) for ch in 'xyz'[:dim]); x=X(c,L)
    for ar in ([dim] if ars==(None,) else ars):
        a=tuple(z3.Int('a%d'%i) for i in range(ar))
        s=z3.Solver(); s.add(pre(L),x.S(a))
        r=s.check()
        # count entries that can be effective (cover): some entry guard satisfiable
        m=x.inline(c.methods['get_stabilizer'],[T(a)],True)
        sat_entries=0
        for g,kk,v in m.entries:
            s2=z3.Solver(); s2.add(pre(L),x.S(a),g)
            sat_entries+= (s2.check()==z3.sat)
        print(k,'arity',ar,'S cover:',r,'entries reachable %d/%d'%(sat_entries,len(m.entries)))
