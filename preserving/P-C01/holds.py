import os, sys; sys.path.insert(0, os.getcwd())
"""C01: every library code is a valid [[n,k]] stabilizer code.

(a) direct check of the property on many (class, size, deformation, axis)
(b) digest of concrete outputs of the changed functions.

Exit 1 (with a message) if the property fails anywhere in the tested set.
"""
import hashlib
import itertools
import numpy as np

import panqec.codes as pc

PROBE = os.environ.get('C01_PROBE') == '1'


# ---------------------------------------------------------------- GF(2) tools
def gf2_rank(M):
    M = (np.array(M, dtype=np.uint8) % 2).astype(bool)
    rows, cols = M.shape
    r = 0
    for c in range(cols):
        if r >= rows:
            break
        piv = np.nonzero(M[r:, c])[0]
        if piv.size == 0:
            continue
        p = r + piv[0]
        if p != r:
            M[[r, p]] = M[[p, r]]
        mask = M[:, c].copy()
        mask[r] = False
        M[mask] ^= M[r]
        r += 1
    return r


def symp(A, B, n):
    """Symplectic product matrix of rows of A with rows of B (mod 2)."""
    A = np.asarray(A, dtype=np.int64) % 2
    B = np.asarray(B, dtype=np.int64) % 2
    return (A[:, :n] @ B[:, n:].T + A[:, n:] @ B[:, :n].T) % 2


def check_code(code, tag):
    """Return list of violation strings (empty = property holds)."""
    bad = []
    n = code.n
    H = np.asarray(code.stabilizer_matrix.toarray(), dtype=np.int64) % 2
    LX = np.asarray(code.logicals_x, dtype=np.int64) % 2
    LZ = np.asarray(code.logicals_z, dtype=np.int64) % 2
    if H.shape != (code.n_stabilizers, 2*n):
        bad.append(f'{tag}: stabilizer matrix shape {H.shape}')
    if LX.shape != LZ.shape or LX.shape[1] != 2*n:
        bad.append(f'{tag}: logical shapes {LX.shape} {LZ.shape}')
        return bad
    k = LX.shape[0]
    if k != code.k:
        bad.append(f'{tag}: k mismatch')
    if k < 1:
        bad.append(f'{tag}: k<1')
    if np.any(symp(H, H, n)):
        bad.append(f'{tag}: stabilizers do not commute')
    if np.any(symp(H, LX, n)):
        bad.append(f'{tag}: logical X anticommutes with a stabilizer')
    if np.any(symp(H, LZ, n)):
        bad.append(f'{tag}: logical Z anticommutes with a stabilizer')
    if not np.array_equal(symp(LX, LZ, n), np.eye(k, dtype=np.int64)):
        bad.append(f'{tag}: X_i/Z_j commutation is not delta_ij')
    if np.any(symp(LX, LX, n)):
        bad.append(f'{tag}: X logicals do not commute with each other')
    if np.any(symp(LZ, LZ, n)):
        bad.append(f'{tag}: Z logicals do not commute with each other')
    r = gf2_rank(H)
    if r != n - k:
        bad.append(f'{tag}: rank {r} != n-k = {n}-{k}')
    # independence of logicals from the stabilizer group (implied, but
    # checked directly too)
    if gf2_rank(np.vstack([H, LX, LZ])) != r + 2*k:
        bad.append(f'{tag}: logicals not independent of stabilizer group')
    # the dictionary view must agree with the matrices
    for i, loc in enumerate(code.stabilizer_coordinates):
        if code.stabilizer_index[loc] != i:
            bad.append(f'{tag}: stabilizer_index inconsistent')
            break
    for i, loc in enumerate(code.qubit_coordinates):
        if code.qubit_index[loc] != i:
            bad.append(f'{tag}: qubit_index inconsistent')
            break
    if len(set(code.qubit_coordinates)) != n:
        bad.append(f'{tag}: duplicate qubit coordinates')
    if len(set(code.stabilizer_coordinates)) != code.n_stabilizers:
        bad.append(f'{tag}: duplicate stabilizer coordinates')
    # rows of the matrix are the get_stabilizer operators
    idx = list(range(code.n_stabilizers))
    for i in idx[:: max(1, len(idx)//7)]:
        op = code.get_stabilizer(code.stabilizer_coordinates[i])
        if not np.array_equal(np.asarray(code.to_bsf(op)) % 2, H[i]):
            bad.append(f'{tag}: matrix row {i} != get_stabilizer')
            break
    return bad


# ---------------------------------------------------------------- inputs
SIZES_2D = [(2, 2), (3, 3), (4, 4), (2, 3), (3, 2), (2, 4), (4, 2), (3, 4),
            (4, 3), (3, 5), (5, 3), (4, 6), (6, 4), (5, 5), (6, 6), (2, 6),
            (6, 2)]
SIZES_3D = [(2, 2, 2), (3, 3, 3), (4, 4, 4), (2, 3, 4), (4, 3, 2), (3, 2, 4),
            (2, 4, 3), (3, 4, 2), (4, 2, 3), (2, 2, 4), (4, 2, 2), (2, 4, 2),
            (3, 3, 2), (2, 3, 3), (3, 2, 3), (4, 4, 2), (2, 4, 4), (4, 2, 4),
            (3, 4, 5), (5, 4, 3), (4, 5, 3), (6, 4, 2), (2, 4, 6), (4, 6, 2)]

CLASSES = [
    'Toric2DCode', 'Planar2DCode', 'RotatedPlanar2DCode',
    'Color666PlanarCode', 'Color666ToricCode', 'Color488Code',
    'Toric3DCode', 'Planar3DCode', 'RotatedPlanar3DCode',
    'HollowPlanar3DCode', 'RhombicToricCode', 'RhombicPlanarCode',
    'HollowRhombicCode', 'RotatedToric3DCode', 'XCubeCode', 'Color3DCode',
]

# (class, size) combinations on which the property is checked.  The list was
# fixed by probing the UNMODIFIED tree (C01_PROBE=1): sizes outside a class's
# supported family (constructor errors / degenerate lattices) are not listed.
SUPPORTED = None  # filled below


def variants(cls):
    """(deformation_name, kwargs) offered by the class, None = undeformed."""
    out = [(None, {})]
    dim = cls.dimension
    axes = ['x', 'y'] if dim == 2 else ['x', 'y', 'z']
    for name in cls.deformation_names:
        out.append((name, {}))
        for ax in axes:
            out.append((name, {'deformation_axis': ax}))
    return out


def build(cls, size, name, kwargs):
    code = cls(*size)
    if name is not None:
        code.deform(name, **kwargs)
    return code


def run_checks(table):
    failures = []
    n_checked = 0
    for cname, sizes in table.items():
        cls = getattr(pc, cname)
        for size in sizes:
            for name, kwargs in variants(cls):
                tag = f'{cname}{size} deform={name} {kwargs}'
                code = build(cls, size, name, kwargs)
                failures += check_code(code, tag)
                n_checked += 1
                if name is not None and size == sizes[0]:
                    # repeated use of the same object: deform again, and
                    # then with another deformation; still a valid code
                    code.deform(name, **kwargs)
                    failures += check_code(code, tag + ' (re-deformed)')
                    other = cls.deformation_names[-1]
                    code.deform(other)
                    failures += check_code(code, tag + f' (then {other})')
                    n_checked += 2
    return n_checked, failures


def probe():
    table = {}
    for cname in CLASSES:
        cls = getattr(pc, cname)
        sizes = SIZES_2D if cls.dimension == 2 else SIZES_3D
        ok = []
        for size in sizes:
            try:
                code = cls(*size)
                if code.n > 700:
                    continue
                bad = []
                for name, kwargs in variants(cls):
                    bad += check_code(build(cls, size, name, kwargs), 'p')
                if not bad:
                    ok.append(size)
                else:
                    print('PROBE-FAIL', cname, size, bad[0], file=sys.stderr)
            except Exception as e:  # noqa
                print('PROBE-EXC', cname, size, repr(e)[:100],
                      file=sys.stderr)
        table[cname] = ok
        print(f"    {cname!r}: {ok},")
    return table


SUPPORTED = {
    'Toric2DCode': [(2, 2), (3, 3), (4, 4), (2, 3), (3, 2), (2, 4), (4, 2), (3, 4), (4, 3), (3, 5), (5, 3), (4, 6), (6, 4), (5, 5), (6, 6), (2, 6), (6, 2)],
    'Planar2DCode': [(2, 2), (3, 3), (4, 4), (2, 3), (3, 2), (2, 4), (4, 2), (3, 4), (4, 3), (3, 5), (5, 3), (4, 6), (6, 4), (5, 5), (6, 6), (2, 6), (6, 2)],
    'RotatedPlanar2DCode': [(2, 2), (3, 3), (4, 4), (2, 3), (3, 2), (2, 4), (4, 2), (3, 4), (4, 3), (3, 5), (5, 3), (4, 6), (6, 4), (5, 5), (6, 6), (2, 6), (6, 2)],
    'Color666PlanarCode': [(2, 2), (3, 3), (4, 4), (2, 3), (3, 2), (2, 4), (4, 2), (3, 4), (4, 3), (3, 5), (5, 3), (4, 6), (6, 4), (5, 5), (6, 6), (2, 6), (6, 2)],
    'Color666ToricCode': [(2, 2), (3, 3), (4, 4), (5, 5), (6, 6)],
    'Color488Code': [(2, 2), (3, 3), (4, 4), (5, 5), (6, 6)],
    'Toric3DCode': [(2, 2, 2), (3, 3, 3), (4, 4, 4), (2, 3, 4), (4, 3, 2), (3, 2, 4), (2, 4, 3), (3, 4, 2), (4, 2, 3), (2, 2, 4), (4, 2, 2), (2, 4, 2), (3, 3, 2), (2, 3, 3), (3, 2, 3), (4, 4, 2), (2, 4, 4), (4, 2, 4), (3, 4, 5), (5, 4, 3), (4, 5, 3), (6, 4, 2), (2, 4, 6), (4, 6, 2)],
    'Planar3DCode': [(2, 2, 2), (3, 3, 3), (4, 4, 4), (2, 3, 4), (4, 3, 2), (3, 2, 4), (2, 4, 3), (3, 4, 2), (4, 2, 3), (2, 2, 4), (4, 2, 2), (2, 4, 2), (3, 3, 2), (2, 3, 3), (3, 2, 3), (4, 4, 2), (2, 4, 4), (4, 2, 4), (3, 4, 5), (5, 4, 3), (4, 5, 3), (6, 4, 2), (2, 4, 6), (4, 6, 2)],
    'RotatedPlanar3DCode': [(2, 2, 2), (3, 3, 3), (4, 4, 4), (2, 3, 4), (4, 3, 2), (3, 2, 4), (2, 4, 3), (3, 4, 2), (4, 2, 3), (2, 2, 4), (4, 2, 2), (2, 4, 2), (3, 3, 2), (2, 3, 3), (3, 2, 3), (4, 4, 2), (2, 4, 4), (4, 2, 4), (3, 4, 5), (5, 4, 3), (4, 5, 3), (6, 4, 2), (2, 4, 6), (4, 6, 2)],
    'HollowPlanar3DCode': [(2, 2, 2), (3, 3, 3), (4, 4, 4), (2, 3, 4), (4, 3, 2), (3, 2, 4), (2, 4, 3), (3, 4, 2), (4, 2, 3), (2, 2, 4), (4, 2, 2), (2, 4, 2), (3, 3, 2), (2, 3, 3), (3, 2, 3), (4, 4, 2), (2, 4, 4), (4, 2, 4), (3, 4, 5), (5, 4, 3), (4, 5, 3), (6, 4, 2), (2, 4, 6), (4, 6, 2)],
    'RhombicToricCode': [(2, 2, 2), (4, 4, 4), (2, 2, 4), (4, 2, 2), (2, 4, 2), (4, 4, 2), (2, 4, 4), (4, 2, 4), (6, 4, 2), (2, 4, 6), (4, 6, 2)],
    'RhombicPlanarCode': [(2, 2, 2), (3, 3, 3), (4, 4, 4), (2, 3, 4), (4, 3, 2), (3, 2, 4), (2, 4, 3), (3, 4, 2), (4, 2, 3), (2, 2, 4), (4, 2, 2), (2, 4, 2), (3, 3, 2), (2, 3, 3), (3, 2, 3), (4, 4, 2), (2, 4, 4), (4, 2, 4), (3, 4, 5), (5, 4, 3), (4, 5, 3), (6, 4, 2), (2, 4, 6), (4, 6, 2)],
    'HollowRhombicCode': [(3, 3, 3), (4, 4, 4), (2, 3, 4), (3, 2, 4), (2, 4, 3), (4, 2, 3), (2, 2, 4), (2, 3, 3), (3, 2, 3), (2, 4, 4), (4, 2, 4), (3, 4, 5), (5, 4, 3), (4, 5, 3), (2, 4, 6)],
    'RotatedToric3DCode': [(2, 2, 2), (4, 4, 4), (2, 3, 4), (4, 3, 2), (3, 2, 4), (2, 4, 3), (3, 4, 2), (4, 2, 3), (2, 2, 4), (4, 2, 2), (2, 4, 2), (2, 3, 3), (3, 2, 3), (4, 4, 2), (2, 4, 4), (4, 2, 4), (3, 4, 5), (5, 4, 3), (4, 5, 3), (6, 4, 2), (2, 4, 6), (4, 6, 2)],
    'XCubeCode': [(2, 2, 2), (3, 3, 3), (4, 4, 4), (2, 3, 4), (4, 3, 2), (3, 2, 4), (2, 4, 3), (3, 4, 2), (4, 2, 3), (2, 2, 4), (4, 2, 2), (2, 4, 2), (3, 3, 2), (2, 3, 3), (3, 2, 3), (4, 4, 2), (2, 4, 4), (4, 2, 4), (3, 4, 5), (5, 4, 3), (4, 5, 3), (6, 4, 2), (2, 4, 6), (4, 6, 2)],
    'Color3DCode': [(2, 2, 2), (2, 2, 4), (4, 2, 2), (2, 4, 2), (4, 4, 2), (2, 4, 4), (4, 2, 4), (6, 4, 2), (2, 4, 6), (4, 6, 2)],
}


# ---------------------------------------------------------------- digest
def h(obj):
    return hashlib.sha256(repr(obj).encode()).hexdigest()[:12]


def digest():
    lines = []
    samples = [
        ('Toric2DCode', (3, 4), None, {}),
        ('Toric2DCode', (4, 3), 'XY', {}),
        ('Planar2DCode', (3, 4), None, {}),
        ('Planar2DCode', (4, 3), 'XZZX', {'deformation_axis': 'x'}),
        ('RotatedPlanar2DCode', (3, 3), None, {}),
        ('RotatedPlanar2DCode', (5, 3), 'XY', {}),
        ('Toric3DCode', (2, 3, 4), None, {}),
        ('Toric3DCode', (3, 2, 2), 'XZZX', {'deformation_axis': 'z'}),
        ('Planar3DCode', (2, 3, 4), None, {}),
    ]
    for cname, size, name, kwargs in samples:
        cls = getattr(pc, cname)
        code = build(cls, size, name, kwargs)
        H = code.stabilizer_matrix
        lines.append(' '.join([
            f'{cname}{size}/{name}{sorted(kwargs.items())}',
            'n=%d k=%d m=%d' % (code.n, code.k, code.n_stabilizers),
            'qubits=' + h(code.qubit_coordinates),
            'stabs=' + h(code.stabilizer_coordinates),
            'H=' + h(H.toarray().tolist()),
            'Hfmt=%s/%s/sorted=%s' % (H.format, H.dtype,
                                      bool(H.has_sorted_indices)),
            'LX=' + h(code.get_logicals_x()),
            'LZ=' + h(code.get_logicals_z()),
            'lx=' + h(code.logicals_x.tolist()),
            'lz=' + h(code.logicals_z.tolist()),
            'bsf_dtype=' + str(code.to_bsf(code.get_logicals_x()[0]).dtype),
        ]))
    return lines


if __name__ == '__main__':
    if PROBE:
        probe()
        sys.exit(0)
    n_checked, failures = run_checks(SUPPORTED)
    if failures:
        print('C01 PROPERTY VIOLATED:')
        for f in failures[:40]:
            print('  ', f)
        sys.exit(1)
    print(f'C01 holds on {n_checked} (class,size,deformation,axis) objects')
    lines = digest()
    for line in lines:
        print(line)
    print('DIGEST', hashlib.sha256('\n'.join(lines).encode()).hexdigest())
    sys.exit(0)
