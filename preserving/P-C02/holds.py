import os, sys; sys.path.insert(0, os.getcwd())
"""Direct check of property C02 + digest of the outputs of the changed
functions.  Run from the root of a panqec tree:

    cd <tree> && /venv/bin/python /tmp/pp_out/C02/holds.py

Exit status 0: property holds.  Exit status 1: property violated (message).
Lines starting with 'DIGEST' describe concrete outputs of the changed code.
"""
import hashlib
import json
import subprocess
import warnings

import numpy as np
from scipy.sparse import csr_matrix, issparse

warnings.filterwarnings('ignore')

import panqec.codes as C  # noqa: E402
from panqec.codes import StabilizerCode  # noqa: E402

FAILURES = []


def fail(msg):
    FAILURES.append(msg)
    print('PROPERTY VIOLATION:', msg)
    if len(FAILURES) > 20:
        sys.exit(1)


def require(cond, msg):
    if not cond:
        fail(msg)
    return cond


# --------------------------------------------------------------------------
# independent reference implementations
# --------------------------------------------------------------------------

def ref_bsf(op, qubit_coordinates):
    """Binary symplectic image of a coordinate dict, written from scratch."""
    n = len(qubit_coordinates)
    pos = {}
    for i, loc in enumerate(qubit_coordinates):
        pos[loc] = i
    v = np.zeros(2 * n, dtype=int)
    for loc, p in op.items():
        if p == 'X':
            v[pos[loc]] = 1
        elif p == 'Z':
            v[n + pos[loc]] = 1
        elif p == 'Y':
            v[pos[loc]] = 1
            v[n + pos[loc]] = 1
        else:
            raise AssertionError('bad pauli %r' % (p,))
    return v


def ref_op(v, qubit_coordinates):
    n = len(qubit_coordinates)
    op = {}
    for i in range(n):
        x, z = int(v[i]) % 2, int(v[n + i]) % 2
        if x and z:
            op[qubit_coordinates[i]] = 'Y'
        elif x:
            op[qubit_coordinates[i]] = 'X'
        elif z:
            op[qubit_coordinates[i]] = 'Z'
    return op


# --------------------------------------------------------------------------
# the property, for one code object
# --------------------------------------------------------------------------

def check_code(code, tag, rng, n_random=6):
    qc = code.qubit_coordinates
    sc = code.stabilizer_coordinates
    n, m = code.n, code.n_stabilizers

    # coordinates distinct and disjoint
    require(len(qc) == n and len(set(qc)) == n,
            f'{tag}: qubit coordinates not distinct')
    require(len(sc) == m and len(set(sc)) == len(sc),
            f'{tag}: stabilizer coordinates not distinct')
    require(not (set(qc) & set(sc)),
            f'{tag}: qubit and stabilizer coordinates overlap')
    require(all(isinstance(c, tuple) for c in qc + sc),
            f'{tag}: coordinates are not tuples')

    # index dictionaries are the enumeration of the coordinate lists
    require(code.qubit_index == {loc: i for i, loc in enumerate(qc)},
            f'{tag}: qubit_index is not the enumeration of the coordinates')
    require(code.stabilizer_index == {loc: i for i, loc in enumerate(sc)},
            f'{tag}: stabilizer_index is not the enumeration')
    require(all(code.is_qubit(c) and not code.is_stabilizer(c) for c in qc),
            f'{tag}: is_qubit / is_stabilizer wrong on qubits')
    require(all(code.is_stabilizer(c) and not code.is_qubit(c) for c in sc),
            f'{tag}: is_qubit / is_stabilizer wrong on stabilizers')

    # row i of H == bsf image of get_stabilizer(sc[i])
    H = code.stabilizer_matrix
    require(issparse(H) and H.shape == (m, 2 * n),
            f'{tag}: parity-check matrix has shape {H.shape}')
    Hd = np.asarray(H.toarray()).astype(int)
    require(set(np.unique(Hd)) <= {0, 1}, f'{tag}: H is not binary')
    qset = set(qc)
    for i, loc in enumerate(sc):
        op = code.get_stabilizer(loc)
        if not require(len(op) > 0, f'{tag}: stabilizer {loc} is empty'):
            continue
        if not require(set(op) <= qset,
                       f'{tag}: stabilizer {loc} leaves the qubit set'):
            continue
        if not require(set(op.values()) <= {'X', 'Y', 'Z'},
                       f'{tag}: stabilizer {loc} has non-Pauli letters'):
            continue
        expected = ref_bsf(op, qc)
        require(np.array_equal(Hd[i], expected),
                f'{tag}: row {i} of H is not the image of stabilizer {loc}')
        require(Hd[i].any(), f'{tag}: row {i} of H is zero')
        require(np.array_equal(np.asarray(code.to_bsf(op)).astype(int),
                               expected),
                f'{tag}: to_bsf(stabilizer {loc}) wrong')
        # sparse row / dense 2D row / 1D row all give back the operator
        require(code.from_bsf(H[i]) == op,
                f'{tag}: from_bsf(H[{i}]) (sparse row) != stabilizer')
        require(code.from_bsf(Hd[i]) == op,
                f'{tag}: from_bsf(H[{i}]) (1D) != stabilizer')
        require(code.from_bsf(Hd[i:i + 1]) == op,
                f'{tag}: from_bsf(H[{i}]) (2D) != stabilizer')

    # repeated use of the same object gives the same matrix
    H2 = code.stabilizer_matrix
    require((H2 != H).nnz == 0, f'{tag}: stabilizer_matrix not repeatable')

    # coordinate dict <-> BSF bijection
    vectors = [np.zeros(2 * n, dtype=int), np.ones(2 * n, dtype=int)]
    for p in (0.05, 0.3, 0.5, 0.9):
        for _ in range(n_random):
            vectors.append((rng.random(2 * n) < p).astype(int))
    seen = {}
    for v in vectors:
        op = code.from_bsf(v)
        require(op == ref_op(v, qc), f'{tag}: from_bsf differs from reference')
        back = np.asarray(code.to_bsf(op)).astype(int)
        require(back.shape == (2 * n,) and np.array_equal(back, v),
                f'{tag}: to_bsf(from_bsf(v)) != v')
        require(code.from_bsf(csr_matrix(v.reshape(1, -1))) == op,
                f'{tag}: from_bsf(sparse) != from_bsf(dense)')
        require(code.from_bsf(v.astype('uint8')) == op,
                f'{tag}: from_bsf depends on dtype')
        key = tuple(sorted(op.items()))
        if key in seen:
            require(np.array_equal(seen[key], v),
                    f'{tag}: from_bsf not injective')
        seen[key] = v
    ops = []
    for _ in range(3 * n_random):
        size = int(rng.integers(0, n + 1))
        locs = rng.choice(n, size=size, replace=False)
        order = rng.permutation(size)  # dicts with arbitrary insertion order
        ops.append({qc[int(locs[j])]: 'XYZ'[int(rng.integers(3))]
                    for j in order})
    for op in ops:
        v = np.asarray(code.to_bsf(op)).astype(int)
        require(np.array_equal(v, ref_bsf(op, qc)),
                f'{tag}: to_bsf differs from reference')
        require(code.from_bsf(code.to_bsf(op)) == op,
                f'{tag}: from_bsf(to_bsf(op)) != op')

    # logical operators are indexed like the qubits
    for name, getter in (('x', code.get_logicals_x),
                         ('z', code.get_logicals_z)):
        mat = code.logicals_x if name == 'x' else code.logicals_z
        lops = getter()
        require(mat.shape == (len(lops), 2 * n),
                f'{tag}: logicals_{name} shape {mat.shape}')
        for j, lop in enumerate(lops):
            require(np.array_equal(np.asarray(mat[j]).astype(int),
                                   ref_bsf(lop, qc)),
                    f'{tag}: logicals_{name}[{j}] is not the image of the '
                    f'operator')
            require(code.from_bsf(mat[j]) == lop,
                    f'{tag}: from_bsf(logicals_{name}[{j}]) != operator')

    # syndrome == symplectic product with the rows
    errors = [(rng.random(2 * n) < p).astype('uint8')
              for p in (0.1, 0.5) for _ in range(n_random)]
    for e in errors:
        s = np.asarray(code.measure_syndrome(e)).astype(int).ravel()
        ref = (Hd[:, :n] @ e[n:].astype(int)
               + Hd[:, n:] @ e[:n].astype(int)) % 2
        require(np.array_equal(s, ref), f'{tag}: syndrome wrong')

    # CSS structure
    xi = np.asarray(code.x_indices)
    zi = np.asarray(code.z_indices)
    require(xi.dtype == bool and zi.dtype == bool and
            xi.shape == (m,) and zi.shape == (m,),
            f'{tag}: x_indices / z_indices are not boolean masks')
    require(np.array_equal(xi, Hd[:, :n].any(axis=1)) and
            np.array_equal(zi, Hd[:, n:].any(axis=1)),
            f'{tag}: x_indices / z_indices wrong')
    css_ref = not np.any(xi & zi)
    require(bool(code.is_css) == css_ref, f'{tag}: is_css wrong')
    if css_ref:
        require(np.all(xi ^ zi), f'{tag}: X/Z masks do not partition rows')
        Hx, Hz = code.Hx, code.Hz
        require(Hx.shape == (int(xi.sum()), n) and
                np.array_equal(np.asarray(Hx.toarray()).astype(int),
                               Hd[xi][:, :n]),
                f'{tag}: Hx is not the X block')
        require(Hz.shape == (int(zi.sum()), n) and
                np.array_equal(np.asarray(Hz.toarray()).astype(int),
                               Hd[zi][:, n:]),
                f'{tag}: Hz is not the Z block')
        require(not Hd[xi][:, n:].any() and not Hd[zi][:, :n].any(),
                f'{tag}: off-diagonal CSS blocks are not zero')
        require((code.Hx != Hx).nnz == 0 and (code.Hz != Hz).nnz == 0,
                f'{tag}: Hx/Hz not repeatable')
        for e in errors:
            s = np.asarray(code.measure_syndrome(e)).ravel()
            sx = np.asarray(code.extract_x_syndrome(s)).astype(int)
            sz = np.asarray(code.extract_z_syndrome(s)).astype(int)
            require(np.array_equal(
                sx, (Hd[xi][:, :n] @ e[n:].astype(int)) % 2),
                f'{tag}: X syndrome != Hx . (Z part of error)')
            require(np.array_equal(
                sz, (Hd[zi][:, n:] @ e[:n].astype(int)) % 2),
                f'{tag}: Z syndrome != Hz . (X part of error)')
            # change only the X part of the error: X syndrome unchanged
            e2 = e.copy()
            e2[:n] = (rng.random(n) < 0.5)
            s2 = np.asarray(code.measure_syndrome(e2)).ravel()
            require(np.array_equal(code.extract_x_syndrome(s2),
                                   code.extract_x_syndrome(s)),
                    f'{tag}: X syndrome depends on the X part of the error')
            # change only the Z part of the error: Z syndrome unchanged
            e3 = e.copy()
            e3[n:] = (rng.random(n) < 0.5)
            s3 = np.asarray(code.measure_syndrome(e3)).ravel()
            require(np.array_equal(code.extract_z_syndrome(s3),
                                   code.extract_z_syndrome(s)),
                    f'{tag}: Z syndrome depends on the Z part of the error')

    # stabilizer_types: exactly the set of types (order unconstrained)
    types = code.stabilizer_types
    require(len(types) == len(set(types)) and
            set(types) == {code.stabilizer_type(c) for c in sc},
            f'{tag}: stabilizer_types is not the set of types')
    for t in types:
        require(code.type_index(t) == {
            c: i for i, c in enumerate(sc) if code.stabilizer_type(c) == t},
            f'{tag}: type_index({t}) wrong')


# --------------------------------------------------------------------------
# inputs
# --------------------------------------------------------------------------

LIBRARY = [
    ('Toric2DCode', [(2, 3), (3, 2), (4, 2), (3, 3), (2, 2), (3, 5)]),
    ('Planar2DCode', [(2, 3), (4, 2), (3, 3)]),
    ('RotatedPlanar2DCode', [(2, 3), (3, 4), (4, 4), (3, 5)]),
    ('Color666PlanarCode', [(2, 2), (3, 4)]),
    ('Color666ToricCode', [(2, 3), (2, 2)]),
    ('Color488Code', [(2, 3), (3, 2)]),
    ('Toric3DCode', [(2, 3, 4), (2, 2, 2)]),
    ('Planar3DCode', [(2, 3, 4), (3, 2, 2)]),
    ('RotatedPlanar3DCode', [(2, 3, 4), (3, 3, 3)]),
    ('RotatedToric3DCode', [(2, 3, 4), (2, 2, 2), (3, 3, 3)]),
    ('RhombicToricCode', [(2, 2, 2), (2, 3, 4)]),
    ('RhombicPlanarCode', [(2, 3, 4), (3, 2, 2)]),
    ('HollowPlanar3DCode', [(2, 3, 4)]),
    ('HollowRhombicCode', [(2, 3, 4)]),
    ('XCubeCode', [(2, 3, 4), (2, 2, 2)]),
    ('Color3DCode', [(2, 2, 2)]),
]


def library_codes():
    for name, sizes in LIBRARY:
        cls = getattr(C, name)
        for size in sizes:
            yield f'{name}{size}', cls(*size)
            for deformation in cls.deformation_names:
                code = cls(*size)
                code.deform(deformation)
                yield f'{name}{size}/{deformation}', code


def make_user_code(rng, css, dim):
    """A random user-defined code through the coordinate API: arbitrary
    (distinct) coordinates, arbitrary non-empty X/Y/Z supports."""
    n = int(rng.integers(1, 9))
    m = int(rng.integers(1, 9))
    coords = set()
    while len(coords) < n + m:
        coords.add(tuple(int(c) for c in rng.integers(-5, 6, size=dim)))
    coords = list(coords)
    coords.sort(key=lambda c: hashlib.sha256(repr(c).encode()).hexdigest())
    perm = rng.permutation(n + m)
    coords = [coords[int(i)] for i in perm]
    qubits, stabs = coords[:n], coords[n:]
    stab_ops = {}
    for s in stabs:
        size = int(rng.integers(1, n + 1))
        support = rng.choice(n, size=size, replace=False)
        if css:
            letter = 'XZ'[int(rng.integers(2))]
            stab_ops[s] = {qubits[int(q)]: letter for q in support}
        else:
            stab_ops[s] = {qubits[int(q)]: 'XYZ'[int(rng.integers(3))]
                           for q in support}
    k = int(rng.integers(0, 3))
    logs = [[{qubits[int(q)]: 'XYZ'[int(rng.integers(3))]
              for q in rng.choice(n, size=int(rng.integers(1, n + 1)),
                                  replace=False)}
             for _ in range(k)] for _ in range(2)]

    class UserCode(StabilizerCode):
        dimension = dim

        @property
        def label(self):
            return 'User {}'.format(self.size)

        def get_qubit_coordinates(self):
            return list(qubits)

        def get_stabilizer_coordinates(self):
            return list(stabs)

        def qubit_axis(self, location):
            return 'x'

        def stabilizer_type(self, location):
            op = stab_ops[location]
            return 'type-' + ''.join(sorted(set(op.values())))

        def get_stabilizer(self, location):
            return dict(stab_ops[location])

        def get_logicals_x(self):
            return [dict(op) for op in logs[0]]

        def get_logicals_z(self):
            return [dict(op) for op in logs[1]]

    return UserCode(2) if dim == 2 else UserCode(2, 2, 2)


# --------------------------------------------------------------------------
# process-independence of the indexing (hash randomisation)
# --------------------------------------------------------------------------

CHILD_CODES = [
    ('Toric2DCode', (2, 3), None), ('Toric2DCode', (3, 2), 'XY'),
    ('Planar2DCode', (2, 3), 'XZZX'), ('RotatedPlanar2DCode', (3, 4), None),
    ('Color666PlanarCode', (2, 2), None), ('Color488Code', (2, 3), None),
    ('Toric3DCode', (2, 3, 4), None), ('RhombicToricCode', (2, 2, 2), None),
    ('RotatedToric3DCode', (2, 3, 4), 'XZZX'), ('XCubeCode', (2, 2, 2), None),
    ('Color3DCode', (2, 2, 2), None), ('HollowRhombicCode', (2, 3, 4), None),
]


def child():
    out = {'indexing': {}, 'types': {}}
    for name, size, deformation in CHILD_CODES:
        code = getattr(C, name)(*size)
        if deformation:
            code.deform(deformation)
        H = code.stabilizer_matrix.tocsr()
        H.sort_indices()
        payload = repr((
            code.qubit_coordinates, code.stabilizer_coordinates,
            sorted(code.qubit_index.items()),
            sorted(code.stabilizer_index.items()),
            H.indptr.tolist(), H.indices.tolist(), H.data.tolist(),
            np.asarray(code.logicals_x).tolist(),
            np.asarray(code.logicals_z).tolist(),
            np.asarray(code.x_indices).tolist(),
            np.asarray(code.z_indices).tolist(),
            [list(code.from_bsf(H[i]).items()) for i in range(H.shape[0])],
        ))
        key = f'{name}{size}/{deformation}'
        out['indexing'][key] = hashlib.sha256(payload.encode()).hexdigest()
        out['types'][key] = list(code.stabilizer_types)
    print('CHILD' + json.dumps(out, sort_keys=True))


def run_children():
    results = {}
    for seed in ('0', '1', '2', '7', '12345'):
        env = dict(os.environ, PYTHONHASHSEED=seed)
        proc = subprocess.run(
            [sys.executable, os.path.abspath(__file__), '--child'],
            env=env, cwd=os.getcwd(), capture_output=True, text=True)
        lines = [ln for ln in proc.stdout.splitlines()
                 if ln.startswith('CHILD')]
        if proc.returncode != 0 or not lines:
            fail(f'child with hash seed {seed} failed: {proc.stderr[-500:]}')
            continue
        results[seed] = json.loads(lines[-1][len('CHILD'):])
    seeds = sorted(results)
    for seed in seeds[1:]:
        for key, value in results[seeds[0]]['indexing'].items():
            require(results[seed]['indexing'][key] == value,
                    f'{key}: indexing differs between hash seeds '
                    f'{seeds[0]} and {seed}')
    return results


# --------------------------------------------------------------------------
# digest of concrete outputs of the changed functions
# --------------------------------------------------------------------------

def digest(children):
    lines = []
    # (4) order of the stabilizers of the 2D toric code
    code = C.Toric2DCode(2, 3)
    lines.append('toric2d(2,3).stabilizer_coordinates=%r'
                 % (code.stabilizer_coordinates,))
    lines.append('toric2d(2,3).x_indices=%s'
                 % ''.join('1' if b else '0' for b in code.x_indices))
    H = code.stabilizer_matrix
    lines.append('toric2d(2,3).H.sha=%s' % hashlib.sha256(
        repr((H.indptr.tolist(), H.indices.tolist())).encode()
    ).hexdigest()[:16])
    lines.append('toric2d(2,3).Hx.row0=%r' % (code.Hx[0].indices.tolist(),))
    code.deform('XY')
    lines.append('toric2d(2,3)/XY.H.row0=%r'
                 % (sorted(code.stabilizer_matrix[0].indices.tolist()),))
    # (2) key order of from_bsf
    code = C.Planar2DCode(2, 3)
    v = np.zeros(2 * code.n, dtype='uint8')
    v[[1, 4, 6]] = 1
    v[[code.n + 0, code.n + 4, code.n + 5]] = 1
    lines.append('planar2d(2,3).from_bsf=%r' % (list(code.from_bsf(v).items()),))
    code = C.Toric3DCode(2, 2, 2)
    code.deform('XZZX')
    lines.append('toric3d(2,2,2)/XZZX.from_bsf(H[0]).keys=%r'
                 % (list(code.from_bsf(code.stabilizer_matrix[0])),))
    # (1) representation of the matrix
    code = C.RotatedPlanar2DCode(3, 4)
    H = code.stabilizer_matrix
    lines.append('rotated(3,4).H: type=%s dtype=%s sorted=%s nnz=%d stored=%d'
                 % (type(H).__name__, H.dtype, bool(H.has_sorted_indices),
                    H.nnz, len(H.data)))
    # (3) order of stabilizer_types in processes with given hash seeds
    for seed in sorted(children):
        for key in ('Color3DCode(2, 2, 2)/None', 'Toric3DCode(2, 3, 4)/None',
                    'XCubeCode(2, 2, 2)/None', 'Toric2DCode(2, 3)/None'):
            lines.append('hashseed=%s %s.stabilizer_types=%r'
                         % (seed, key, children[seed]['types'][key]))
    for ln in lines:
        print('DIGEST', ln)
    print('DIGEST sha256=%s' % hashlib.sha256(
        '\n'.join(lines).encode()).hexdigest())


def main():
    rng = np.random.default_rng(20260203)
    count = 0
    for tag, code in library_codes():
        check_code(code, tag, rng, n_random=3)
        # repeated use of the same object: everything is cached, check again
        if count % 5 == 0:
            check_code(code, tag + ' (second pass)', rng, n_random=1)
        count += 1
    for i in range(120):
        css = (i % 2 == 0)
        dim = 2 if i % 3 else 3
        code = make_user_code(rng, css, dim)
        check_code(code, f'user[{i}, css={css}, dim={dim}]', rng, n_random=2)
        count += 1
    children = run_children()
    if FAILURES:
        print(f'{len(FAILURES)} violation(s) of C02')
        sys.exit(1)
    print(f'C02 holds on {count} codes and {len(children)} hash seeds')
    digest(children)
    sys.exit(0)


if __name__ == '__main__':
    if '--child' in sys.argv:
        child()
    else:
        main()
