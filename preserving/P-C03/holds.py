import os, sys; sys.path.insert(0, os.getcwd())
"""C03: Pauli representations are lossless and the symplectic product is exact.

(a) checks the property directly; exits 1 with a message on the first failure.
(b) prints a digest of concrete outputs of the changed functions.
"""
import hashlib
import itertools
import warnings

import numpy as np
from scipy.sparse import csr_matrix

warnings.filterwarnings('ignore')

from panqec import bpauli as bp          # noqa: E402
from panqec import bsparse as bs         # noqa: E402
import panqec.codes as codes             # noqa: E402
from panqec.error_models import PauliErrorModel  # noqa: E402

N_CHECKS = 0


def fail(msg):
    print('PROPERTY C03 FAILED:', msg)
    sys.exit(1)


def check(cond, msg):
    global N_CHECKS
    N_CHECKS += 1
    if not cond:
        fail(msg)


# ---------------------------------------------------------------- references
BITS = {'I': (0, 0), 'X': (1, 0), 'Y': (1, 1), 'Z': (0, 1)}
LETTER = {v: k for k, v in BITS.items()}


def ref_bsf(p):
    return [BITS[c][0] for c in p] + [BITS[c][1] for c in p]


def ref_anticommute(p, q):
    """1 iff the Pauli strings anticommute (count of clashing sites odd)."""
    return sum(1 for c, d in zip(p, q) if c != 'I' and d != 'I' and c != d) % 2


def ref_form(A, B):
    """GF(2) symplectic form of two 2D 0/1 stacks with exact Python ints."""
    A = np.asarray(A, dtype=object)
    B = np.asarray(B, dtype=object)
    n = A.shape[1] // 2
    return np.array(
        (A[:, :n].dot(B[:, n:].T) + A[:, n:].dot(B[:, :n].T)) % 2, dtype=int
    )


def ref_form_fast(A, B):
    A = np.asarray(A).astype(np.int64)
    B = np.asarray(B).astype(np.int64)
    n = A.shape[1] // 2
    return (A[:, :n] @ B[:, n:].T + A[:, n:] @ B[:, :n].T) % 2


DENSE_DTYPES = ['int8', 'uint8', 'int16', 'uint16', 'int32', 'uint32',
                'int64', 'uint64']


def representations(vec, two_d):
    """Every accepted representation of one bsf vector (1-D or one-row 2-D)."""
    v = list(vec)
    reps = {}
    reps['list'] = [v] if two_d else v
    for dt in DENSE_DTYPES:
        arr = np.array(v, dtype=dt)
        reps[dt] = arr.reshape(1, -1) if two_d else arr
    if two_d:
        # sparse rows are always 2-D
        reps['csr_u8'] = bs.from_array(np.array([v]))
        reps['csr_i64'] = csr_matrix(np.array([v], dtype='int64'))
        reps['csr_from_list'] = bs.from_array(v)
    return reps


def scalar(x):
    x = np.asarray(x)
    check(x.size == 1, f'expected a single commutator, got shape {x.shape}')
    return int(x.reshape(-1)[0])


# ------------------------------------------------ 1. exhaustive small Paulis
def exhaustive_small():
    for n in (1, 2, 3):
        paulis = [''.join(t) for t in itertools.product('IXYZ', repeat=n)]
        vecs = {p: ref_bsf(p) for p in paulis}
        reps1 = {p: representations(vecs[p], False) for p in paulis}
        reps2 = {p: representations(vecs[p], True) for p in paulis}
        if n <= 2:
            pairs_of_kinds = None  # all
        else:
            pairs_of_kinds = {
                ('1list', '1list'), ('1uint8', '2csr_u8'),
                ('2csr_u8', '2csr_u8'), ('1int64', '1int8'),
                ('2csr_i64', '1uint64'), ('2list', '2csr_from_list'),
                ('1int8', '2int16'), ('2uint32', '1list'),
            }
        for p in paulis:
            ra = {('1' + k): v for k, v in reps1[p].items()}
            ra.update({('2' + k): v for k, v in reps2[p].items()})
            for q in paulis:
                want = ref_anticommute(p, q)
                rb = {('1' + k): v for k, v in reps1[q].items()}
                rb.update({('2' + k): v for k, v in reps2[q].items()})
                for ka, a in ra.items():
                    for kb, b in rb.items():
                        if pairs_of_kinds is not None and \
                                (ka, kb) not in pairs_of_kinds:
                            continue
                        got = scalar(bp.bs_prod(a, b))
                        check(got == want,
                              f'bs_prod({p}[{ka}], {q}[{kb}]) = {got}, '
                              f'symplectic form = {want}')
        # Whole stacks, all representation pairs, 2D x 2D and 1D x 2D.
        M = np.array([vecs[p] for p in paulis])
        want = np.array([[ref_anticommute(p, q) for q in paulis]
                         for p in paulis])
        check(np.array_equal(ref_form(M, M), want), 'reference mismatch')
        stacks = {'list': M.tolist(), 'csr_u8': bs.from_array(M),
                  'csr_i64': csr_matrix(M.astype('int64'))}
        for dt in DENSE_DTYPES:
            stacks[dt] = M.astype(dt)
        for ka, A in stacks.items():
            for kb, B in stacks.items():
                got = np.asarray(bp.bs_prod(A, B))
                check(got.shape == want.shape and np.array_equal(got, want),
                      f'stack bs_prod n={n} {ka} x {kb} differs from the form')
            for i, p in enumerate(paulis):
                for kb in ('list', 'uint8', 'int64', 'int8'):
                    single = reps1[p][kb]
                    got = np.asarray(bp.bs_prod(A, single)).reshape(-1)
                    check(np.array_equal(got, want[:, i]),
                          f'bs_prod(stack[{ka}], {p}[{kb}]) wrong')
                    got = np.asarray(bp.bs_prod(single, A)).reshape(-1)
                    check(np.array_equal(got, want[i, :]),
                          f'bs_prod({p}[{kb}], stack[{ka}]) wrong')
                if n <= 2:
                    row = reps2[p]['csr_u8']
                    got = np.asarray(bp.bs_prod(A, row)).reshape(-1)
                    check(np.array_equal(got, want[:, i]),
                          f'bs_prod(stack[{ka}], {p}[csr]) wrong')
        # symmetric, zero diagonal
        check(np.array_equal(want, want.T) and not want.diagonal().any(),
              'reference not symmetric / alternating')


# ------------------------------------------------------ 2. big random stacks
def random_stack(rng, rows, n, density):
    if density <= 0:
        return np.zeros((rows, 2*n), dtype=np.uint8)
    if density >= 1:
        return np.ones((rows, 2*n), dtype=np.uint8)
    return (rng.random((rows, 2*n)) < density).astype(np.uint8)


def big_random():
    rng = np.random.default_rng(20240303)
    max_overlap = 0
    for n in (1, 2, 7, 64, 129, 300, 600, 601):
        for dens_a, dens_b in [(0.5, 0.5), (1.0, 1.0), (0.99, 0.97),
                               (0.0, 0.7), (0.02, 0.03), (1.0, 0.5),
                               (0.9, 1.0)]:
            A = random_stack(rng, 5, n, dens_a)
            B = random_stack(rng, 4, n, dens_b)
            # put a copy of an A row in B to test equal arguments in stacks
            B[0] = A[1]
            want = ref_form_fast(A, B)
            if n <= 64:
                check(np.array_equal(want, ref_form(A, B)), 'ref mismatch')
            Ai, Bi = A.astype(np.int64), B.astype(np.int64)
            overlap = (Ai[:, :n] @ Bi[:, n:].T).max() if n else 0
            max_overlap = max(max_overlap, int(overlap))
            forms = {
                'uint8': lambda M: M.astype('uint8'),
                'int8': lambda M: M.astype('int8'),
                'int16': lambda M: M.astype('int16'),
                'uint16': lambda M: M.astype('uint16'),
                'int64': lambda M: M.astype('int64'),
                'uint64': lambda M: M.astype('uint64'),
                'csr_u8': lambda M: bs.from_array(M),
                'csr_i64': lambda M: csr_matrix(M.astype('int64')),
                'csr_i8': lambda M: csr_matrix(M.astype('int8')),
                'list': lambda M: M.tolist(),
            }
            for ka, fa in forms.items():
                for kb, fb in forms.items():
                    a_in, b_in = fa(A), fb(B)
                    got = np.asarray(bp.bs_prod(a_in, b_in))
                    check(got.shape == want.shape
                          and np.array_equal(got, want),
                          f'n={n} dens=({dens_a},{dens_b}) {ka} x {kb}: '
                          'bs_prod differs from the symplectic form')
                    # symmetry
                    got_t = np.asarray(bp.bs_prod(fb(B), fa(A)))
                    check(np.array_equal(got_t, want.T),
                          f'n={n} {kb} x {ka}: not symmetric')
                    # inputs must not be modified
                    if isinstance(a_in, np.ndarray):
                        check(np.array_equal(a_in, A), 'operand a mutated')
                    if bs.is_sparse(b_in):
                        check(np.array_equal(b_in.toarray(), B),
                              'operand b mutated')
                # zero on equal arguments, 1-D and stack diagonal
                a_in = fa(A)
                diag = np.asarray(bp.bs_prod(a_in, fa(A)))
                check(not diag.diagonal().any(),
                      f'n={n} {ka}: operator anticommutes with itself')
                if ka != 'list' and not ka.startswith('csr'):
                    for r in range(A.shape[0]):
                        check(scalar(bp.bs_prod(a_in[r], a_in[r])) == 0,
                              f'n={n} {ka}: 1-D self product not zero')
                        got = np.asarray(bp.bs_prod(a_in[r], fa(B)))
                        check(np.array_equal(got.reshape(-1), want[r]),
                              f'n={n} {ka}: 1-D x stack wrong')
                        got = np.asarray(bp.bs_prod(bs.from_array(B), a_in[r]))
                        check(np.array_equal(got.reshape(-1), want[r]),
                              f'n={n} {ka}: sparse stack x 1-D wrong')
            # bilinearity: (A0 + A1) . B = A0.B + A1.B over GF(2)
            S = (A[0] ^ A[1])
            for maker in (lambda M: M, lambda M: M.astype('int64'),
                          lambda M: bs.from_array(M), lambda M: M.tolist()):
                lhs = np.asarray(bp.bs_prod(maker(S[None, :]), maker(B)))
                rhs = (np.asarray(bp.bs_prod(maker(A[0:1]), maker(B))) +
                       np.asarray(bp.bs_prod(maker(A[1:2]), maker(B)))) % 2
                check(np.array_equal(lhs.reshape(-1), rhs.reshape(-1)),
                      f'n={n}: bs_prod not additive in the first argument')
                T = (B[2] ^ B[3])
                lhs = np.asarray(bp.bs_prod(maker(A), maker(T[None, :])))
                rhs = (np.asarray(bp.bs_prod(maker(A), maker(B[2:3]))) +
                       np.asarray(bp.bs_prod(maker(A), maker(B[3:4])))) % 2
                check(np.array_equal(lhs.reshape(-1), rhs.reshape(-1)),
                      f'n={n}: bs_prod not additive in the second argument')
    check(max_overlap > 255, f'overlaps never exceeded 255 ({max_overlap})')
    # exact multiples of 256 and 256 +- 1 overlap between X...X and Z...Z
    for w in (255, 256, 257, 511, 512, 513):
        n = 520
        a = np.zeros(2*n, dtype=np.uint8)
        b = np.zeros(2*n, dtype=np.uint8)
        a[:w] = 1
        b[n:n + w] = 1
        for dt in DENSE_DTYPES:
            check(scalar(bp.bs_prod(a.astype(dt), b.astype(dt))) == w % 2,
                  f'overlap {w} dtype {dt}: wrong parity')
        check(scalar(bp.bs_prod(bs.from_array(a), bs.from_array(b))) == w % 2,
              f'overlap {w} sparse: wrong parity')
        check(scalar(bp.bs_prod(bs.from_array(a), b)) == w % 2,
              f'overlap {w} sparse/dense: wrong parity')
        check(scalar(bp.bs_prod(a.tolist(), bs.from_array(b))) == w % 2,
              f'overlap {w} list/sparse: wrong parity')
        check(bs.dot(bs.from_array(a[:n]), bs.from_array(b[n:])) == w % 2,
              f'bsparse.dot wrong for overlap {w}')


# ------------------------------------------------- 3. syndromes on real codes
def make_codes():
    out = []
    specs = [
        ('Toric2DCode', (3, 4), [None, 'XZZX', 'XY']),
        ('Planar2DCode', (4, 3), [None, 'XZZX', 'XY']),
        ('RotatedPlanar2DCode', (3, 5), [None, 'XZZX', 'XY']),
        ('Color666PlanarCode', (4,), [None]),
        ('Color666ToricCode', (4, 6), [None, 'XY']),
        ('Color488Code', (4,), [None, 'XY']),
        ('Toric3DCode', (2, 3, 4), [None, 'XZZX', 'XY']),
        ('Planar3DCode', (2, 3, 2), [None, 'XZZX', 'XY']),
        ('RotatedPlanar3DCode', (2, 3, 2), [None, 'XZZX', 'XY']),
        ('XCubeCode', (3, 3, 3), [None, 'XZZX']),
        ('RhombicToricCode', (2, 2, 2), [None, 'XY']),
    ]
    for name, size, deformations in specs:
        cls = getattr(codes, name)
        for deformation in deformations:
            try:
                code = cls(*size)
                if deformation is not None:
                    code.deform(deformation)
                    code.stabilizer_matrix
                    code.logicals_x
            except Exception:
                # deformation not offered by this code class
                continue
            out.append((f'{name}{size}/{deformation}', code, deformation))
    return out


def syndromes(all_codes):
    rng = np.random.default_rng(77)
    digest_lines = []
    for label, code, deformation in all_codes:
        n = code.n
        H = code.stabilizer_matrix
        Hd = H.toarray().copy()
        check(set(np.unique(Hd)) <= {0, 1}, f'{label}: H not binary')
        models = [PauliErrorModel(1/3, 1/3, 1/3),
                  PauliErrorModel(0.0, 0.0, 1.0),
                  PauliErrorModel(0.05, 0.05, 0.9)]
        if deformation is not None:
            models.append(PauliErrorModel(0.0, 0.0, 1.0,
                                          deformation_name=deformation))
        errors = []
        for model in models:
            for p in (0.0, 0.1, 0.5, 1.0):
                errors.append(np.asarray(model.generate(code, p, rng=rng)))
        errors.append(np.ones(2*n, dtype=np.uint8))
        errors.append(np.zeros(2*n, dtype=np.uint8))
        E = np.array(errors, dtype=np.uint8)
        want = ref_form_fast(Hd, E)
        # stack of errors at once, dense / sparse / list / other dtypes
        for kind, conv in [('uint8', lambda M: M), ('int64', lambda M: M.astype('int64')),
                           ('int8', lambda M: M.astype('int8')),
                           ('csr', lambda M: bs.from_array(M)),
                           ('list', lambda M: M.tolist())]:
            got = np.asarray(code.measure_syndrome(conv(E)))
            check(got.shape == want.shape and np.array_equal(got, want),
                  f'{label}: stacked syndrome ({kind}) != H Lambda e')
        for i, e in enumerate(errors):
            s = np.asarray(code.measure_syndrome(e))
            check(s.shape == (code.n_stabilizers,),
                  f'{label}: syndrome shape {s.shape}')
            check(np.array_equal(s, want[:, i]),
                  f'{label}: syndrome of error {i} != H Lambda e')
            # repeated use of the same objects
            check(np.array_equal(s, np.asarray(code.measure_syndrome(e))),
                  f'{label}: repeated syndrome differs')
            for conv in (lambda v: v.astype('int64'), lambda v: v.tolist(),
                         lambda v: bs.from_array(v), lambda v: v.astype('int8'),
                         lambda v: v.astype(np.uint)):
                check(np.array_equal(
                    np.asarray(code.measure_syndrome(conv(e))).reshape(-1), s),
                    f'{label}: syndrome depends on the representation')
            check(code.in_codespace(e) == (not s.any()),
                  f'{label}: in_codespace disagrees with syndrome')
        # GF(2)-linearity in the error
        for i in range(len(errors)):
            for j in range(i, len(errors)):
                e = errors[i] ^ errors[j]
                s = np.asarray(code.measure_syndrome(e))
                check(np.array_equal(s, want[:, i] ^ want[:, j]),
                      f'{label}: syndrome not GF(2)-linear ({i},{j})')
        # stabilizers commute, logicals as expected, effective errors linear
        check(np.array_equal(np.asarray(bp.bs_prod(H, H)),
                             ref_form_fast(Hd, Hd)),
              f'{label}: stabilizer commutators != form')
        LX, LZ = code.logicals_x, code.logicals_z
        # (the sparse route squeezes one-row / one-column results)
        check(np.array_equal(np.asarray(bp.bs_prod(H, LX)).reshape(-1),
                             ref_form_fast(Hd, LX).reshape(-1))
              and np.array_equal(np.asarray(bp.bs_prod(LZ, H)).reshape(-1),
                                 ref_form_fast(LZ, Hd).reshape(-1)),
              f'{label}: logical/stabilizer commutators != form')
        check(np.array_equal(np.asarray(bp.bs_prod(LX, LZ)),
                             ref_form_fast(LX, LZ)),
              f'{label}: logical commutators != form')
        eff_all = np.asarray(code.logical_errors(E))
        k = LX.shape[0]
        want_eff = np.hstack([ref_form_fast(E, LZ), ref_form_fast(E, LX)])
        check(np.array_equal(eff_all.reshape(len(errors), 2*k), want_eff),
              f'{label}: logical_errors (stack) != form')
        for i, e in enumerate(errors):
            check(np.array_equal(np.asarray(code.logical_errors(e)).reshape(-1),
                                 want_eff[i]),
                  f'{label}: logical_errors (single) != form')
        check(np.array_equal(H.toarray(), Hd), f'{label}: H was modified')
        # to_bsf / from_bsf are mutually inverse
        ops = [code.get_stabilizer(loc) for loc in code.stabilizer_coordinates]
        ops += code.get_logicals_x() + code.get_logicals_z()
        for i, op in enumerate(ops):
            v = np.asarray(code.to_bsf(op))
            check(v.shape == (2*n,) and set(np.unique(v)) <= {0, 1},
                  f'{label}: to_bsf not a bsf vector')
            back = code.from_bsf(v)
            check(back == {loc: P for loc, P in op.items() if P != 'I'},
                  f'{label}: from_bsf(to_bsf(op)) != op')
            check(code.from_bsf(v.reshape(1, -1)) == back
                  and code.from_bsf(bs.from_array(v)) == back
                  and code.from_bsf(v.astype('int8')) == back,
                  f'{label}: from_bsf depends on the representation')
            if i < code.n_stabilizers:
                check(np.array_equal(v, Hd[i]),
                      f'{label}: stabilizer_matrix row != to_bsf(stabilizer)')
                check(code.from_bsf(bs.from_array(Hd[i])) == back,
                      f'{label}: from_bsf(H row) != stabilizer')
            pstr = bp.bsf_to_pauli(v.astype('uint8'))
            check(np.array_equal(bp.pauli_to_bsf(pstr), v),
                  f'{label}: pauli_to_bsf(bsf_to_pauli) != id')
            check(bp.bsf_wt(v.astype('uint8')) == len(back),
                  f'{label}: bsf_wt != size of support')
        for e in errors[:6]:
            op = code.from_bsf(e)
            check(np.array_equal(np.asarray(code.to_bsf(op)), e),
                  f'{label}: to_bsf(from_bsf(e)) != e')
            check(len(op) == bp.bsf_wt(e), f'{label}: weight mismatch')
        digest_lines.append(
            f'{label}: n={n} m={code.n_stabilizers} '
            f'syn_sha={hashlib.sha256(want.astype("uint8").tobytes()).hexdigest()[:12]}'
        )
    return digest_lines


# ----------------------------------------------------------- 4. conversions
def conversions():
    rng = np.random.default_rng(5)
    for n in (0, 1, 2, 3):
        paulis = [''.join(t) for t in itertools.product('IXYZ', repeat=n)]
        seen = set()
        for p in paulis:
            v = np.array(ref_bsf(p), dtype=np.uint8)
            a = np.asarray(bp.pauli_string_to_bvector(p))
            check(np.array_equal(a, v), f'pauli_string_to_bvector({p!r})')
            if n:
                b = np.asarray(bp.pauli_to_bsf(p))
                check(np.array_equal(b, v), f'pauli_to_bsf({p!r})')
                check(bp.bsf_to_pauli(v) == p, f'bsf_to_pauli dense {p}')
                check(bp.bsf_to_pauli(v.astype('int64')) == p,
                      f'bsf_to_pauli int64 {p}')
                check(bp.bsf_to_pauli(bs.from_array(v)) == [p],
                      f'bsf_to_pauli sparse {p}')
                wt = sum(c != 'I' for c in p)
                check(bp.bsf_wt(v) == wt, f'bsf_wt dense {p}')
                check(bp.bsf_wt(bs.from_array(v)) == wt, f'bsf_wt sparse {p}')
                check(np.array_equal(bs.to_array(bs.from_array(v))[0], v),
                      f'sparse round trip {p}')
                xa, za = bs.hsplit(bs.from_array(v))
                check(np.array_equal(xa.toarray()[0], v[:n])
                      and np.array_equal(za.toarray()[0], v[n:]),
                      f'hsplit {p}')
                check(np.array_equal(bs.hstack([xa, za]).toarray()[0], v),
                      f'hstack(hsplit) {p}')
                # row built by insert_mod2 (insert every index, twice some)
                row = bs.zero_row(2*n)
                order = list(np.flatnonzero(v)[::-1])
                for idx in order:
                    bs.insert_mod2(int(idx), row)
                check(np.array_equal(row.toarray()[0], v),
                      f'insert_mod2 row {p}')
                check(all(bs.is_one(int(i), row) == bool(v[i])
                          for i in range(2*n)), f'is_one {p}')
                for q in paulis:
                    check(scalar(bp.bs_prod(row, ref_bsf(q)))
                          == ref_anticommute(p, q),
                          f'bs_prod(insert_mod2 row {p}, {q})')
                if order:
                    bs.insert_mod2(int(order[0]), row)
                    bs.insert_mod2(int(order[0]), row)
                    check(np.array_equal(row.toarray()[0], v),
                          f'insert_mod2 twice not identity {p}')
            check(bp.bvector_to_pauli_string(v) == p,
                  f'bvector_to_pauli_string {p}')
            check(bp.bvector_to_pauli_string(a) == p,
                  f'string -> bvector -> string {p}')
            if n:
                i = bp.bvector_to_int(v)
                check(i == int(''.join(map(str, ref_bsf(p))), 2),
                      f'bvector_to_int {p}')
                check(isinstance(i, int), 'bvector_to_int not a python int')
                check(bp.bvector_to_int(a) == i and
                      bp.bvector_to_int(list(ref_bsf(p))) == i and
                      bp.bvector_to_int(v.astype('int64')) == i,
                      f'bvector_to_int depends on representation {p}')
                check(np.array_equal(np.asarray(bp.int_to_bvector(i, n)), v),
                      f'int_to_bvector(bvector_to_int) {p}')
                seen.add(i)
        if n:
            check(seen == set(range(4**n)), f'ints not a bijection n={n}')
            for i in range(4**n):
                v = bp.int_to_bvector(i, n)
                check(len(v) == 2*n and bp.bvector_to_int(v) == i,
                      f'bvector_to_int(int_to_bvector({i},{n}))')
            vs = [np.array(ref_bsf(p), dtype=np.uint8) for p in paulis]
            ints = bp.bvectors_to_ints(vs)
            check(ints == [bp.bvector_to_int(v) for v in vs], 'bvectors_to_ints')
            back = bp.ints_to_bvectors(ints, n)
            check(all(np.array_equal(x, y) for x, y in zip(back, vs)),
                  'ints_to_bvectors(bvectors_to_ints)')
            M = np.array(vs)
            check(bp.bsf_to_pauli(M) == paulis, 'bsf_to_pauli 2D dense')
            check(bp.bsf_to_pauli(bs.from_array(M)) == paulis,
                  'bsf_to_pauli 2D sparse')
    # long random operators
    for n in (5, 31, 32, 33, 64, 65, 130, 700):
        for dens in (0.0, 0.03, 0.5, 1.0):
            letters = rng.choice(list('IXYZ'), size=n,
                                 p=[1 - dens, dens/3, dens/3, dens/3])
            p = ''.join(letters)
            v = np.array(ref_bsf(p), dtype=np.uint8)
            check(np.array_equal(bp.pauli_string_to_bvector(p), v)
                  and np.array_equal(bp.pauli_to_bsf(p), v), f'long string n={n}')
            check(bp.bvector_to_pauli_string(v) == p
                  and bp.bsf_to_pauli(v) == p
                  and bp.bsf_to_pauli(bs.from_array(v)) == [p],
                  f'long bsf -> string n={n}')
            i = bp.bvector_to_int(v)
            check(i == int(''.join(map(str, v.tolist())), 2), f'long int n={n}')
            check(np.array_equal(bp.int_to_bvector(i, n), v),
                  f'long int_to_bvector n={n}')
            wt = sum(c != 'I' for c in p)
            check(bp.bsf_wt(v) == wt and bp.bsf_wt(bs.from_array(v)) == wt,
                  f'long weight n={n}')
            flags = rng.random(n) < 0.5
            d = bp.apply_deformation(flags, v)
            check(np.array_equal(bp.apply_deformation(flags, d), v),
                  'apply_deformation not an involution')
            w = (rng.random(2*n) < 0.5).astype(np.uint8)
            check(scalar(bp.bs_prod(d, bp.apply_deformation(flags, w)))
                  == scalar(bp.bs_prod(v, w)),
                  'apply_deformation does not preserve commutators')
            check(bs.dot(bs.from_array(v), w)
                  == int(v.astype(int) @ w.astype(int)) % 2, 'bsparse.dot')


# ------------------------------------------------------------------ digest
def attempt(fn):
    try:
        out = fn()
    except Exception as exc:   # noqa
        return f'raises {type(exc).__name__}: {exc}'
    if isinstance(out, np.ndarray):
        return f'ndarray dtype={out.dtype} shape={out.shape} {out.tolist()}'
    return repr(out)


def digest(all_codes):
    lines = []
    a64 = np.array([[1, 0, 1, 0], [0, 1, 1, 1]], dtype='int64')
    b64 = np.array([0, 1, 1, 1], dtype='int64')
    lines.append('bs_prod int64 x int64: ' + attempt(lambda: bp.bs_prod(a64, b64)))
    lines.append('bs_prod int16 1D x 1D: ' + attempt(
        lambda: bp.bs_prod(b64.astype('int16'), a64[0].astype('int16'))))
    lines.append('bs_prod list x list: ' + attempt(
        lambda: bp.bs_prod([1, 0, 1, 0], [0, 1, 1, 1])))
    lines.append('bs_prod csr int64: ' + attempt(
        lambda: bp.bs_prod(csr_matrix(a64), csr_matrix(a64))))
    lines.append('bs_prod csr_u8 x uint64: ' + attempt(
        lambda: bp.bs_prod(bs.from_array(a64), b64.astype('uint64'))))
    lines.append('bs_prod odd length: ' + attempt(
        lambda: bp.bs_prod([0, 0, 1, 0, 1], [0, 1, 0, 1, 0])))
    lines.append('bs_prod length mismatch: ' + attempt(
        lambda: bp.bs_prod([0, 0, 0, 1], [1, 0, 1, 1, 0, 1])))
    lines.append('bs_prod 3-D operand: ' + attempt(
        lambda: bp.bs_prod(np.zeros((2, 2, 4), dtype=int), np.zeros(4, dtype=int))))
    lines.append('int_to_bvector(16, 1): ' + attempt(lambda: bp.int_to_bvector(16, 1)))
    lines.append('int_to_bvector(11, 2): ' + attempt(lambda: bp.int_to_bvector(11, 2)))
    lines.append('int_to_bvector(-1, 2): ' + attempt(lambda: bp.int_to_bvector(-1, 2)))
    lines.append('bvector_to_int([1,0,2,1]): ' + attempt(
        lambda: bp.bvector_to_int(np.array([1, 0, 2, 1]))))
    lines.append("pauli_string_to_bvector('XaZ'): " + attempt(
        lambda: bp.pauli_string_to_bvector('XaZ')))
    lines.append("pauli_string_to_bvector('IXYZ'): " + attempt(
        lambda: bp.pauli_string_to_bvector('IXYZ')))

    def build_row():
        row = bs.zero_row(6)
        for i in [4, 1, 3, 0]:
            bs.insert_mod2(i, row)
        return (f'indices={row.indices.tolist()} data={row.data.tolist()} '
                f'indptr={row.indptr.tolist()} dense={row.toarray().tolist()}')
    lines.append('insert_mod2 4,1,3,0: ' + attempt(build_row))

    def out_of_range():
        row = bs.zero_row(6)
        bs.insert_mod2(9, row)
        return f'indices={row.indices.tolist()} shape={row.shape}'
    lines.append('insert_mod2 out of range: ' + attempt(out_of_range))

    for label, code, deformation in all_codes[:4]:
        n = code.n
        v = np.zeros(2*n, dtype=np.uint8)
        v[[n - 1, 1, 2]] = 1
        v[[n + 1, n + 0]] = 1
        lines.append(f'{label} from_bsf order: ' + attempt(
            lambda: list(code.from_bsf(v).items())))
        lines.append(f'{label} from_bsf wrong length: ' + attempt(
            lambda: code.from_bsf(np.ones(2*n + 2, dtype=np.uint8))))
        e = code.to_bsf(code.from_bsf(v))
        lines.append(f'{label} logical_errors(to_bsf(..)): ' + attempt(
            lambda: code.logical_errors(e)))
        lines.append(f'{label} measure_syndrome(int64): ' + attempt(
            lambda: code.measure_syndrome(v.astype('int64'))))
        lines.append(f'{label} bs_prod(logicals_x, uint): ' + attempt(
            lambda: bp.bs_prod(code.logicals_x, e)))
    return lines


def main():
    exhaustive_small()
    big_random()
    all_codes = make_codes()
    check(len(all_codes) >= 15, f'only {len(all_codes)} codes built')
    check(any(d == 'XY' for _, _, d in all_codes), 'no XY deformation tested')
    syn_lines = syndromes(all_codes)
    conversions()
    print(f'C03 holds: {N_CHECKS} checks passed on {len(all_codes)} codes')
    for line in syn_lines:
        print('  [value] ' + line)
    lines = digest(all_codes)
    print('DIGEST-BEGIN')
    for line in lines:
        print(line)
    print('DIGEST-END')
    print('DIGEST-SHA256 ' + hashlib.sha256('\n'.join(lines).encode()).hexdigest())


if __name__ == '__main__':
    main()
