import os, sys; sys.path.insert(0, os.getcwd())  # noqa: E401,E702
"""C04: decoding success is declared iff the residual error is a stabilizer.

(a) checks the property against an independent GF(2) reference (bit-mask
    arithmetic, no panqec routine is used for the reference side);
(b) prints a digest of concrete outputs of the functions touched by the patch.

Exit status 0 iff the property holds; 1 (with a message) otherwise.
"""
import hashlib
import json
import warnings

import numpy as np

warnings.filterwarnings('ignore')

import panqec.codes as PC  # noqa: E402
from panqec.bpauli import get_effective_error  # noqa: E402
from panqec.error_models import PauliErrorModel  # noqa: E402
from panqec.decoders import (  # noqa: E402
    BeliefPropagationOSDDecoder, MatchingDecoder
)
from panqec.simulation import run_once, DirectSimulation  # noqa: E402

FAILURES = []
N_CHECKED = [0]


def fail(msg):
    FAILURES.append(msg)
    print('PROPERTY VIOLATION:', msg)
    if len(FAILURES) > 20:
        print('too many violations, giving up')
        sys.exit(1)


# ---------------------------------------------------------------- GF(2) tools
def to_int(v):
    """Binary vector -> python int bit mask (bit j <-> component j)."""
    out = 0
    for j in np.flatnonzero(np.asarray(v) % 2):
        out |= 1 << int(j)
    return out


def to_vec(x, length, dtype='uint8'):
    return np.array([(x >> j) & 1 for j in range(length)], dtype=dtype)


def parity(x):
    return bin(x).count('1') & 1


class Span:
    """Row space over GF(2), kept as a reduced basis keyed by leading bit."""

    def __init__(self, rows=()):
        self.pivots = {}
        for r in rows:
            self.add(r)

    def reduce(self, x):
        while x:
            top = x.bit_length() - 1
            if top not in self.pivots:
                return x
            x ^= self.pivots[top]
        return 0

    def add(self, x):
        x = self.reduce(x)
        if x:
            self.pivots[x.bit_length() - 1] = x
            return True
        return False

    def __contains__(self, x):
        return self.reduce(x) == 0

    @property
    def rank(self):
        return len(self.pivots)


class Ref:
    """Independent description of a code from its generator/logical rows."""

    def __init__(self, code):
        self.code = code
        self.n = n = code.n
        H = code.stabilizer_matrix
        H = np.asarray(H.toarray() if hasattr(H, 'toarray') else H) % 2
        self.gens = [to_int(r) for r in H]
        self.lx = [to_int(r) for r in np.asarray(code.logicals_x)]
        self.lz = [to_int(r) for r in np.asarray(code.logicals_z)]
        self.k = len(self.lx)
        self.mask = (1 << n) - 1
        self.span = Span(self.gens)

    def swap(self, e):
        """(x|z) -> (z|x) so that symplectic product = parity(a & swap(b))."""
        return ((e & self.mask) << self.n) | (e >> self.n)

    def symp(self, a, b):
        return parity(a & self.swap(b))

    def commutes_with_all(self, e):
        se = self.swap(e)
        return all(parity(g & se) == 0 for g in self.gens)

    def is_stabilizer(self, e):
        return e in self.span

    def effect(self, e):
        """2k bits: first k = anticommutes with logical Z_i (X-type action),
        last k = anticommutes with logical X_i (Z-type action)."""
        se = self.swap(e)
        return ([parity(lg & se) for lg in self.lz]
                + [parity(lg & se) for lg in self.lx])


# ------------------------------------------------------------ property checks
def check_structure(name, ref):
    """Sanity of the reference data itself (so that 'iff' is meaningful)."""
    n, k = ref.n, ref.k
    for i, g in enumerate(ref.gens):
        for h in ref.gens[i:]:
            if ref.symp(g, h):
                fail(f'{name}: generators do not commute')
                return False
    if len(ref.lz) != k:
        fail(f'{name}: number of logical X and Z differ')
        return False
    for i in range(k):
        for j in range(k):
            if ref.symp(ref.lx[i], ref.lz[j]) != int(i == j):
                fail(f'{name}: logical X_{i}/Z_{j} wrong commutation')
                return False
            if ref.symp(ref.lx[i], ref.lx[j]) or ref.symp(ref.lz[i], ref.lz[j]):
                fail(f'{name}: logicals of same type anticommute')
                return False
    for lg in ref.lx + ref.lz:
        if not ref.commutes_with_all(lg):
            fail(f'{name}: a logical operator anticommutes with a generator')
            return False
    if ref.span.rank != n - k:
        fail(f'{name}: rank(generators)={ref.span.rank} but n-k={n-k}')
        return False
    return True


def check_error(name, ref, e_int, dtype='uint8', unit_effects=None):
    """The property for one residual error."""
    code = ref.code
    n, k = ref.n, ref.k
    e = to_vec(e_int, 2*n, dtype)
    N_CHECKED[0] += 1

    want_cs = ref.commutes_with_all(e_int)
    want_stab = ref.is_stabilizer(e_int)
    if want_stab and not want_cs:
        fail(f'{name}: reference inconsistent for {e_int}')

    got_cs = code.in_codespace(e)
    if not isinstance(got_cs, (bool, np.bool_)):
        fail(f'{name}: in_codespace returned {type(got_cs)}')
    if bool(got_cs) != want_cs:
        fail(f'{name}: in_codespace({e_int:b})={got_cs}, '
             f'commutes with all generators={want_cs}')

    got_le = code.is_logical_error(e)
    if want_cs and (not bool(got_le)) != want_stab:
        fail(f'{name}: codespace error {e_int:b}: is_logical_error={got_le} '
             f'but product-of-generators={want_stab}')

    got_ok = code.is_success(e)
    if bool(got_ok) != want_stab:
        fail(f'{name}: is_success({e_int:b})={got_ok} '
             f'but in stabilizer group={want_stab}')

    eff = np.asarray(code.logical_errors(e))
    if eff.shape != (2*k,):
        fail(f'{name}: logical_errors shape {eff.shape} != {(2*k,)}')
        return
    if not np.all((eff == 0) | (eff == 1)):
        fail(f'{name}: logical_errors not binary: {eff}')
    eff_l = [int(v) for v in eff]
    if eff_l != ref.effect(e_int):
        fail(f'{name}: logical_errors({e_int:b})={eff_l} '
             f'expected {ref.effect(e_int)}')
    if bool(got_le) != any(eff_l):
        fail(f'{name}: is_logical_error disagrees with logical_errors')
    if unit_effects is not None:
        # linearity: effect of e is the XOR of the effects of its unit parts
        acc = [0]*(2*k)
        for j in range(2*n):
            if (e_int >> j) & 1:
                acc = [a ^ b for a, b in zip(acc, unit_effects[j])]
        if acc != eff_l:
            fail(f'{name}: logical effect not linear at {e_int:b}')
    return eff_l


def random_product(rng, rows, p=0.5):
    out = 0
    for r in rows:
        if rng.random() < p:
            out ^= r
    return out


def check_code(name, code, rng, n_random=60):
    ref = Ref(code)
    if not check_structure(name, ref):
        return
    n, k = ref.n, ref.k
    unit_effects = []
    for j in range(2*n):
        v = np.zeros(2*n, dtype='uint8')
        v[j] = 1
        unit_effects.append([int(x) for x in code.logical_errors(v)])

    # identity, generators, logicals
    check_error(name, ref, 0)
    for g in ref.gens:
        eff = check_error(name, ref, g)
        if eff is not None and any(eff):
            fail(f'{name}: generator has non-trivial logical effect')
    for i in range(k):
        for kind, ops, offset in (('X', ref.lx, 0), ('Z', ref.lz, k)):
            eff = check_error(name, ref, ops[i])
            want = [0]*(2*k)
            want[offset + i] = 1
            if eff != want:
                fail(f'{name}: logical {kind}_{i} gives effect {eff}, '
                     f'expected {want} (first k bits = X-type action)')

    if n <= 8:
        # full enumeration of the 4^n Paulis
        for e_int in range(4**n):
            check_error(name, ref, e_int, unit_effects=unit_effects)
    else:
        for j in range(2*n):
            check_error(name, ref, 1 << j, unit_effects=unit_effects)

    dtypes = ['uint8', np.uint, int, 'uint8']
    for t in range(n_random):
        dt = dtypes[t % len(dtypes)]
        s = random_product(rng, ref.gens)
        lg = random_product(rng, ref.lx + ref.lz)
        arb = 0
        for j in rng.choice(2*n, size=int(rng.integers(1, 4)), replace=False):
            arb |= 1 << int(j)
        dense = int.from_bytes(rng.bytes((2*n + 7)//8), 'little') \
            & ((1 << 2*n) - 1)
        e_s = check_error(name, ref, s, dt, unit_effects)
        e_sl = check_error(name, ref, s ^ lg, dt, unit_effects)
        e_l = check_error(name, ref, lg, dt, unit_effects)
        e_a = check_error(name, ref, arb, dt, unit_effects)
        e_sa = check_error(name, ref, s ^ arb, dt, unit_effects)
        e_d = check_error(name, ref, dense, dt, unit_effects)
        e_ds = check_error(name, ref, dense ^ s, dt, unit_effects)
        e_da = check_error(name, ref, dense ^ arb, dt, unit_effects)
        if None in (e_s, e_sl, e_l, e_a, e_sa, e_d, e_ds, e_da):
            continue
        if any(e_s):
            fail(f'{name}: stabilizer product flagged as logical error')
        if e_sl != e_l or e_sa != e_a or e_ds != e_d:
            fail(f'{name}: logical effect not constant on stabilizer coset')
        if [a ^ b for a, b in zip(e_d, e_a)] != e_da:
            fail(f'{name}: logical effect not additive')
        if lg and not any(e_l):
            fail(f'{name}: non-trivial logical product not detected')

    # batch interface of the logical effect agrees with the single one
    batch = np.array([to_vec(random_product(rng, ref.gens + ref.lx + ref.lz)
                             ^ (1 << int(rng.integers(2*n))), 2*n)
                      for _ in range(5)])
    eff_batch = np.asarray(get_effective_error(
        batch, code.logicals_x, code.logicals_z))
    if eff_batch.shape != (5, 2*k):
        fail(f'{name}: batched effective error shape {eff_batch.shape}')
    else:
        for row, e in zip(eff_batch, batch):
            if [int(v) for v in row] != ref.effect(to_int(e)):
                fail(f'{name}: batched effective error wrong')
    return ref


def check_run_once(name, code, error_model, decoder, rates, rng, shots=8):
    ref = Ref(code)
    for rate in rates:
        for _ in range(shots):
            res = run_once(code, error_model, decoder, error_rate=rate,
                           rng=rng)
            total = (np.asarray(res['correction']).astype(int)
                     + np.asarray(res['error']).astype(int)) % 2
            t_int = to_int(total)
            N_CHECKED[0] += 1
            if not isinstance(res['success'], bool) \
                    or not isinstance(res['codespace'], bool):
                fail(f'{name}: run_once flags are not bool')
            if res['codespace'] != ref.commutes_with_all(t_int):
                fail(f'{name}: run_once codespace={res["codespace"]} wrong '
                     f'at p={rate}')
            if res['success'] != ref.is_stabilizer(t_int):
                fail(f'{name}: run_once success={res["success"]} but '
                     f'residual in stabilizer group='
                     f'{ref.is_stabilizer(t_int)} at p={rate}')
            if [int(v) for v in res['effective_error']] != ref.effect(t_int):
                fail(f'{name}: run_once effective_error wrong at p={rate}')
            if code.is_success(total.astype('uint8')) != res['success']:
                fail(f'{name}: run_once and is_success disagree')


def make(cls, size, deformation=None):
    code = getattr(PC, cls)(*size)
    if deformation is not None:
        code.deform(deformation)
    return code


def main():
    rng = np.random.default_rng(20404)

    specs = [
        # (L=1 toric lattices and HollowRhombicCode(2,2,2) are degenerate in
        # the library itself - their "logicals" are not logicals - and are
        # therefore not codes the property can be evaluated on.)
        ('Toric2DCode', (2, 2), None), ('Toric2DCode', (2, 2), 'XY'),
        ('Toric2DCode', (2, 2), 'XZZX'),
        ('Toric2DCode', (2, 3), None), ('Toric2DCode', (3, 2), 'XY'),
        ('Toric2DCode', (3, 4), 'XZZX'), ('Toric2DCode', (4, 3), None),
        ('Planar2DCode', (2, 2), None), ('Planar2DCode', (2, 2), 'XY'),
        ('Planar2DCode', (2, 3), 'XZZX'), ('Planar2DCode', (3, 2), 'XY'),
        ('Planar2DCode', (4, 3), None),
        ('RotatedPlanar2DCode', (2, 2), 'XY'),
        ('RotatedPlanar2DCode', (2, 3), None),
        ('RotatedPlanar2DCode', (3, 2), 'XZZX'),
        ('RotatedPlanar2DCode', (2, 4), 'XY'),
        ('RotatedPlanar2DCode', (3, 5), None),
        ('RotatedPlanar2DCode', (4, 3), 'XY'),
        ('Color666PlanarCode', (1, 1), None),
        ('Color666PlanarCode', (2, 2), None),
        ('Toric3DCode', (2, 2, 2), None), ('Toric3DCode', (2, 3, 2), 'XZZX'),
        ('Planar3DCode', (2, 2, 2), None), ('Planar3DCode', (2, 3, 2), 'XZZX'),
        ('RotatedPlanar3DCode', (2, 2, 2), None),
        ('RotatedPlanar3DCode', (2, 3, 2), 'XZZX'),
        ('RhombicToricCode', (2, 2, 2), None),
        ('RhombicPlanarCode', (2, 2, 2), 'Checkerboard XZZX'),
        ('RotatedToric3DCode', (2, 2, 2), None),
        ('XCubeCode', (2, 2, 2), None), ('XCubeCode', (2, 2, 3), 'XZZX'),
        ('HollowPlanar3DCode', (3, 3, 3), None),
        ('HollowRhombicCode', (3, 3, 3), None),
    ]
    skip = set(os.environ.get('C04_SKIP', '').split(','))
    codes = {}
    for cls, size, deformation in specs:
        name = f'{cls}{size}' + (f'/{deformation}' if deformation else '')
        if cls in skip:
            continue
        code = make(cls, size, deformation)
        codes[name] = code
        check_code(name, code, rng)
        # repeated use of the same object: results must not drift
        if code.n > 8:
            check_code(name + ' (reuse)', code, rng, n_random=5)

    # --- the simulation front-end declares success iff residual stabilizer
    sims = []
    for cls, size, deformation, bias, dec in [
        ('Toric2DCode', (3, 3), None, (1/3, 1/3, 1/3), 'matching'),
        ('Toric2DCode', (2, 3), None, (0.1, 0.1, 0.8), 'bposd'),
        ('Toric2DCode', (3, 4), 'XY', (0, 0, 1), 'bposd'),
        ('Toric2DCode', (4, 3), 'XZZX', (0.05, 0.05, 0.9), 'bposd'),
        ('Planar2DCode', (3, 4), None, (1, 0, 0), 'matching'),
        ('Planar2DCode', (3, 3), 'XY', (1/3, 1/3, 1/3), 'bposd'),
        ('RotatedPlanar2DCode', (3, 5), None, (0, 1, 0), 'matching'),
        ('RotatedPlanar2DCode', (4, 3), 'XY', (0.2, 0.3, 0.5), 'bposd'),
        ('Toric3DCode', (2, 2, 3), None, (1/3, 1/3, 1/3), 'bposd'),
    ]:
        name = f'run_once {cls}{size}/{deformation}/{bias}/{dec}'
        code = make(cls, size, deformation)
        em = PauliErrorModel(*bias)
        for rate_dec in (0.1,):
            if dec == 'matching':
                decoder = MatchingDecoder(code, em, rate_dec)
            else:
                decoder = BeliefPropagationOSDDecoder(code, em, rate_dec)
            check_run_once(name, code, em, decoder,
                           [0.0, 0.05, 0.2, 0.5, 1.0], rng)
        sims.append((code, em, decoder))

    # DirectSimulation bookkeeping: success <=> codespace & trivial effect
    code, em, decoder = sims[0]
    sim = DirectSimulation(code, em, decoder, 0.3, verbose=False,
                           rng=np.random.default_rng(5))
    sim._run(25)
    r = sim._results
    for ok, cs, eff in zip(r['success'], r['codespace'], r['effective_error']):
        if bool(ok) != (bool(cs) and not np.any(eff)):
            fail('DirectSimulation: success flag inconsistent')
    stats = sim.get_results()
    if int(stats['n_fail']) != sum(1 for ok in r['success'] if not ok):
        fail('DirectSimulation: n_fail does not count the failures')

    if FAILURES:
        print(f'{len(FAILURES)} violation(s) of C04')
        sys.exit(1)
    print(f'C04 holds on {len(codes)} codes, {N_CHECKED[0]} residual errors')

    # ------------------------------------------------------------- digest
    def h(obj):
        return hashlib.sha256(repr(obj).encode()).hexdigest()[:16]

    digest = {}
    t = PC.Toric2DCode(2, 3)
    digest['toric23.stabilizer_coordinates'] = t.stabilizer_coordinates
    def op(row):
        return sorted((list(map(int, loc)), p)
                      for loc, p in t.from_bsf(row).items())

    digest['toric23.logicals_x'] = [op(r) for r in t.logicals_x]
    digest['toric23.logicals_z'] = [op(r) for r in t.logicals_z]
    e = np.zeros(2*t.n, dtype=np.uint)
    e[[0, 5, t.n + 2]] = 1
    s = t.measure_syndrome(e)
    digest['toric23.syndrome'] = (''.join(map(str, s.tolist())), str(s.dtype))
    le = t.logical_errors(e)
    digest['toric23.logical_errors'] = (le.tolist(), str(le.dtype))
    lef = t.logical_errors(e.astype(float))
    digest['toric23.logical_errors_float_dtype'] = str(lef.dtype)
    t_xy = make('Toric2DCode', (3, 2), 'XY')
    digest['toric32XY.H'] = h(t_xy.stabilizer_matrix.toarray().tolist())
    digest['toric32XY.logicals'] = h((t_xy.logicals_x.tolist(),
                                      t_xy.logicals_z.tolist()))
    for label, call in (
        ('measure_syndrome', lambda: t.measure_syndrome(np.zeros(6))),
        ('logical_errors', lambda: t.logical_errors(np.zeros(6))),
    ):
        try:
            call()
            digest['badlen.' + label] = 'no error'
        except Exception as ex:  # noqa: B902
            digest['badlen.' + label] = f'{type(ex).__name__}: {ex}'
    em = PauliErrorModel(1/3, 1/3, 1/3)
    dec = BeliefPropagationOSDDecoder(t, em, 0.1)
    res = run_once(t, em, dec, 0.1, rng=np.random.default_rng(1))
    digest['run_once.keys'] = sorted(res.keys())
    digest['run_once.effective_error_dtype'] = str(
        res['effective_error'].dtype)
    print('DIGEST', json.dumps(digest, sort_keys=True, default=str))
    print('DIGEST-SHA', h(json.dumps(digest, sort_keys=True, default=str)))


if __name__ == '__main__':
    main()
