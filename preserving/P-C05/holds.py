import os, sys; sys.path.insert(0, os.getcwd())
"""C05: decoders return valid corrections that reproduce the measured syndrome.

(a) checks the property directly on a varied set of inputs and exits 1 with a
    message on the first violation;
(b) prints a digest of concrete outputs of the functions touched by the change
    (MatchingDecoder graph order / corrections / error messages,
    UnionFindDecoder error messages, BP-OSD on non-CSS codes, sweep rule RNG).

Run from the root of a panqec tree:  /venv/bin/python /tmp/pp_out/C05/holds.py
"""
import hashlib
import itertools
import time
import warnings

warnings.filterwarnings('ignore')

import numpy as np  # noqa: E402

from panqec import codes as C  # noqa: E402
from panqec.config import CODES, DECODERS  # noqa: E402
from panqec.decoders import (  # noqa: E402
    MatchingDecoder, UnionFindDecoder, BeliefPropagationOSDDecoder,
    SweepMatchDecoder, RotatedSweepMatchDecoder, SweepDecoder3D,
    RotatedSweepDecoder3D, XCubeMatchingDecoder,
)
from panqec.error_models import PauliErrorModel  # noqa: E402

T0 = time.time()
N_CHECKS = 0
DIGESTS = {}


def fail(msg):
    print('C05 PROPERTY VIOLATED:', msg)
    sys.exit(1)


def digest_update(key, *arrays):
    h = DIGESTS.setdefault(key, hashlib.sha256())
    for a in arrays:
        if isinstance(a, (str, bytes)):
            h.update(a.encode() if isinstance(a, str) else a)
        else:
            h.update(np.ascontiguousarray(np.asarray(a), dtype=np.int64)
                     .tobytes())


def check_vector(label, code, correction):
    """Binary vector of length 2n."""
    c = np.asarray(correction)
    if c.shape != (2*code.n,):
        fail(f'{label}: correction of shape {c.shape}, expected {(2*code.n,)}')
    if not np.all((c == 0) | (c == 1)):
        fail(f'{label}: correction is not binary: {np.unique(c)}')
    return c


def check_decode(label, code, decoder, error, complete=True, sector=None,
                 digest_key=None):
    """Decode the syndrome of `error` and check the property on the result."""
    global N_CHECKS
    N_CHECKS += 1
    syndrome = code.measure_syndrome(error)
    syndrome_copy = syndrome.copy()
    try:
        correction = decoder.decode(syndrome)
    except Exception as exc:  # noqa
        fail(f'{label}: decode raised {exc!r} for error '
             f'{np.flatnonzero(error).tolist()}')
    c = check_vector(label, code, correction)
    if not np.array_equal(syndrome, syndrome_copy):
        fail(f'{label}: decode modified the syndrome it was given')
    if complete:
        got = code.measure_syndrome(c)
        if sector == 'X':      # only X errors decoded: Z-stabilizer syndrome
            ok = np.array_equal(code.extract_z_syndrome(got),
                                code.extract_z_syndrome(syndrome))
            ok = ok and not np.any(c[code.n:])
        elif sector == 'Z':
            ok = np.array_equal(code.extract_x_syndrome(got),
                                code.extract_x_syndrome(syndrome))
            ok = ok and not np.any(c[:code.n])
        else:
            ok = np.array_equal(got, syndrome)
            total = (c.astype(int) + np.asarray(error).astype(int)) % 2
            ok = ok and bool(code.in_codespace(total))
        if not ok:
            fail(f'{label}: correction does not reproduce the syndrome of '
                 f'error {np.flatnonzero(error).tolist()}')
    if digest_key is not None:
        digest_update(digest_key, c)
    return c


def check_trivial(label, code, decoder, complete=True):
    global N_CHECKS
    N_CHECKS += 1
    syndrome = np.zeros(code.n_stabilizers, dtype=np.uint)
    try:
        c = decoder.decode(syndrome)
    except Exception as exc:  # noqa
        fail(f'{label}: decode raised {exc!r} on the trivial syndrome')
    c = check_vector(label, code, c)
    if complete and np.any(c):
        fail(f'{label}: trivial syndrome gave a non-trivial correction')


def random_errors(code, error_model, rates, n_trials, rng):
    for p in rates:
        for _ in range(n_trials):
            yield error_model.generate(code, p, rng=rng)


def tiny_errors(code, rng, limit=5000):
    """All Pauli errors when there are few of them, else all pure X and all
    pure Z errors, each combined with a random partner of the other type
    (this reaches every X-type and every Z-type syndrome of a CSS code)."""
    n = code.n
    if 4**n <= limit:
        for bits in itertools.product([0, 1], repeat=2*n):
            yield np.array(bits, dtype='uint8')
    elif 2*2**n <= limit:
        for bits in itertools.product([0, 1], repeat=n):
            e = np.zeros(2*n, dtype='uint8')
            e[:n] = bits
            e[n:] = rng.integers(0, 2, n)
            yield e
            e = np.zeros(2*n, dtype='uint8')
            e[n:] = bits
            e[:n] = rng.integers(0, 2, n)
            yield e
    else:
        for _ in range(limit // 4):
            yield rng.integers(0, 2, 2*n).astype('uint8')


DIRECTIONS = [
    (1/3, 1/3, 1/3), (1, 0, 0), (0, 0, 1), (0, 1, 0), (0.05, 0.05, 0.9),
    (0.9, 0.05, 0.05),
]

# ------------------------------------------------------------------
# 0. Registry: every decoder declares codes that exist.
# ------------------------------------------------------------------
for name, cls in DECODERS.items():
    allowed = cls.allowed_codes
    if allowed is not None:
        for code_name in allowed:
            if code_name not in CODES:
                fail(f'{name} declares unknown code {code_name}')
if BeliefPropagationOSDDecoder.allowed_codes is not None:
    fail('BP-OSD no longer declares support for all codes')

# ------------------------------------------------------------------
# 1. MatchingDecoder (complete) on its three codes
# ------------------------------------------------------------------
rng = np.random.default_rng(2024)
MATCH_SIZES = {
    'Toric2DCode': [(2, 2), (2, 3), (3, 2), (3, 3), (4, 6), (7, 5)],
    'Planar2DCode': [(1, 1), (1, 2), (2, 1), (2, 2), (2, 3), (4, 3), (6, 6)],
    'RotatedPlanar2DCode': [(2, 2), (2, 3), (3, 2), (3, 3), (3, 4), (5, 5),
                            (6, 4)],
}
assert sorted(MATCH_SIZES) == sorted(MatchingDecoder.allowed_codes)
for code_name, sizes in MATCH_SIZES.items():
    for size in sizes:
        code = CODES[code_name](*size)
        tiny = code.n <= 10
        for i_dir, direction in enumerate(DIRECTIONS):
            for deformation in [None, 'XZZX', 'XY']:
                if not tiny and (i_dir + len(str(deformation))) % 2:
                    continue    # thin out the larger codes a little
                em = PauliErrorModel(*direction, deformation_name=deformation)
                for p_dec in ([0.1] if tiny else [0.0, 0.07, 0.5, 1.0]):
                    label = (f'Matching {code_name}{size} {direction} '
                             f'{deformation} p={p_dec}')
                    try:
                        dec = MatchingDecoder(code, em, p_dec)
                    except Exception as exc:  # noqa
                        fail(f'{label}: constructor raised {exc!r}')
                    # (above 50% the most likely error with a trivial
                    # syndrome is not the identity: negative weights)
                    check_trivial(label, code, dec, complete=p_dec <= 0.5)
                    key = 'matching'
                    if tiny and deformation is None and i_dir == 0:
                        for e in tiny_errors(code, rng, limit=1100):
                            check_decode(label, code, dec, e, digest_key=key)
                    for e in random_errors(code, em,
                                           [0.0, 0.03, 0.1, 0.3, 0.5, 1.0],
                                           2, rng):
                        check_decode(label, code, dec, e, digest_key=key)
                    # repeated use of the same decoder object
                    e = em.generate(code, 0.2, rng=rng)
                    c1 = check_decode(label, code, dec, e)
                    c2 = check_decode(label, code, dec, e)
                    if not np.array_equal(c1, c2):
                        fail(f'{label}: same syndrome decoded differently '
                             'by the same decoder object')
    # one sector only, and explicit weights
    code = CODES[code_name](4, 3)
    em = PauliErrorModel(0.2, 0.1, 0.7, deformation_name='XZZX')
    for error_type in ['X', 'Z']:
        dec = MatchingDecoder(code, em, 0.1, error_type=error_type)
        check_trivial(f'Matching {code_name} {error_type}', code, dec)
        for e in random_errors(code, em, [0.05, 0.2, 0.5], 6, rng):
            check_decode(f'Matching {code_name}(4,3) error_type={error_type}',
                         code, dec, e, sector=error_type,
                         digest_key='matching')
    w = (np.linspace(0.5, 3, code.n), np.linspace(4, 1, code.n))
    dec = MatchingDecoder(code, em, 0.1, weights=w)
    for e in random_errors(code, em, [0.05, 0.2, 0.5], 6, rng):
        check_decode(f'Matching {code_name}(4,3) weights', code, dec, e,
                     digest_key='matching_weights')
print(f'[{time.time()-T0:6.1f}s] matching ok, {N_CHECKS} checks', flush=True)

# internals of the matching graphs (digest only)
code = C.Toric2DCode(3, 4)
dec = MatchingDecoder(code, PauliErrorModel(0.1, 0.2, 0.7), 0.1)
for m in (dec.matcher_x, dec.matcher_z):
    for u, v, attr in m.edges():
        digest_update('matching_graph',
                      [u, -1 if v is None else v],
                      sorted(attr['fault_ids']),
                      repr(round(float(attr['weight']), 9)))

# inputs that were never valid: wrong syndrome length (digest only)
for cls, code in [(MatchingDecoder, C.Planar2DCode(3, 3)),
                  (UnionFindDecoder, C.Toric2DCode(3, 3))]:
    dec = cls(code, PauliErrorModel(1/3, 1/3, 1/3), 0.1)
    for bad in [np.zeros(code.n_stabilizers + 1, dtype=np.uint),
                np.zeros((1, code.n_stabilizers), dtype=np.uint)]:
        try:
            dec.decode(bad)
            fail(f'{cls.__name__} accepted a syndrome of shape {bad.shape}')
        except SystemExit:
            raise
        except Exception as exc:  # noqa
            digest_update('invalid_input', type(exc).__name__, str(exc))

# ------------------------------------------------------------------
# 2. UnionFindDecoder (complete) on Toric2DCode
#    (lattices with a side of length 2 have doubled edges, which this
#    decoder has never handled; they are outside this check)
# ------------------------------------------------------------------
assert UnionFindDecoder.allowed_codes == ['Toric2DCode']
rng = np.random.default_rng(77)
em = PauliErrorModel(1/3, 1/3, 1/3)
code = C.Toric2DCode(3, 3)
dec = UnionFindDecoder(code, em, 0.1)
check_trivial('UnionFind Toric2DCode(3,3)', code, dec)
# exhaustive over the syndromes of each sector: all even subsets of the 9
# vertices / 9 faces; realised by Pauli errors found by solving H e = s.
Hx, Hz = code.Hx.toarray() % 2, code.Hz.toarray() % 2
sector_errors = {}
for name, H in [('x', Hx), ('z', Hz)]:
    found = {}
    # breadth-first over error weight until all 2^(m-1) syndromes are met
    target = 2**(H.shape[0] - 1)
    for weight in range(0, H.shape[1] + 1):
        for support in itertools.combinations(range(H.shape[1]), weight):
            e = np.zeros(H.shape[1], dtype='uint8')
            e[list(support)] = 1
            s = tuple((H @ e % 2).tolist())
            found.setdefault(s, e)
        if len(found) == target:
            break
    if len(found) != target:
        fail('could not enumerate the syndromes of Toric2DCode(3,3)')
    sector_errors[name] = list(found.values())
n = code.n
for i, (ez, ex) in enumerate(zip(sector_errors['x'], sector_errors['z'])):
    # Hx detects Z errors, Hz detects X errors
    e = np.concatenate([ex, ez]).astype('uint8')
    check_decode('UnionFind Toric2DCode(3,3) exhaustive', code, dec, e,
                 digest_key='union_find')
for size in [(3, 4), (5, 3), (4, 4), (6, 5), (8, 8)]:
    code = C.Toric2DCode(*size)
    for direction, deformation in [((1/3, 1/3, 1/3), None),
                                   ((0.05, 0.05, 0.9), 'XZZX'),
                                   ((0, 0, 1), 'XY'), ((1, 0, 0), None)]:
        em = PauliErrorModel(*direction, deformation_name=deformation)
        label = f'UnionFind Toric2DCode{size} {direction} {deformation}'
        try:
            dec = UnionFindDecoder(code, em, 0.1)
        except Exception as exc:  # noqa
            fail(f'{label}: constructor raised {exc!r}')
        check_trivial(label, code, dec)
        for e in random_errors(code, em, [0.01, 0.05, 0.15, 0.3, 0.5], 3,
                               rng):
            check_decode(label, code, dec, e, digest_key='union_find')
print(f'[{time.time()-T0:6.1f}s] union-find ok, {N_CHECKS} checks',
      flush=True)

# ------------------------------------------------------------------
# 3. BP-OSD (complete) on every code, CSS and non-CSS, deformed or not
# ------------------------------------------------------------------
rng = np.random.default_rng(4242)
BPOSD_SIZES = {
    'Toric2DCode': [(2, 2), (3, 4)],
    'Planar2DCode': [(1, 2), (2, 2), (2, 3)],
    'RotatedPlanar2DCode': [(2, 2), (3, 4)],
    'Color666PlanarCode': [(2,), (3,)],
    'Color666ToricCode': [(2,)],
    'Color488Code': [(2,)],
    'Color3DCode': [(2,)],
    'Toric3DCode': [(2, 3, 2)],
    'Planar3DCode': [(2, 2, 3)],
    'RotatedPlanar3DCode': [(2, 3, 2)],
    'RotatedToric3DCode': [(2, 2, 2)],
    'RhombicToricCode': [(2,)],
    'RhombicPlanarCode': [(2,)],
    'XCubeCode': [(2, 3, 2)],
    'HollowPlanar3DCode': [(3,)],
    'HollowRhombicCode': [(4,)],
}
assert sorted(BPOSD_SIZES) == sorted(CODES)
for code_name, sizes in BPOSD_SIZES.items():
    cls = CODES[code_name]
    deformations = [None] + list(getattr(cls, 'deformation_names', []))
    for size in sizes:
        for code_deformation in deformations:
            code = cls(*size)
            if code_deformation is not None:
                code.deform(code_deformation)
            css = bool(code.is_css)
            kind = 'css' if css else 'noncss'
            for i_dir, direction in enumerate(
                [(1/3, 1/3, 1/3), (0, 0, 1), (0.05, 0.05, 0.9), (1, 0, 0)]
            ):
                noise_deformation = deformations[i_dir % len(deformations)]
                em = PauliErrorModel(*direction,
                                     deformation_name=noise_deformation)
                options = [dict(max_bp_iter=30)]
                if i_dir == 0:
                    options.append(dict(max_bp_iter=5, osd_order=0,
                                        bp_method='product_sum'))
                if css and i_dir in (0, 2):
                    options.append(dict(max_bp_iter=30, channel_update=True))
                for kwargs in options:
                    for p_dec in [0.1, 0.45]:
                        label = (f'BPOSD {code_name}{size} code-deformation='
                                 f'{code_deformation} {kind} {direction} '
                                 f'noise-deformation={noise_deformation} '
                                 f'p={p_dec} {kwargs}')
                        try:
                            dec = BeliefPropagationOSDDecoder(
                                code, em, p_dec, **kwargs
                            )
                        except Exception as exc:  # noqa
                            fail(f'{label}: constructor raised {exc!r}')
                        check_trivial(label, code, dec)
                        key = f'bposd_{kind}'
                        if (code.n <= 5 and i_dir == 0
                                and kwargs == options[0] and p_dec == 0.1):
                            for e in tiny_errors(code, rng, limit=1100):
                                check_decode(label, code, dec, e,
                                             digest_key=key)
                        for e in random_errors(code, em,
                                               [0.0, 0.03, 0.1, 0.3, 0.5],
                                               2, rng):
                            check_decode(label, code, dec, e, digest_key=key)
                        # the same object again, after other syndromes
                        check_trivial(label, code, dec)
print(f'[{time.time()-T0:6.1f}s] bp-osd ok, {N_CHECKS} checks', flush=True)

# ------------------------------------------------------------------
# 4. Sweep + matching decoders (not complete: valid vector, no exception)
# ------------------------------------------------------------------
rng = np.random.default_rng(99)
SWEEP = [
    (SweepMatchDecoder, 'Toric3DCode', [(2, 2, 2), (2, 3, 4), (3, 3, 3)]),
    (SweepMatchDecoder, 'Planar3DCode', [(1, 1, 1), (2, 2, 2), (2, 3, 4),
                                         (3, 3, 3)]),
    (RotatedSweepMatchDecoder, 'RotatedPlanar3DCode',
     [(2, 2, 2), (2, 3, 2), (3, 3, 3), (3, 4, 2)]),
    (RotatedSweepMatchDecoder, 'RotatedToric3DCode',
     [(2, 2, 2), (4, 2, 3), (2, 4, 2)]),
]
for dec_cls, code_name, sizes in SWEEP:
    assert code_name in dec_cls.allowed_codes
    for size in sizes:
        code = CODES[code_name](*size)
        for direction, deformation in [((1/3, 1/3, 1/3), None),
                                       ((0, 0, 1), 'XZZX'),
                                       ((0.05, 0.05, 0.9), None),
                                       ((1, 0, 0), 'XZZX')]:
            em = PauliErrorModel(*direction, deformation_name=deformation)
            label = (f'{dec_cls.__name__} {code_name}{size} {direction} '
                     f'{deformation}')
            try:
                dec = dec_cls(code, em, 0.1)
            except Exception as exc:  # noqa
                fail(f'{label}: constructor raised {exc!r}')
            check_trivial(label, code, dec, complete=False)
            for e in random_errors(code, em, [0.0, 0.02, 0.1, 0.3, 0.5], 3,
                                   rng):
                c = check_decode(label, code, dec, e, complete=False,
                                 digest_key='sweepmatch')
                # the matching half of these decoders is complete
                s = code.measure_syndrome(e)
                if not np.array_equal(
                    code.extract_z_syndrome(code.measure_syndrome(c)),
                    code.extract_z_syndrome(s)
                ):
                    fail(f'{label}: X part of the correction does not '
                         'reproduce the vertex syndrome')
# the random tie-break of the sweep rule itself (digest only)
for dec_cls, code in [(SweepDecoder3D, C.Toric3DCode(3, 3, 3)),
                      (RotatedSweepDecoder3D, C.RotatedPlanar3DCode(3, 3, 3))]:
    dec = dec_cls(code, PauliErrorModel(1/3, 1/3, 1/3), 0.1)
    draws = [dec.get_default_direction() for _ in range(300)]
    if set(draws) - {0, 1, 2} or min(np.bincount(draws, minlength=3)) < 60:
        fail(f'{dec_cls.__name__}.get_default_direction is not uniform on '
             f'the three axes: {np.bincount(draws, minlength=3)}')
    digest_update('sweep_rng', draws)
print(f'[{time.time()-T0:6.1f}s] sweep-match ok, {N_CHECKS} checks',
      flush=True)

# ------------------------------------------------------------------
# 5. XCube matching decoder on cubic lattices (valid vector, no exception)
# ------------------------------------------------------------------
rng = np.random.default_rng(5)
for size in [(2, 2, 2), (3, 3, 3)]:
    code = C.XCubeCode(*size)
    em = PauliErrorModel(0.05, 0.05, 0.9)
    dec = XCubeMatchingDecoder(code, em, 0.1)
    check_trivial(f'XCubeMatching {size}', code, dec, complete=False)
    for e in random_errors(code, em, [0.01, 0.05], 3, rng):
        check_decode(f'XCubeMatching {size}', code, dec, e, complete=False,
                     digest_key='xcube')
print(f'[{time.time()-T0:6.1f}s] xcube ok, {N_CHECKS} checks', flush=True)

# ------------------------------------------------------------------
# digest
# ------------------------------------------------------------------
overall = hashlib.sha256()
for key in sorted(DIGESTS):
    d = DIGESTS[key].hexdigest()[:16]
    overall.update((key + d).encode())
    print(f'digest[{key}] = {d}')
print(f'DIGEST {overall.hexdigest()[:32]}')
print(f'C05 holds on {N_CHECKS} checks ({time.time()-T0:.0f}s)')
sys.exit(0)
