import os, sys; sys.path.insert(0, os.getcwd())  # noqa

"""C06: decoding is a pure function of the syndrome.

(a) property check; exits 1 with a message on the first failure
(b) prints a digest of concrete outputs of the functions touched by the patch
"""

import hashlib
import itertools
import time
import warnings

import numpy as np

warnings.filterwarnings('ignore')

from panqec.codes import (  # noqa: E402
    Toric2DCode, Planar2DCode, RotatedPlanar2DCode, Toric3DCode,
    Planar3DCode, RotatedPlanar3DCode, XCubeCode, Color666ToricCode
)
from panqec.error_models import PauliErrorModel  # noqa: E402
from panqec.decoders import (  # noqa: E402
    MatchingDecoder, UnionFindDecoder, BeliefPropagationOSDDecoder,
    XCubeMatchingDecoder, SweepMatchDecoder, SweepDecoder3D,
    RotatedSweepMatchDecoder
)
from panqec.decoders.union_find.uf_support import Support  # noqa: E402
from panqec.simulation._direct_simulation import run_once  # noqa: E402

T0 = time.time()
N_CHECKS = 0


def fail(msg):
    print('C06 PROPERTY FAILS:', msg)
    sys.exit(1)


def same(a, b):
    a = np.asarray(a)
    b = np.asarray(b)
    return a.shape == b.shape and bool(np.all(a == b))


# --------------------------------------------------------------------------
# syndromes
# --------------------------------------------------------------------------

def gf2_basis(vectors):
    """Basis (over GF(2)) of the span of the given 0/1 vectors."""
    basis = []
    pivots = []
    for v in vectors:
        v = v.copy() % 2
        for b, p in zip(basis, pivots):
            if v[p]:
                v = (v + b) % 2
        if v.any():
            p = int(np.nonzero(v)[0][0])
            for i in range(len(basis)):
                if basis[i][p]:
                    basis[i] = (basis[i] + v) % 2
            basis.append(v)
            pivots.append(p)
    return basis


def syndrome_set(code, rng, full_limit=64, n_sample=14):
    """(syndromes, exhaustive?)  All valid syndromes of a tiny code, or else
    a sample that contains the zero syndrome, sector-wise zero syndromes,
    single-qubit syndromes and syndromes of random errors of several
    densities."""
    n = code.n
    singles = []
    for i in range(2*n):
        e = np.zeros(2*n, dtype=np.uint)
        e[i] = 1
        singles.append(np.asarray(code.measure_syndrome(e)).astype(np.uint))
    basis = gf2_basis(singles)
    r = len(basis)
    if 2**r <= full_limit:
        out = []
        for bits in itertools.product([0, 1], repeat=r):
            s = np.zeros(code.n_stabilizers, dtype=np.uint)
            for b, v in zip(bits, basis):
                if b:
                    s = (s + v) % 2
            out.append(s.astype(np.uint))
        return out, True

    out = [np.zeros(code.n_stabilizers, dtype=np.uint)]
    seen = {out[0].tobytes()}

    def add(e):
        s = np.asarray(code.measure_syndrome(e)).astype(np.uint)
        if s.tobytes() not in seen:
            seen.add(s.tobytes())
            out.append(s)

    # sector-wise zero syndromes: pure X errors and pure Z errors
    for half in (0, 1):
        for p in (0.15, 0.4):
            e = np.zeros(2*n, dtype=np.uint)
            e[half*n:(half + 1)*n] = rng.random(n) < p
            add(e)
    # single-qubit errors
    for i in rng.choice(2*n, size=3, replace=False):
        e = np.zeros(2*n, dtype=np.uint)
        e[i] = 1
        add(e)
    # random errors
    k = 0
    while len(out) < n_sample and k < 1000:
        p = (0.05, 0.12, 0.25, 0.5)[k % 4]
        add((rng.random(2*n) < p).astype(np.uint))
        k += 1
    return out, False


# --------------------------------------------------------------------------
# the property
# --------------------------------------------------------------------------

def tables(error_model, code, error_rate):
    return [np.array(t, copy=True) for t in
            error_model.probability_distribution(code, error_rate)]


def decode_checked(decoder, s, what):
    """decode, checking that the caller's array is left alone."""
    global N_CHECKS
    arg = s.copy()
    c = decoder.decode(arg)
    if arg.dtype != s.dtype or not same(arg, s):
        fail(f'{what}: caller syndrome array modified')
    N_CHECKS += 1
    return np.asarray(c)


def check_decoder(name, make_code, make_model, error_rate, make_decoder,
                  randomised=False, pair_budget=4096, n_hist=12,
                  full_limit=64, n_sample=14, exact_part=None, seed=0,
                  reseed=None, valid_on=None):
    """make_decoder(code, error_model, error_rate) -> decoder

    For randomised decoders, `reseed(decoder, seed)` re-seeds the internal
    generator; the validity of the correction is compared with that of a
    freshly built decoder for the syndromes on which validity is not itself a
    matter of chance (same verdict under several seeds)."""
    rng = np.random.default_rng(seed)

    # shared objects, used again and again
    code = make_code()
    model = make_model()
    # separate objects for the freshly built reference decoders
    ref_code = make_code()
    ref_model = make_model()

    S, exhaustive = syndrome_set(code, rng, full_limit, n_sample)

    t_before = tables(model, code, error_rate)
    t_ref_before = tables(ref_model, ref_code, error_rate)

    def valid(c, s):
        got = np.asarray(code.measure_syndrome(c)) % 2
        if valid_on is not None:
            idx = valid_on(code)
            return same(got[idx], (s % 2)[idx])
        return same(got, s % 2)

    def agree(c, ref_c, s, what):
        if randomised:
            if exact_part is not None:
                lo, hi = exact_part(code)
                if not same(c[lo:hi], ref_c[lo:hi]):
                    fail(f'{name}: {what}: deterministic part of the '
                         'correction depends on the history')
            verdict = settled.get(s.tobytes())
            if verdict is not None and valid(c, s) != verdict:
                fail(f'{name}: {what}: validity depends on the history')
        else:
            if not same(c, ref_c):
                fail(f'{name}: {what}: correction differs from the one of a '
                     f'freshly built decoder\n  s={s}\n  got={c}\n'
                     f'  ref={ref_c}')

    # randomised decoders: syndromes whose validity is the same whatever the
    # seed of a freshly built decoder
    settled = {}
    if randomised:
        for s in S:
            verdicts = set()
            for sd in range(10):
                d = make_decoder(ref_code, ref_model, error_rate)
                if sd > 0:
                    reseed(d, sd)
                verdicts.add(valid(decode_checked(d, s, name), s))
            if len(verdicts) == 1:
                settled[s.tobytes()] = verdicts.pop()

    # reference: one freshly built decoder per syndrome
    ref = []
    for s in S:
        d = make_decoder(ref_code, ref_model, error_rate)
        ref.append(decode_checked(d, s, name))
    # ... and a fresh decoder gives the same answer twice in a row
    for i in rng.choice(len(S), size=min(4, len(S)), replace=False):
        d = make_decoder(code, model, error_rate)
        c1 = decode_checked(d, S[i], name)
        c2 = decode_checked(d, S[i], name)
        agree(c1, ref[i], S[i], 'first call')
        agree(c2, ref[i], S[i], 'same syndrome twice')

    # all ordered pairs (s1, s): fresh decoder, decode s1, then s
    pairs = list(itertools.product(range(len(S)), repeat=2))
    if len(pairs) > pair_budget:
        keep = rng.choice(len(pairs), size=pair_budget, replace=False)
        pairs = [pairs[k] for k in keep]
        all_pairs = False
    else:
        all_pairs = exhaustive
    for i, j in pairs:
        d = make_decoder(code, model, error_rate)
        decode_checked(d, S[i], name)
        c = decode_checked(d, S[j], name)
        agree(c, ref[j], S[j], f'pair ({i},{j})')

    # one long-lived decoder: every ordered pair again as consecutive calls
    # (bounded), then random histories s_1..s_m followed by s
    d = make_decoder(code, model, error_rate)
    order = list(pairs)
    rng.shuffle(order)
    for i, j in order[:600]:
        decode_checked(d, S[i], name)
        c = decode_checked(d, S[j], name)
        agree(c, ref[j], S[j], f'long-lived decoder, pair ({i},{j})')
    for _ in range(n_hist):
        m = int(rng.integers(1, 6))
        for i in rng.integers(0, len(S), size=m):
            decode_checked(d, S[int(i)], name)
        j = int(rng.integers(0, len(S)))
        c = decode_checked(d, S[j], name)
        agree(c, ref[j], S[j], f'history of length {m}')

    # other array types for the syndrome: still untouched, same answer
    if not randomised:
        j = len(S) - 1
        for dtype in (np.uint8, np.int64):
            arg = S[j].astype(dtype)
            keep_arg = arg.copy()
            c = np.asarray(d.decode(arg))
            if not same(arg, keep_arg) or arg.dtype != keep_arg.dtype:
                fail(f'{name}: caller syndrome ({dtype}) modified')
            agree(c, ref[j], S[j], f'syndrome of dtype {dtype}')

    # the cached probability tables are what they were
    for before, mdl, cde in ((t_before, model, code),
                             (t_ref_before, ref_model, ref_code)):
        after = tables(mdl, cde, error_rate)
        for a, b in zip(before, after):
            if not same(a, b):
                fail(f'{name}: cached probability table altered')
    fresh_model = make_model()
    for a, b in zip(t_before, tables(fresh_model, make_code(), error_rate)):
        if not same(a, b):
            fail(f'{name}: cached probability table differs from that of a '
                 'fresh error model')

    extra = f' settled={len(settled)}' if randomised else ''
    print(f'ok  {name:58s} |S|={len(S):3d} pairs={len(pairs):5d}'
          f'{" (all)" if all_pairs else ""}{extra}  t={time.time()-T0:6.1f}s')


def run_property():
    dep = lambda: PauliErrorModel(1/3, 1/3, 1/3)  # noqa: E731
    zbias = lambda: PauliErrorModel(0.05, 0.05, 0.9)  # noqa: E731
    xzzx = lambda: PauliErrorModel(  # noqa: E731
        0.02, 0.08, 0.9, deformation_name='XZZX')
    xzzx_x = lambda: PauliErrorModel(  # noqa: E731
        0.1, 0.2, 0.7, deformation_name='XZZX',
        deformation_kwargs={'deformation_axis': 'x'})
    xy = lambda: PauliErrorModel(  # noqa: E731
        0.1, 0.1, 0.8, deformation_name='XY')
    purex = lambda: PauliErrorModel(1, 0, 0)  # noqa: E731

    # ---- matching ----
    def mk_matching(**kw):
        return lambda c, m, p: MatchingDecoder(c, m, p, **kw)

    for label, mk_code, mk_model, p, kw in [
        ('Toric2D 2x2 dep', lambda: Toric2DCode(2, 2), dep, 0.1, {}),
        ('Toric2D 2x3 XZZX', lambda: Toric2DCode(2, 3), xzzx, 0.2, {}),
        ('Toric2D 3x2 XY', lambda: Toric2DCode(3, 2), xy, 0.3, {}),
        ('Toric2D 3x3 dep', lambda: Toric2DCode(3, 3), dep, 0.05, {}),
        ('Toric2D 4x3 zbias type X', lambda: Toric2DCode(4, 3), zbias, 0.1,
         {'error_type': 'X'}),
        ('Toric2D 3x4 XZZX(x) type Z', lambda: Toric2DCode(3, 4), xzzx_x,
         0.1, {'error_type': 'Z'}),
        ('Planar2D 2x2 dep', lambda: Planar2DCode(2, 2), dep, 0.1, {}),
        ('Planar2D 2x3 XZZX', lambda: Planar2DCode(2, 3), xzzx, 0.4, {}),
        ('Planar2D 3x2 XY p=0.5', lambda: Planar2DCode(3, 2), xy, 0.5, {}),
        ('RotatedPlanar2D 3x3 dep', lambda: RotatedPlanar2DCode(3, 3), dep,
         0.1, {}),
        ('RotatedPlanar2D 3x5 XZZX', lambda: RotatedPlanar2DCode(3, 5), xzzx,
         0.1, {}),
        ('RotatedPlanar2D 2x4 pureX p=1e-9', lambda: RotatedPlanar2DCode(
            2, 4), purex, 1e-9, {}),
    ]:
        check_decoder('Matching ' + label, mk_code, mk_model, p,
                      mk_matching(**kw), pair_budget=4096, n_sample=24)

    # explicit weights
    def mk_weighted(c, m, p):
        w = np.linspace(1, 2, c.n)
        return MatchingDecoder(c, m, p, weights=(w, w[::-1].copy()))
    check_decoder('Matching Toric2D 3x3 explicit weights',
                  lambda: Toric2DCode(3, 3), dep, 0.1, mk_weighted,
                  n_sample=24)

    # ---- union find ----
    for label, mk_code, mk_model, p, budget in [
        ('Toric2D 2x2 dep', lambda: Toric2DCode(2, 2), dep, 0.1, 700),
        ('Toric2D 3x3 zbias', lambda: Toric2DCode(3, 3), zbias, 0.1, 160),
        ('Toric2D 3x4 XZZX', lambda: Toric2DCode(3, 4), xzzx, 0.2, 120),
        ('Toric2D 5x4 XY', lambda: Toric2DCode(5, 4), xy, 0.2, 60),
    ]:
        check_decoder('UnionFind ' + label, mk_code, mk_model, p,
                      lambda c, m, p: UnionFindDecoder(c, m, p),
                      pair_budget=budget, n_hist=6)

    # ---- BP-OSD ----
    def mk_bposd(**kw):
        return lambda c, m, p: BeliefPropagationOSDDecoder(c, m, p, **kw)

    for label, mk_code, mk_model, p, kw, budget in [
        ('Toric2D 2x2 dep', lambda: Toric2DCode(2, 2), dep, 0.1, {}, 4096),
        ('Toric2D 2x2 dep channel_update', lambda: Toric2DCode(2, 2), dep,
         0.1, {'channel_update': True}, 4096),
        ('Toric2D 2x2 XZZX channel_update p=0.45', lambda: Toric2DCode(2, 2),
         xzzx, 0.45, {'channel_update': True, 'osd_order': 2}, 4096),
        ('Planar2D 2x2 XY channel_update', lambda: Planar2DCode(2, 2), xy,
         0.3, {'channel_update': True, 'osd_order': 0}, 4096),
        ('Toric2D 3x2 XY osd0', lambda: Toric2DCode(3, 2), xy, 0.2,
         {'osd_order': 0, 'max_bp_iter': 5}, 900),
        ('Toric2D 3x4 zbias channel_update', lambda: Toric2DCode(3, 4), zbias,
         0.2, {'channel_update': True, 'max_bp_iter': 3}, 900),
        ('RotatedPlanar2D 3x5 XZZX product_sum',
         lambda: RotatedPlanar2DCode(3, 5), xzzx, 0.1,
         {'bp_method': 'product_sum', 'max_bp_iter': 4}, 900),
        ('Color666Toric 3x3 dep channel_update',
         lambda: Color666ToricCode(3, 3), dep, 0.15,
         {'channel_update': True, 'max_bp_iter': 2}, 600),
        ('Toric3D 2x3x2 XZZX channel_update', lambda: Toric3DCode(2, 3, 2),
         xzzx, 0.3, {'channel_update': True, 'max_bp_iter': 2}, 600),
        ('Planar3D 2x2x3 dep p=0.9 channel_update',
         lambda: Planar3DCode(2, 2, 3), dep, 0.9,
         {'channel_update': True, 'max_bp_iter': 2, 'osd_order': 1}, 400),
    ]:
        check_decoder('BPOSD ' + label, mk_code, mk_model, p, mk_bposd(**kw),
                      pair_budget=budget, n_sample=24)

    # BP-OSD whose error rate / error model is changed between calls: the
    # correction must be the one of a decoder freshly built with the current
    # settings (guards any caching of loaded channel probabilities)
    code = Toric2DCode(3, 3)
    m1, m2 = zbias(), xzzx()
    rng = np.random.default_rng(11)
    S, _ = syndrome_set(code, rng, n_sample=10)
    for cu in (False, True):
        d = BeliefPropagationOSDDecoder(code, m1, 0.1, channel_update=cu,
                                        max_bp_iter=2)
        for step in range(40):
            mdl = (m1, m2)[int(rng.integers(2))]
            p = (0.1, 0.3, 0.02)[int(rng.integers(3))]
            d.error_model = mdl
            d.error_rate = p
            s = S[int(rng.integers(len(S)))]
            c = decode_checked(d, s, 'BPOSD settings')
            f = BeliefPropagationOSDDecoder(code, mdl, p, channel_update=cu,
                                            max_bp_iter=2)
            if not same(c, f.decode(s.copy())):
                fail('BPOSD with changing error rate/model: correction '
                     'differs from a freshly built decoder')
    print(f'ok  BPOSD with settings changed between calls'
          f'{"":28s} t={time.time()-T0:6.1f}s')

    # ---- X-cube (matching + BP-OSD inside) ----
    check_decoder('XCubeMatching XCube 2x2x2 zbias',
                  lambda: XCubeCode(2, 2, 2), zbias, 0.1,
                  lambda c, m, p: XCubeMatchingDecoder(c, m, p),
                  pair_budget=36, n_hist=4, n_sample=8, seed=3)
    check_decoder('XCubeMatching XCube 3x3x3 dep',
                  lambda: XCubeCode(3, 3, 3), dep, 0.1,
                  lambda c, m, p: XCubeMatchingDecoder(c, m, p),
                  pair_budget=25, n_hist=3, n_sample=7, seed=4)

    # ---- randomised sweep decoders: validity is history independent, and
    # the (deterministic) matching part is exactly history independent ----
    x_part = lambda c: (0, c.n)  # noqa: E731

    def reseed_sweepmatch(d, sd):
        d.sweeper._rng = np.random.default_rng(sd)

    def reseed_sweep(d, sd):
        d._rng = np.random.default_rng(sd)
    check_decoder('SweepMatch Toric3D 2x2x2 dep',
                  lambda: Toric3DCode(2, 2, 2), dep, 0.1,
                  lambda c, m, p: SweepMatchDecoder(c, m, p),
                  randomised=True, exact_part=x_part, pair_budget=100,
                  n_hist=5, n_sample=10, reseed=reseed_sweepmatch)
    check_decoder('SweepMatch Planar3D 2x3x2 XZZX',
                  lambda: Planar3DCode(2, 3, 2), xzzx, 0.1,
                  lambda c, m, p: SweepMatchDecoder(c, m, p),
                  randomised=True, exact_part=x_part, pair_budget=64,
                  n_hist=4, n_sample=8, reseed=reseed_sweepmatch)
    check_decoder('SweepDecoder3D Toric3D 3x3x3 zbias (X stabilizers)',
                  lambda: Toric3DCode(3, 3, 3), zbias, 0.1,
                  lambda c, m, p: SweepDecoder3D(c, m, p),
                  randomised=True, pair_budget=64, n_hist=4, n_sample=8,
                  reseed=reseed_sweep,
                  valid_on=lambda c: np.asarray(c.x_indices))
    check_decoder('RotatedSweepMatch RotatedPlanar3D 2x2x2 dep',
                  lambda: RotatedPlanar3DCode(2, 2, 2), dep, 0.1,
                  lambda c, m, p: RotatedSweepMatchDecoder(c, m, p),
                  randomised=True, exact_part=x_part, pair_budget=49,
                  n_hist=4, n_sample=7, reseed=reseed_sweepmatch)

    # ---- through the simulation entry point, same objects all along ----
    code = Toric2DCode(3, 4)
    model = xzzx()
    t_before = tables(model, code, 0.2)
    for mk in (lambda: MatchingDecoder(code, model, 0.2),
               lambda: BeliefPropagationOSDDecoder(
                   code, model, 0.2, channel_update=True, max_bp_iter=3),
               lambda: UnionFindDecoder(code, model, 0.2)):
        d = mk()
        rng = np.random.default_rng(7)
        for _ in range(25):
            r = run_once(code, model, d, 0.2, rng=rng)
            if not same(r['syndrome'], code.measure_syndrome(r['error'])):
                fail('run_once: syndrome handed to the decoder was altered')
            c = mk().decode(np.array(r['syndrome'], copy=True))
            if not same(c, r['correction']):
                fail(f'run_once with a reused {type(d).__name__}: correction '
                     'differs from a freshly built decoder')
    for a, b in zip(t_before, tables(model, code, 0.2)):
        if not same(a, b):
            fail('run_once: cached probability table altered')
    print(f'ok  run_once with reused decoders{"":41s} '
          f't={time.time()-T0:6.1f}s')


# --------------------------------------------------------------------------
# digest of concrete outputs of the changed functions
# --------------------------------------------------------------------------

class CountingProxy:
    """Stands in for an ldpc decoder and counts update_channel_probs."""

    def __init__(self, inner, counter):
        self._inner = inner
        self._counter = counter

    def update_channel_probs(self, probs):
        self._counter[0] += 1
        return self._inner.update_channel_probs(probs)

    def decode(self, s):
        return self._inner.decode(s)


def digest():
    h = hashlib.sha256()
    lines = []

    def put(tag, arr):
        arr = np.asarray(arr)
        h.update(tag.encode())
        h.update(np.ascontiguousarray(arr.astype(np.int64)).tobytes())

    rng = np.random.default_rng(2024)

    # 1. MatchingDecoder.decode
    n_w = 0
    for code, model, p in [
        (Toric2DCode(3, 3), PauliErrorModel(1/3, 1/3, 1/3), 0.1),
        (Toric2DCode(4, 5), PauliErrorModel(
            0.1, 0.1, 0.8, deformation_name='XZZX'), 0.2),
        (Planar2DCode(3, 4), PauliErrorModel(
            0.1, 0.1, 0.8, deformation_name='XY'), 0.2),
        (RotatedPlanar2DCode(5, 5), PauliErrorModel(1/3, 1/3, 1/3), 0.1),
    ]:
        d = MatchingDecoder(code, model, p)
        wx, wz = model.get_weights(code, p)
        for k in range(40):
            e = (rng.random(2*code.n) < 0.25).astype(np.uint)
            c = d.decode(code.measure_syndrome(e))
            put('matching', c)
            n_w += int(np.sum(c))
            if k == 0:
                lines.append(f'matching {code.label}: '
                             + ''.join(map(str, np.asarray(c).tolist())))
    lines.append(f'matching total correction weight: {n_w}')

    # 2. Support._smallest_invalid_cluster / UnionFindDecoder.decode
    code = Toric2DCode(4, 4)
    d = UnionFindDecoder(code, PauliErrorModel(1/3, 1/3, 1/3), 0.1)
    for k in range(25):
        e = (rng.random(2*code.n) < 0.2).astype(np.uint)
        c = d.decode(code.measure_syndrome(e))
        put('uf', c)
        if k == 0:
            lines.append('union-find Toric 4x4: '
                         + ''.join(map(str, np.asarray(c).tolist())))
    s = np.zeros(code.Hx.shape[0], dtype=np.uint)
    s[[0, 5, 10, 15]] = 1
    sup = Support(s, code.Hx)
    forest = sup._init_cluster_forest()
    sml, inv = Support._smallest_invalid_cluster(set(forest.values()))
    lines.append(f'smallest invalid cluster: root {sml.get_root()}, '
                 f'invalid roots {[int(c.get_root()) for c in inv]}')

    # 3. PauliErrorModel.probability_distribution
    model = PauliErrorModel(0.1, 0.2, 0.7, deformation_name='XZZX')
    code = Toric2DCode(2, 3)
    t = model.probability_distribution(code, 0.3)
    for a in t:
        put('table', np.round(np.asarray(a)*1e12))
    lines.append('tables writeable: '
                 + str([bool(a.flags.writeable) for a in t]))
    lines.append('tables cached (same object twice): '
                 + str(model.probability_distribution(code, 0.3) is t))
    lines.append('lru cache attribute: '
                 + str(hasattr(PauliErrorModel.probability_distribution,
                               'cache_info')))
    lines.append('per-model cache attribute: '
                 + str('_distribution_cache' in model.__dict__))
    lines.append('p_x: ' + str(np.asarray(t[1]).tolist()))

    # 4. BeliefPropagationOSDDecoder.decode
    code = Toric2DCode(3, 4)
    for cu in (False, True):
        d = BeliefPropagationOSDDecoder(
            code, PauliErrorModel(1/3, 1/3, 1/3), 0.1, channel_update=cu)
        d.initialize_decoders()
        counter = [0]
        d.x_decoder = CountingProxy(d.x_decoder, counter)
        d.z_decoder = CountingProxy(d.z_decoder, counter)
        for k in range(6):
            e = (rng.random(2*code.n) < 0.15).astype(np.uint)
            c = d.decode(code.measure_syndrome(e))
            put('bposd', c)
        lines.append(f'bposd channel_update={cu}: {counter[0]} loads of '
                     'channel probabilities in 6 decodes')

    lines.append('sha256 of all corrections/tables: ' + h.hexdigest())
    return lines


if __name__ == '__main__':
    run_property()
    print(f'C06 holds ({N_CHECKS} decodes checked, '
          f'{time.time()-T0:.1f}s)')
    print('=== DIGEST ===')
    for line in digest():
        print(line)
    sys.exit(0)
