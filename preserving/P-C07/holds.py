import os, sys; sys.path.insert(0, os.getcwd())  # noqa
import hashlib
import itertools
import warnings
import numpy as np

from panqec.codes import (
    Toric2DCode, Planar2DCode, RotatedPlanar2DCode, Toric3DCode,
    RotatedPlanar3DCode, Color666PlanarCode
)
from panqec.error_models import PauliErrorModel
from panqec.decoders import BeliefPropagationOSDDecoder, MatchingDecoder

FAILURES = []
DIGEST = []


def fail(msg):
    FAILURES.append(msg)
    print('PROPERTY FAILURE:', msg)
    if len(FAILURES) > 20:
        finish()


def finish():
    if FAILURES:
        print(f'{len(FAILURES)} property failure(s)')
        sys.exit(1)
    text = '\n'.join(DIGEST)
    print(text)
    print('DIGEST', hashlib.sha256(text.encode()).hexdigest())
    sys.exit(0)


class StubRng:
    """Hands out a prescribed sequence of uniform variates, whether they
    are asked one by one or several at once."""

    def __init__(self, values):
        self.values = list(values)
        self.position = 0

    def random(self, size=None):
        if size is None:
            value = self.values[self.position]
            self.position += 1
            return value
        count = int(np.prod(size))
        out = np.array(self.values[self.position:self.position + count],
                       dtype=float)
        assert len(out) == count, 'not enough variates in the stub'
        self.position += count
        return out.reshape(size)


DIRECTIONS = [
    (1/3, 1/3, 1/3),
    (0.2, 0.3, 0.5),
    (0.25, 0.25, 0.5),
    (0.5, 0.125, 0.375),
    (0.01, 0.01, 0.98),          # biased
    (1, 0, 0), (0, 1, 0), (0, 0, 1),       # vertices
    (0.5, 0.5, 0), (0, 0.25, 0.75), (0.75, 0, 0.25),   # faces
]
RATES = [0, 1e-9, 0.001, 0.1, 0.25, 0.5, 0.9, 1 - 2**-20, 1]


def configurations():
    """(name, code, deformation_name, deformation_kwargs)"""
    out = []
    out.append(('Toric2D 3x4', Toric2DCode(3, 4), None, None))
    out.append(('Toric2D 3x4 XZZX', Toric2DCode(3, 4), 'XZZX', None))
    out.append(('Toric2D 4x3 XZZX x', Toric2DCode(4, 3), 'XZZX',
                {'deformation_axis': 'x'}))
    out.append(('Toric2D 2x3 XY', Toric2DCode(2, 3), 'XY', None))
    out.append(('Planar2D 3x2', Planar2DCode(3, 2), None, None))
    out.append(('Planar2D 2x4 XZZX', Planar2DCode(2, 4), 'XZZX', None))
    out.append(('Planar2D 3x3 XY', Planar2DCode(3, 3), 'XY', None))
    out.append(('RotPlanar2D 3x5', RotatedPlanar2DCode(3, 5), None, None))
    out.append(('RotPlanar2D 3x5 XZZX', RotatedPlanar2DCode(3, 5), 'XZZX',
                None))
    out.append(('RotPlanar2D 4x3 XY', RotatedPlanar2DCode(4, 3), 'XY', None))
    out.append(('Toric3D 2x3x4', Toric3DCode(2, 3, 4), None, None))
    out.append(('Toric3D 2x3x2 XZZX z', Toric3DCode(2, 3, 2), 'XZZX',
                {'deformation_axis': 'z'}))
    out.append(('Toric3D 3x2x2 XZZX x', Toric3DCode(3, 2, 2), 'XZZX',
                {'deformation_axis': 'x'}))
    out.append(('RotPlanar3D 2x3x2', RotatedPlanar3DCode(2, 3, 2), None,
                None))
    out.append(('Color666 4', Color666PlanarCode(4), None, None))
    return out


def expected_distribution(code, direction, p, name, kwargs):
    """The stated channel, computed independently of the error model."""
    r = dict(zip('XYZ', direction))
    n = code.n
    exp = {'I': np.array([1 - p] * n, dtype=float)}
    for s in 'XYZ':
        exp[s] = np.zeros(n)
    for i, loc in enumerate(code.qubit_coordinates):
        if name is None:
            deformation = {'X': 'X', 'Y': 'Y', 'Z': 'Z'}
        else:
            deformation = code.get_deformation(loc, name, **(kwargs or {}))
        assert sorted(deformation.values()) == ['X', 'Y', 'Z']
        for s in 'XYZ':
            exp[s][i] = p * r[deformation[s]]
    return exp


def bsf_to_letters(error, n):
    table = {(0, 0): 'I', (1, 0): 'X', (1, 1): 'Y', (0, 1): 'Z'}
    return ''.join(table[(int(error[i]), int(error[n + i]))]
                   for i in range(n))


def check_output_format(error, n, where):
    if not isinstance(error, np.ndarray):
        fail(f'{where}: sample is {type(error)}, not ndarray')
        return False
    if error.shape != (2 * n,):
        fail(f'{where}: sample shape {error.shape}, expected {(2*n,)}')
        return False
    if not np.all((error == 0) | (error == 1)):
        fail(f'{where}: sample not binary')
        return False
    if not (np.issubdtype(error.dtype, np.integer)
            or error.dtype == bool):
        fail(f'{where}: sample dtype {error.dtype}')
        return False
    return True


def make_model(direction, name, kwargs):
    if name is None:
        return PauliErrorModel(*direction)
    if kwargs is None:
        return PauliErrorModel(*direction, deformation_name=name)
    return PauliErrorModel(*direction, deformation_name=name,
                           deformation_kwargs=kwargs)


# ---------------------------------------------------------------------------
# 1. The distribution is the stated channel
# ---------------------------------------------------------------------------
def check_distribution(configs):
    n_checked = 0
    for (label, code, name, kwargs) in configs:
        for direction in DIRECTIONS:
            model = make_model(direction, name, kwargs)
            for p in RATES:
                where = f'{label} r={direction} p={p}'
                exp = expected_distribution(code, direction, p, name, kwargs)
                for repeat in range(2):   # repeated use of the same objects
                    dist = model.probability_distribution(code, p)
                    if len(dist) != 4:
                        fail(f'{where}: {len(dist)} arrays returned')
                        continue
                    got = dict(zip('IXYZ', [np.asarray(a) for a in dist]))
                    for s in 'IXYZ':
                        if got[s].shape != (code.n,):
                            fail(f'{where}: p_{s} shape {got[s].shape}')
                        elif not np.allclose(got[s], exp[s], rtol=1e-13,
                                             atol=1e-300):
                            fail(f'{where}: p_{s} is not the stated channel')
                        elif np.any(got[s] < 0):
                            fail(f'{where}: negative probability p_{s}')
                    total = got['I'] + got['X'] + got['Y'] + got['Z']
                    if not np.allclose(total, 1, rtol=0, atol=1e-12):
                        fail(f'{where}: probabilities do not sum to 1')
                    # exact zeros stay exact zeros (faces and vertices)
                    for s in 'XYZ':
                        if np.any((exp[s] == 0) != (got[s] == 0)):
                            fail(f'{where}: support of p_{s} is wrong')
                n_checked += 1
    return n_checked


# ---------------------------------------------------------------------------
# 2. Sampling is faithful for every value of the uniform variate
# ---------------------------------------------------------------------------
GRID_M = 1024
GRID = (np.arange(GRID_M) + 0.5) / GRID_M
# NB: the very last representable variates (1 - 2**-53 ...) are left out on
# purpose: in the unmodified tree the accumulated thresholds can round to
# slightly less than one (e.g. 0.999 + 0.0005 + 0.0005), and such a variate
# then falls through to the last option 'Z' even when p_Z = 0. This rounding
# artefact of the original code is not what this script is about.
EDGE_VARIATES = [0.0, 2.0**-60, 2.0**-30, 0.5, 1 - 2.0**-30, 1 - 2.0**-40]


def sample_with_variates(model, code, p, variates):
    rng = StubRng(variates)
    error = model.generate(code, p, rng=rng)
    if rng.position != code.n:
        fail(f'{rng.position} variates consumed for {code.n} qubits')
    return error


def check_sampling_map(configs):
    """With the same variate u given to every qubit, look at the Pauli as a
    function of u: the set of u giving each Pauli must have the measure
    stated by the channel; probability zero Paulis never appear."""
    n_checked = 0
    rates = [0, 0.001, 0.1, 0.5, 0.9, 1]
    for (label, code, name, kwargs) in configs:
        n = code.n
        for direction in DIRECTIONS:
            model = make_model(direction, name, kwargs)
            for p in rates:
                where = f'{label} r={direction} p={p}'
                exp = expected_distribution(code, direction, p, name, kwargs)
                counts = {s: np.zeros(n) for s in 'IXYZ'}
                for u in list(GRID) + EDGE_VARIATES:
                    error = sample_with_variates(model, code, p, [u] * n)
                    if not check_output_format(error, n, where):
                        return n_checked
                    letters = bsf_to_letters(error, n)
                    for i, s in enumerate(letters):
                        if exp[s][i] == 0:
                            fail(f'{where}: u={u!r} gives {s} on qubit {i} '
                                 'which has probability zero')
                            break
                    if p == 0 and np.any(error != 0):
                        fail(f'{where}: error at p=0 for u={u!r}')
                    if p == 1 and 'I' in letters:
                        fail(f'{where}: qubit without error at p=1, u={u!r}')
                    if u in GRID:
                        for i, s in enumerate(letters):
                            counts[s][i] += 1
                for s in 'IXYZ':
                    measure = counts[s] / GRID_M
                    # one grid cell of slack for each end of the pieces
                    if np.any(np.abs(measure - exp[s]) > 2.0 / GRID_M):
                        fail(f'{where}: measure of variates giving {s} is '
                             f'{measure} instead of {exp[s]}')
                n_checked += 1
    return n_checked


def check_independence(configs):
    """The Pauli of a qubit depends on its own variate only, and repeating
    the call with the same variates gives the same sample."""
    rs = np.random.RandomState(12345)
    n_checked = 0
    for (label, code, name, kwargs) in configs:
        n = code.n
        for direction in DIRECTIONS[:5] + DIRECTIONS[8:]:
            model = make_model(direction, name, kwargs)
            for p in [0.1, 0.5, 0.9, 1]:
                where = f'{label} r={direction} p={p}'
                u = rs.random_sample(n)
                base = bsf_to_letters(
                    sample_with_variates(model, code, p, u), n)
                again = bsf_to_letters(
                    sample_with_variates(model, code, p, u), n)
                if base != again:
                    fail(f'{where}: same variates, different samples')
                for trial in range(3):
                    v = rs.random_sample(n)
                    keep = rs.random_sample(n) < 0.5
                    w = np.where(keep, u, v)
                    mixed = bsf_to_letters(
                        sample_with_variates(model, code, p, w), n)
                    other = bsf_to_letters(
                        sample_with_variates(model, code, p, v), n)
                    for i in range(n):
                        wanted = base[i] if keep[i] else other[i]
                        if mixed[i] != wanted:
                            fail(f'{where}: qubit {i} is influenced by the '
                                 'variates of other qubits')
                            break
                n_checked += 1
    return n_checked


def check_statistics():
    """Frequencies and pairwise independence with a genuine generator."""
    n_checked = 0
    cases = [
        (Toric2DCode(3, 4), (0.2, 0.3, 0.5), 0.3, 'XZZX', None),
        (RotatedPlanar2DCode(3, 5), (0.25, 0.25, 0.5), 0.6, 'XY', None),
        (Toric3DCode(2, 3, 2), (0.5, 0.125, 0.375), 0.45, 'XZZX',
         {'deformation_axis': 'z'}),
        (Planar2DCode(3, 2), (0.01, 0.01, 0.98), 0.5, None, None),
    ]
    n_samples = 3000
    for k, (code, direction, p, name, kwargs) in enumerate(cases):
        model = make_model(direction, name, kwargs)
        exp = expected_distribution(code, direction, p, name, kwargs)
        n = code.n
        rng = np.random.default_rng(1000 + k)
        samples = np.array([
            list(bsf_to_letters(model.generate(code, p, rng=rng), n))
            for _ in range(n_samples)
        ])
        where = f'statistics case {k}'
        for s in 'IXYZ':
            freq = np.mean(samples == s, axis=0)
            sigma = np.sqrt(exp[s] * (1 - exp[s]) / n_samples)
            if np.any(np.abs(freq - exp[s]) > 5 * sigma + 1e-12):
                fail(f'{where}: frequency of {s} is {freq}, '
                     f'expected {exp[s]}')
        # pairwise independence of the "has an error" indicators
        # and of the X-part / Z-part indicators between different qubits
        for indicator in [samples != 'I',
                          (samples == 'X') | (samples == 'Y'),
                          (samples == 'Z') | (samples == 'Y')]:
            ind = indicator.astype(float)
            mean = ind.mean(axis=0)
            for i, j in itertools.combinations(range(n), 2):
                joint = np.mean(ind[:, i] * ind[:, j])
                if abs(joint - mean[i] * mean[j]) > 5 * 0.5 / np.sqrt(
                        n_samples):
                    fail(f'{where}: qubits {i} and {j} are correlated')
        n_checked += 1
    # default generator and the legacy numpy module are accepted
    code = Toric2DCode(2, 3)
    model = PauliErrorModel(0.2, 0.3, 0.5)
    for rng in [None, np.random, np.random.RandomState(3)]:
        check_output_format(model.generate(code, 0.4, rng=rng), code.n,
                            f'rng={rng}')
        if np.any(model.generate(code, 0, rng=rng) != 0):
            fail('error at p=0')
        e = model.generate(code, 1, rng=rng)
        if 'I' in bsf_to_letters(e, code.n):
            fail('missing error at p=1')
    return n_checked


# ---------------------------------------------------------------------------
# 3. Priors handed to the decoders
# ---------------------------------------------------------------------------
def check_weights(configs):
    n_checked = 0
    for (label, code, name, kwargs) in configs:
        for direction in DIRECTIONS:
            model = make_model(direction, name, kwargs)
            for p in RATES:
                where = f'{label} r={direction} p={p}'
                exp = expected_distribution(code, direction, p, name, kwargs)
                qx = exp['X'] + exp['Y']
                qz = exp['Z'] + exp['Y']
                for repeat in range(2):
                    wx, wz = model.get_weights(code, p)
                    for w, q, t in [(wx, qx, 'x'), (wz, qz, 'z')]:
                        w = np.asarray(w)
                        if w.shape != (code.n,):
                            fail(f'{where}: weights_{t} shape {w.shape}')
                            continue
                        if np.any(~np.isfinite(w)):
                            fail(f'{where}: weights_{t} not finite')
                        inner = (q > 0) & (q < 1)
                        with np.errstate(divide='ignore'):
                            llr = np.log1p(-q) - np.log(q)
                        if not np.allclose(w[inner], llr[inner],
                                           rtol=1e-9, atol=1e-9):
                            fail(f'{where}: weights_{t} are not the '
                                 'log-likelihood ratios of the marginals')
                        # regularised ends: huge weight of the right sign
                        if np.any(w[q == 0] < 40) or np.any(w[q == 1] > -40):
                            fail(f'{where}: weights_{t} at q in (0, 1) ends')
                n_checked += 1
    return n_checked


def check_matching_priors():
    n_checked = 0
    cases = [
        (Toric2DCode(3, 4), (0.2, 0.3, 0.5), 0.1, 'XZZX', None),
        (Planar2DCode(3, 2), (0.01, 0.01, 0.98), 0.2, None, None),
        (RotatedPlanar2DCode(3, 5), (0.25, 0.25, 0.5), 0.05, 'XY', None),
    ]
    for code, direction, p, name, kwargs in cases:
        model = make_model(direction, name, kwargs)
        exp = expected_distribution(code, direction, p, name, kwargs)
        decoder = MatchingDecoder(code, model, p)
        for matcher, q, t in [(decoder.matcher_x, exp['X'] + exp['Y'], 'x'),
                              (decoder.matcher_z, exp['Z'] + exp['Y'], 'z')]:
            seen = set()
            for (a, b, data) in matcher.edges():
                for fault in data['fault_ids']:
                    seen.add(fault)
                    llr = np.log((1 - q[fault]) / q[fault])
                    if not np.isclose(data['weight'], llr, rtol=1e-6):
                        fail(f'matching weight_{t} of qubit {fault} is '
                             f'{data["weight"]}, expected {llr}')
            # (parallel edges to the boundary are merged by pymatching,
            # hence not every qubit needs to label an edge)
            if len(seen) < code.n // 2:
                fail(f'matching graph {t} has too few labelled edges')
        n_checked += 1
    return n_checked


def exact_conditional(c, p_i, p_given, p_other, p_y):
    """P(other part flipped | given part flipped == c), from the joint
    distribution of one qubit."""
    if c == 1:
        return p_y / (p_given + p_y)
    return p_other / (p_i + p_other)


def check_bp_priors():
    n_checked = 0
    cases = [
        (Toric2DCode(3, 4), (0.2, 0.3, 0.5), 0.1, 'XZZX', None),
        (Toric2DCode(2, 3), (0.25, 0.25, 0.5), 0.3, 'XY', None),
        (Planar2DCode(3, 2), (0.01, 0.01, 0.98), 0.2, None, None),
        (RotatedPlanar2DCode(3, 5), (0.5, 0.125, 0.375), 0.05, 'XZZX', None),
        (Toric3DCode(2, 3, 2), (1/3, 1/3, 1/3), 0.02, 'XZZX',
         {'deformation_axis': 'z'}),
        (Color666PlanarCode(4), (0.2, 0.3, 0.5), 0.07, None, None),
        (Toric2DCode(3, 3), (0.5, 0.5, 0), 0.1, None, None),
        (Toric2DCode(3, 3), (0, 0, 1), 0.1, 'XZZX', None),
    ]
    rs = np.random.RandomState(99)
    for k, (code, direction, p, name, kwargs) in enumerate(cases):
        where = f'bp case {k}'
        n = code.n
        model = make_model(direction, name, kwargs)
        exp = expected_distribution(code, direction, p, name, kwargs)
        qx = exp['X'] + exp['Y']
        qz = exp['Z'] + exp['Y']
        for channel_update in [False, True]:
            decoder = BeliefPropagationOSDDecoder(
                code, model, p, max_bp_iter=10, osd_order=0,
                channel_update=channel_update
            )
            got = decoder.get_probabilities()
            for a, s in zip(got, 'IXYZ'):
                if not np.allclose(a, exp[s], rtol=1e-13, atol=1e-300):
                    fail(f'{where}: get_probabilities p_{s} wrong')
            for trial in range(2):   # repeated use of the same decoder
                error = model.generate(code, p,
                                       rng=np.random.default_rng(trial + 5))
                syndrome = code.measure_syndrome(error)
                correction = np.asarray(decoder.decode(syndrome))
                z_correction = correction[n:]
                if code.is_css:
                    if not np.allclose(decoder.z_decoder.channel_probs, qz,
                                       rtol=1e-12, atol=1e-300):
                        fail(f'{where}: Z channel probabilities of BP')
                    if channel_update:
                        want = np.array([
                            exact_conditional(
                                int(z_correction[i]), exp['I'][i],
                                exp['Z'][i], exp['X'][i], exp['Y'][i])
                            for i in range(n)
                        ])
                    else:
                        want = qx
                    if not np.allclose(decoder.x_decoder.channel_probs, want,
                                       rtol=1e-9, atol=1e-300):
                        fail(f'{where}: X channel probabilities of BP '
                             f'(channel_update={channel_update})')
                else:
                    if not np.allclose(decoder.decoder.channel_probs,
                                       np.hstack([qz, qx]),
                                       rtol=1e-12, atol=1e-300):
                        fail(f'{where}: channel probabilities of BP')
            # the conditional update on arbitrary corrections
            for trial in range(4):
                c = rs.randint(0, 2, size=n)
                for direction_name, given, other in [('z->x', 'Z', 'X'),
                                                     ('x->z', 'X', 'Z')]:
                    with warnings.catch_warnings():
                        warnings.simplefilter('ignore')
                        new = np.asarray(decoder.update_probabilities(
                            c, exp['X'], exp['Y'], exp['Z'],
                            direction=direction_name
                        ))
                    if new.shape != (n,):
                        fail(f'{where}: update shape {new.shape}')
                        continue
                    for i in range(n):
                        p_cond = (exp[given][i] + exp['Y'][i]
                                  if c[i] == 1 else
                                  exp['I'][i] + exp[other][i])
                        if p_cond == 0:
                            continue   # conditioning on an impossible event
                        want = exact_conditional(
                            int(c[i]), exp['I'][i], exp[given][i],
                            exp[other][i], exp['Y'][i])
                        if not np.isclose(new[i], want, rtol=1e-9,
                                          atol=1e-300):
                            fail(f'{where}: conditional {direction_name} on '
                                 f'qubit {i}: {new[i]} instead of {want}')
                            break
        n_checked += 1
    return n_checked


# ---------------------------------------------------------------------------
# Digest of concrete outputs of the changed functions
# ---------------------------------------------------------------------------
def outcome(function):
    try:
        with warnings.catch_warnings():
            warnings.simplefilter('ignore')
            value = function()
        return 'value ' + str(value)
    except Exception as error:   # noqa
        return 'raises ' + type(error).__name__


def digest():
    code = Toric2DCode(3, 4)
    model = PauliErrorModel(0.2, 0.3, 0.5, deformation_name='XZZX')
    for seed in range(3):
        e = model.generate(code, 0.6, rng=np.random.default_rng(seed))
        DIGEST.append(f'generate seed={seed}: ' + bsf_to_letters(e, code.n))
    stub = [(i + 0.5) / code.n for i in range(code.n)]
    e = model.generate(code, 0.6, rng=StubRng(stub))
    DIGEST.append('generate stub: ' + bsf_to_letters(e, code.n))
    DIGEST.append('generate p=1.5: ' + outcome(
        lambda: bsf_to_letters(model.generate(
            code, 1.5, rng=np.random.default_rng(0)), code.n)))

    first = model.probability_distribution(code, 0.25)
    second = model.probability_distribution(code, 0.25)
    DIGEST.append('distribution arrays shared between calls: ' + str(
        [a is b for a, b in zip(first, second)]))
    DIGEST.append('distribution has cache_info: ' + str(
        hasattr(PauliErrorModel.probability_distribution, 'cache_info')))
    DIGEST.append('distribution values: ' + ' '.join(
        float(a[i]).hex() for a in first for i in (0, 1)))

    wx, wz = PauliErrorModel(0.2, 0.3, 0.5).get_weights(code, 0.1)
    DIGEST.append('weights p=0.1: ' + float(wx[0]).hex() + ' '
                  + float(wz[0]).hex())
    ws = []
    for p in [0.01, 0.03, 0.07, 0.13, 0.2, 0.37, 0.61]:
        wx, wz = model.get_weights(code, p)
        ws += [float(wx[0]).hex(), float(wz[0]).hex()]
    DIGEST.append('weights sweep: ' + hashlib.sha256(
        ' '.join(ws).encode()).hexdigest()[:16])

    decoder = BeliefPropagationOSDDecoder(code, model, 0.1)
    pi, px, py, pz = model.probability_distribution(code, 0.1)
    c = np.arange(code.n) % 2
    new = decoder.update_probabilities(c, px, py, pz, direction='z->x')
    DIGEST.append('update z->x: ' + ' '.join(
        float(v).hex() for v in new[:4]))
    DIGEST.append('update, probabilities longer than correction: ' + outcome(
        lambda: len(decoder.update_probabilities(
            c[:5], px, py, pz, direction='x->z'))))
    DIGEST.append('update, correction given as a list: ' + outcome(
        lambda: len(decoder.update_probabilities(
            [int(v) for v in c], px, py, pz, direction='x->z'))))


def main():
    configs = configurations()
    print('distribution checks :', check_distribution(configs))
    print('weights checks      :', check_weights(configs))
    print('matching checks     :', check_matching_priors())
    print('bp checks           :', check_bp_priors())
    print('independence checks :', check_independence(configs))
    print('statistics checks   :', check_statistics())
    print('sampling map checks :', check_sampling_map(configs[:10:3]
                                                      + configs[10:12]))
    if not FAILURES:
        digest()
    finish()


if __name__ == '__main__':
    main()
