import os, sys; sys.path.insert(0, os.getcwd())
"""C08: Clifford deformation is one consistent single-qubit relabelling.

(a) checks the property directly on many code classes / sizes / deformation
    names / axes / noise directions / call sequences; exits 1 on failure.
(b) prints a digest of concrete outputs of the functions touched by the patch.

Run from the root of a panqec tree:  /venv/bin/python /tmp/pp_out/C08/holds.py
"""
import hashlib
import inspect
import itertools

import numpy as np

import panqec
from panqec import codes as C
from panqec.bpauli import bs_prod, brank, apply_deformation
from panqec.error_models import PauliErrorModel

assert os.path.abspath(panqec.__file__).startswith(os.getcwd()), \
    (panqec.__file__, os.getcwd())

FAILURES = []
N_CHECKS = [0]


def check(cond, msg):
    N_CHECKS[0] += 1
    if not cond:
        FAILURES.append(msg)
        print("PROPERTY VIOLATION:", msg)
        if len(FAILURES) > 20:
            sys.exit(1)


def dense(m):
    if hasattr(m, 'toarray'):
        m = m.toarray()
    return np.asarray(m).astype(np.uint8) % 2


IDENT = {'X': 'X', 'Y': 'Y', 'Z': 'Z'}
HADAMARD = {'X': 'Z', 'Y': 'Y', 'Z': 'X'}
YZ_SWAP = {'X': 'X', 'Y': 'Z', 'Z': 'Y'}
PAULI_BITS = {'I': (0, 0), 'X': (1, 0), 'Y': (1, 1), 'Z': (0, 1)}
BITS_PAULI = {v: k for k, v in PAULI_BITS.items()}


def expected_table(code, name, kwargs):
    """The relabelling the property's statement prescribes (where it does)."""
    table = []
    for loc in code.qubit_coordinates:
        if name == 'XZZX':
            default_axis = inspect.signature(
                type(code).get_deformation
            ).parameters['deformation_axis'].default
            axis = kwargs.get('deformation_axis', default_axis)
            table.append(HADAMARD if code.qubit_axis(loc) == axis else IDENT)
        elif name == 'XY':
            table.append(YZ_SWAP)
        else:
            table.append(None)   # statement only demands a fixed Clifford
    return table


def relabel(table, M):
    """Apply per-qubit relabelling D to bsf row(s) M (dense, uint8)."""
    M = np.atleast_2d(M)
    n = len(table)
    out = np.zeros_like(M)
    for i, d in enumerate(table):
        # images of X and Z generators under d, as (x, z) bit pairs
        ix, iz = PAULI_BITS[d['X']], PAULI_BITS[d['Z']]
        x, z = M[:, i], M[:, n + i]
        out[:, i] = (x * ix[0] + z * iz[0]) % 2
        out[:, n + i] = (x * ix[1] + z * iz[1]) % 2
    return out


def code_state(code):
    return (
        dense(code.stabilizer_matrix),
        dense(code.logicals_x),
        dense(code.logicals_z),
    )


def same_state(a, b):
    return all(x.shape == y.shape and np.array_equal(x, y)
               for x, y in zip(a, b))


CASES = [
    # class, sizes, [(name, kwargs), ...]
    (C.Toric2DCode, [(2, 3), (3, 2), (4, 4), (2, 5)],
     [('XZZX', {}), ('XZZX', {'deformation_axis': 'x'}),
      ('XZZX', {'deformation_axis': 'y'}), ('XY', {}),
      ('XY', {'deformation_axis': 'x'})]),
    (C.Planar2DCode, [(2, 3), (3, 2), (4, 3)],
     [('XZZX', {}), ('XZZX', {'deformation_axis': 'x'}),
      ('XZZX', {'deformation_axis': 'y'}), ('XY', {})]),
    (C.RotatedPlanar2DCode, [(2, 3), (3, 3), (4, 3), (3, 5)],
     [('XZZX', {}), ('XZZX', {'deformation_axis': 'x'}),
      ('XZZX', {'deformation_axis': 'y'}), ('XY', {})]),
    (C.Toric3DCode, [(2, 2, 3), (3, 2, 2)],
     [('XZZX', {}), ('XZZX', {'deformation_axis': 'x'}),
      ('XZZX', {'deformation_axis': 'y'}),
      ('XZZX', {'deformation_axis': 'z'})]),
    (C.Planar3DCode, [(2, 2, 3), (3, 2, 2)],
     [('XZZX', {}), ('XZZX', {'deformation_axis': 'x'}),
      ('XZZX', {'deformation_axis': 'y'}),
      ('XZZX', {'deformation_axis': 'z'})]),
    (C.RotatedPlanar3DCode, [(2, 2, 2), (3, 2, 3)],
     [('XZZX', {}), ('XZZX', {'deformation_axis': 'x'}),
      ('XZZX', {'deformation_axis': 'z'})]),
    (C.RotatedToric3DCode, [(2, 2, 2), (4, 2, 3)],
     [('XZZX', {}), ('XZZX', {'deformation_axis': 'x'}),
      ('XZZX', {'deformation_axis': 'z'})]),
    (C.XCubeCode, [(2, 2, 2), (3, 2, 2)],
     [('XZZX', {}), ('XZZX', {'deformation_axis': 'x'}),
      ('XZZX', {'deformation_axis': 'y'})]),
    (C.RhombicToricCode, [(2, 2, 2), (4, 2, 2)],
     [('Checkerboard XZZX', {})]),
    (C.RhombicPlanarCode, [(2, 2, 2), (3, 2, 2)],
     [('Checkerboard XZZX', {})]),
    (C.Color666ToricCode, [(2, 2), (4, 2)], [('X3Z3', {})]),
    (C.Color488Code, [(2, 2), (4, 2), (4, 4)], [('XXZZ', {})]),
]

NOISES = [
    (1 / 3, 1 / 3, 1 / 3), (0.1, 0.2, 0.7), (1.0, 0.0, 0.0),
    (0.0, 1.0, 0.0), (0.0, 0.0, 1.0), (0.5, 0.0, 0.5), (0.05, 0.9, 0.05),
]
ERROR_RATES = [0.0, 0.013, 0.3, 1.0]

rng = np.random.default_rng(20240817)
DIGEST = hashlib.sha256()
DIGEST_LINES = []


def dig(label, value):
    line = f"{label}: {value}"
    DIGEST_LINES.append(line)
    DIGEST.update(line.encode())


def usable(cls, size):
    try:
        c = cls(*size)
        return c.n > 0 and c.k > 0 and c.stabilizer_matrix.shape[0] > 0
    except Exception:
        return False


def check_case(cls, size, name, kwargs):
    tag = f"{cls.__name__}{size} {name} {kwargs}"
    c0 = cls(*size)
    c1 = cls(*size)
    c1.deform(name, **kwargs)
    n = c0.n

    # --- one fixed single-qubit Clifford relabelling per qubit ------------
    table = [dict(c0.get_deformation(loc, name, **kwargs))
             for loc in c0.qubit_coordinates]
    table_again = [dict(c1.get_deformation(loc, name, **kwargs))
                   for loc in c1.qubit_coordinates]
    check(table == table_again,
          f"{tag}: relabelling differs between deformed/undeformed object")
    check(c0.qubit_coordinates == c1.qubit_coordinates,
          f"{tag}: qubit coordinates changed")
    for loc, d, exp in zip(c0.qubit_coordinates, table,
                           expected_table(c0, name, kwargs)):
        check(sorted(d.keys()) == ['X', 'Y', 'Z']
              and sorted(d.values()) == ['X', 'Y', 'Z'],
              f"{tag}: {loc}: not a permutation of the Paulis: {d}")
        if exp is not None:
            check(d == exp, f"{tag}: {loc}: relabelling {d}, expected {exp}")

    # --- stabilizers / logicals are the images ---------------------------
    H0, LX0, LZ0 = code_state(c0)
    H1, LX1, LZ1 = code_state(c1)
    check(c1.n == c0.n and c1.k == c0.k,
          f"{tag}: n/k changed {(c0.n, c0.k)} -> {(c1.n, c1.k)}")
    check(H1.shape == H0.shape and np.array_equal(H1, relabel(table, H0)),
          f"{tag}: stabilizer matrix is not the image of the undeformed one")
    check(np.array_equal(LX1, relabel(table, LX0)),
          f"{tag}: logicals_x not the image")
    check(np.array_equal(LZ1, relabel(table, LZ0)),
          f"{tag}: logicals_z not the image")
    # operator-level as well
    for loc in c0.stabilizer_coordinates[::max(1, len(
            c0.stabilizer_coordinates) // 7)]:
        s0 = c0.get_stabilizer(loc)
        s1 = c1.get_stabilizer(loc)
        check({q: table[c0.qubit_index[q]][p] for q, p in s0.items()}
              == dict(s1), f"{tag}: get_stabilizer({loc}) not the image")
    # repeated calls on the same deformed object give the same thing
    for loc in c0.stabilizer_coordinates[:3]:
        check(dict(c1.get_stabilizer(loc)) == dict(c1.get_stabilizer(loc)),
              f"{tag}: get_stabilizer({loc}) not repeatable")
    check(np.array_equal(
        np.array([c1.to_bsf(op) for op in c1.get_logicals_x()]) % 2, LX1),
        f"{tag}: get_logicals_x not repeatable")

    # --- commutation relations, rank -------------------------------------
    A0 = np.vstack([H0, LX0, LZ0])
    A1 = np.vstack([H1, LX1, LZ1])
    check(np.array_equal(bs_prod(A0, A0), bs_prod(A1, A1)),
          f"{tag}: commutation relations changed")
    check(not np.any(bs_prod(H1, H1)), f"{tag}: stabilizers do not commute")
    if H0.shape[0] * H0.shape[1] < 40000:
        check(brank(H0) == brank(H1), f"{tag}: rank changed")
        check(brank(A0) == brank(A1), f"{tag}: rank (with logicals) changed")

    # --- deformed code sees D(e) as the original sees e ------------------
    basis = np.eye(2 * n, dtype=np.uint8)
    Dbasis = relabel(table, basis)
    check(np.array_equal(bs_prod(H1, Dbasis), bs_prod(H0, basis)),
          f"{tag}: syndrome of D(e) on deformed != syndrome of e (basis)")
    check(np.array_equal(bs_prod(np.vstack([LX1, LZ1]), Dbasis),
                         bs_prod(np.vstack([LX0, LZ0]), basis)),
          f"{tag}: logical effect of D(e) != that of e (basis)")
    # through the public API, single basis elements and random errors
    picks = list(rng.choice(2 * n, size=min(2 * n, 6), replace=False))
    errors = [basis[i] for i in picks]
    errors += [rng.integers(0, 2, size=2 * n).astype(np.uint8)
               for _ in range(4)]
    errors += [np.zeros(2 * n, dtype=np.uint8), np.ones(2 * n, dtype=np.uint8)]
    for e in errors:
        De = relabel(table, e)[0]
        check(np.array_equal(np.asarray(c1.measure_syndrome(De)) % 2,
                             np.asarray(c0.measure_syndrome(e)) % 2),
              f"{tag}: measure_syndrome(D(e)) mismatch")
        check(np.array_equal(np.asarray(c1.logical_errors(De)) % 2,
                             np.asarray(c0.logical_errors(e)) % 2),
              f"{tag}: logical_errors(D(e)) mismatch")
        check(c1.in_codespace(De) == c0.in_codespace(e)
              and c1.is_logical_error(De) == c0.is_logical_error(e),
              f"{tag}: in_codespace/is_logical_error mismatch")
        # D via operator dictionaries
        op = c0.from_bsf(e)
        Dop = {q: table[c0.qubit_index[q]][p] for q, p in op.items()}
        check(np.array_equal(np.asarray(c1.to_bsf(Dop)) % 2, De),
              f"{tag}: operator-level relabelling inconsistent with bsf")

    # --- noise model ------------------------------------------------------
    for (rx, ry, rz), p in itertools.product(NOISES, ERROR_RATES):
        plain = PauliErrorModel(rx, ry, rz)
        deformed = PauliErrorModel(rx, ry, rz, deformation_name=name,
                                   deformation_kwargs=dict(kwargs))
        for code in (c0, c1):
            pu = dict(zip('IXYZ', plain.probability_distribution(code, p)))
            pd = dict(zip('IXYZ', deformed.probability_distribution(code, p)))
            for P in 'IXYZ':
                check(np.shape(pd[P]) == (n,) and np.shape(pu[P]) == (n,),
                      f"{tag}: probability arrays have wrong shape")
            check(np.allclose(pd['I'], pu['I'], rtol=0, atol=0),
                  f"{tag}: identity probability changed by deformation")
            for P in 'XYZ':
                want = np.array([pu[table[i][P]][i] for i in range(n)])
                check(np.array_equal(np.asarray(pd[P]), want),
                      f"{tag}: noise {rx, ry, rz} p={p}: P_def({P}) is not "
                      f"P_undef(D({P}))")
            tot = pd['I'] + pd['X'] + pd['Y'] + pd['Z']
            check(np.allclose(tot, 1), f"{tag}: probabilities do not sum to 1")
            # whole-error probability for a few errors
            for e in errors[:5]:
                De = relabel(table, e)[0]

                def prob(pp, err):
                    return np.prod([
                        pp[BITS_PAULI[(int(err[i]), int(err[n + i]))]][i]
                        for i in range(n)])
                check(np.isclose(prob(pd, e), prob(pu, De), rtol=1e-12,
                                 atol=0),
                      f"{tag}: Pr_def(e) != Pr_undef(D(e))")
                check(np.isclose(
                    deformed.error_probability(e, code, p),
                    plain.error_probability(De, code, p), rtol=1e-12, atol=0),
                    f"{tag}: error_probability_def(e) != "
                    f"error_probability_undef(D(e))")
            # repeated use of the same model/code objects
            again = deformed.probability_distribution(code, p)
            check(all(np.array_equal(a, pd[P]) for a, P in zip(again, 'IXYZ')),
                  f"{tag}: probability_distribution not repeatable")
    # sampled errors of a maximally biased deformed model are D(all-P)
    for P, direction in zip('XYZ', [(1, 0, 0), (0, 1, 0), (0, 0, 1)]):
        m = PauliErrorModel(*direction, deformation_name=name,
                            deformation_kwargs=dict(kwargs))
        e = np.asarray(m.generate(c1, 1.0, rng=np.random.default_rng(1))) % 2
        got = c1.from_bsf(e)
        # Pr_def(e) = Pr_undef(D(e)) = 1 iff D(e) is all-P, i.e. e = D^-1(P)
        inv = [{v: k for k, v in d.items()} for d in table]
        want = {loc: inv[i][P] for i, loc in enumerate(c1.qubit_coordinates)}
        check(got == want, f"{tag}: generate at p=1, pure {P} noise")

    return table, (H1, LX1, LZ1)


def check_sequences(cls, size, variants):
    """Result of deform must not depend on history of the object."""
    ref = {}
    for name, kwargs in variants:
        c = cls(*size)
        c.deform(name, **kwargs)
        ref[(name, tuple(sorted(kwargs.items())))] = code_state(c)
    undeformed = code_state(cls(*size))
    keys = list(ref.keys())

    def touch(code, what):
        if what == 0:
            return
        if what == 1:
            code.stabilizer_matrix
        elif what == 2:
            code.logicals_x, code.logicals_z
        elif what == 3:
            code.stabilizer_matrix, code.logicals_x, code.logicals_z
            code.is_css, code.x_indices, code.z_indices, code.d, code.k
            code.qubit_index, code.stabilizer_index, code.stabilizer_types
            if code.is_css:
                code.Hx, code.Hz
        elif what == 4:
            for loc in code.stabilizer_coordinates[:4]:
                code.get_stabilizer(loc)
            code.get_logicals_x(), code.get_logicals_z()
        elif what == 5:
            PauliErrorModel(0.2, 0.3, 0.5).probability_distribution(code, 0.1)
            e = np.zeros(2 * code.n, dtype=np.uint8)
            e[0] = 1
            code.measure_syndrome(e), code.logical_errors(e)

    seqs = []
    for k1 in keys:
        for k2 in keys:
            for t0, t1 in [(0, 0), (3, 0), (0, 3), (1, 2), (4, 4), (5, 1),
                           (2, 5)]:
                seqs.append((t0, k1, t1, k2))
    for k1, k2, k3 in itertools.product(keys, repeat=3):
        seqs.append((3, k1, 4, k2, 1, k3))
    if len(seqs) > 60:
        idx = rng.choice(len(seqs), size=60, replace=False)
        seqs = [seqs[i] for i in sorted(idx)]
    for seq in seqs:
        c = cls(*size)
        touch(c, seq[0])
        if seq[0] in (1, 3):
            check(same_state(code_state(c), undeformed),
                  f"{cls.__name__}{size}: undeformed state changed")
        last = None
        for j in range(1, len(seq), 2):
            last = seq[j]
            c.deform(last[0], **dict(last[1]))
            if j + 1 < len(seq):
                touch(c, seq[j + 1])
        check(same_state(code_state(c), ref[last]),
              f"{cls.__name__}{size}: result of deform{last} depends on "
              f"history {seq}")
        check(c.is_deformed and c.deformation_name == last[0],
              f"{cls.__name__}{size}: deformation bookkeeping wrong")
        # other objects of the class are unaffected
    check(same_state(code_state(cls(*size)), undeformed),
          f"{cls.__name__}{size}: class-level state polluted by deform")


# ---------------------------------------------------------------------------
n_cases = 0
for cls, sizes, variants in CASES:
    for size in sizes:
        if not usable(cls, size):
            continue
        for name, kwargs in variants:
            check_case(cls, size, name, kwargs)
            n_cases += 1
    for size in sizes[:2]:
        if usable(cls, size):
            check_sequences(cls, size, variants)

# bpauli.apply_deformation is the Hadamard relabelling on the flagged qubits
for n in (1, 2, 5, 9):
    for _ in range(6):
        flags = rng.integers(0, 2, size=n).astype(bool)
        table = [HADAMARD if f else IDENT for f in flags]
        M = rng.integers(0, 2, size=(4, 2 * n)).astype(np.uint8)
        for fl in (flags, list(flags), [bool(f) for f in flags]):
            check(np.array_equal(apply_deformation(fl, M), relabel(table, M)),
                  "apply_deformation (2d) is not the Hadamard relabelling")
            check(np.array_equal(apply_deformation(fl, M[0]),
                                 relabel(table, M[0])[0]),
                  "apply_deformation (1d) is not the Hadamard relabelling")
        check(np.array_equal(bs_prod(M, M), bs_prod(
            apply_deformation(flags, M), apply_deformation(flags, M))),
            "apply_deformation changes commutators")
        M_before = M.copy()
        apply_deformation(flags, M)
        check(np.array_equal(M, M_before), "apply_deformation mutates input")

if FAILURES:
    print(f"{len(FAILURES)} property violations")
    sys.exit(1)
print(f"property C08 holds: {n_cases} (class,size,deformation) cases, "
      f"{N_CHECKS[0]} checks")


# ---------------------------------------------------------------------------
# (b) digest of concrete outputs of the changed functions
def safe(f):
    try:
        r = f()
        return f"ok:{r!r}"
    except Exception as exc:   # noqa
        return f"{type(exc).__name__}:{exc}"


code = C.Toric2DCode(2, 3)
code.deform('XZZX', deformation_axis='x')
loc = code.stabilizer_coordinates[0]
dig("toric2d(2,3) XZZX/x get_stabilizer key order",
    list(code.get_stabilizer(loc).items()))
dig("toric2d(2,3) XZZX/x logicals_x ops",
    [list(op.items()) for op in code.get_logicals_x()])
dig("toric2d(2,3) undeformed logicals_x rows",
    dense(C.Toric2DCode(2, 3).logicals_x).tolist())
dig("toric2d(2,3) undeformed logicals_z rows",
    dense(C.Toric2DCode(2, 3).logicals_z).tolist())
dig("toric2d(2,3) XY logicals_x rows", (lambda c: (
    c.deform('XY'), dense(c.logicals_x).tolist())[1])(C.Toric2DCode(2, 3)))
dig("instance attrs after deform",
    sorted(k for k in vars(code) if 'undeformed' in k or 'deformation' in k))

dig("deform unknown name (eager?)",
    safe(lambda: C.Toric2DCode(2, 2).deform('NOPE')))
dig("deform bad axis (eager?)",
    safe(lambda: C.Planar2DCode(2, 2).deform('XZZX', deformation_axis='z')))
dig("deform on code without deformations",
    safe(lambda: C.Color3DCode(2, 2, 2).deform('XZZX')
         if hasattr(C, 'Color3DCode') else None))


def failed_deform_keeps_state():
    c = C.Toric2DCode(2, 2)
    c.deform('XY')
    before = dense(c.stabilizer_matrix).tolist()
    try:
        c.deform('NOPE')
    except Exception:
        pass
    try:
        return dense(c.stabilizer_matrix).tolist() == before
    except Exception as exc:
        return f"{type(exc).__name__}"


dig("state after rejected deform equals previous", failed_deform_keeps_state())

model = PauliErrorModel(0.1, 0.2, 0.7, deformation_name='XZZX',
                        deformation_kwargs={'deformation_axis': 'x'})
ca, cb = C.Toric2DCode(2, 3), C.Toric2DCode(2, 3)
r1 = model.probability_distribution(ca, 0.25)
r2 = model.probability_distribution(ca, 0.25)
r3 = model.probability_distribution(cb, 0.25)
dig("probability_distribution values",
    [np.round(np.asarray(a), 12).tolist() for a in r1])
dig("probability_distribution same tuple object on repeat", r1 is r2)
dig("probability_distribution arrays shared on repeat",
    [a is b for a, b in zip(r1, r2)])
dig("probability_distribution arrays share one buffer",
    [getattr(a, 'base', None) is not None for a in r1])
dig("probability_distribution has lru cache_info",
    hasattr(type(model).probability_distribution, 'cache_info'))
dig("probability_distribution result type",
    (type(r1).__name__, [type(a).__name__ for a in r1],
     [str(np.asarray(a).dtype) for a in r1]))
dig("probability_distribution invalid error_rate",
    safe(lambda: [np.asarray(a).tolist() for a in
                  model.probability_distribution(ca, 1.5)][0][:2]))

flags = [True, False, True]
dig("apply_deformation values", apply_deformation(
    flags, np.array([1, 1, 0, 0, 1, 0], dtype=np.uint8)).tolist())
dig("apply_deformation bad 1d length",
    safe(lambda: apply_deformation(flags, np.zeros(5, dtype=np.uint8))))
dig("apply_deformation 3d input",
    safe(lambda: apply_deformation(
        flags, np.zeros((2, 2, 6), dtype=np.uint8)).shape))
dig("apply_deformation non-bool flags [2,0,1]",
    safe(lambda: apply_deformation(
        [2, 0, 1], np.array([1, 1, 0, 0, 1, 0], dtype=np.uint8)).tolist()))
dig("apply_deformation list input",
    safe(lambda: np.asarray(apply_deformation(
        flags, [1, 1, 0, 0, 1, 0])).tolist()))

print("---- digest lines ----")
for line in DIGEST_LINES:
    print(line)
print("DIGEST", DIGEST.hexdigest())
sys.exit(0)
