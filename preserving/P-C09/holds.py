import os, sys; sys.path.insert(0, os.getcwd())
"""C09: matching is exactly minimum-weight; correctable sets are corrected.

(a) checks the property directly, exits 1 with a message on any failure
(b) prints a digest of concrete outputs of the changed functions

Run from the root of a panqec tree:  python /tmp/pp_out/C09/holds.py
"""
import hashlib
import itertools
import time
import warnings

import numpy as np
from scipy.sparse import csr_matrix
from scipy.sparse.csgraph import dijkstra

warnings.filterwarnings('ignore')

import panqec  # noqa: E402
from panqec.codes import (  # noqa: E402
    Toric2DCode, Planar2DCode, RotatedPlanar2DCode,
    Toric3DCode, RotatedPlanar3DCode
)
from panqec.decoders import (  # noqa: E402
    MatchingDecoder, UnionFindDecoder, SweepMatchDecoder,
    RotatedSweepMatchDecoder
)
from panqec.decoders.union_find.uf_support import (  # noqa: E402
    Support, Clustering_Tree
)
from panqec.error_models import PauliErrorModel  # noqa: E402

assert os.path.realpath(panqec.__file__).startswith(
    os.path.realpath(os.getcwd())
), f"panqec imported from {panqec.__file__}, not from the current tree"

T_START = time.time()
EPS = 1e-20
N_CHECKED = {}


def fail(msg):
    print("PROPERTY C09 FAILS:", msg)
    sys.exit(1)


def count(key, k=1):
    N_CHECKED[key] = N_CHECKED.get(key, 0) + k


def dense(H):
    return np.asarray(csr_matrix(H).toarray(), dtype=np.int64) % 2


# --------------------------------------------------------------------------
# Part 1: exact optimality against the full coset, for every syndrome
# --------------------------------------------------------------------------

def reference_weights(error_model, code, rate):
    """Log-likelihood weights log((1-p)/p) of the X and Z flip marginals,
    computed independently of get_weights (same eps regularisation at p=0)."""
    pi, px, py, pz = error_model.probability_distribution(code, rate)
    out = []
    for p in (np.array(px) + np.array(py), np.array(pz) + np.array(py)):
        p = np.asarray(p, dtype=np.float64)
        if not np.all(p < 0.5):
            raise RuntimeError("marginal >= 1/2: outside the property")
        out.append(np.array([
            float(np.log((1.0 - x + EPS) / (x + EPS))) for x in p
        ]))
    return out


def all_min_weights(Hd, w):
    """Minimum total weight of a solution of H c = s, for every syndrome s,
    by Dijkstra on the Cayley graph of the syndrome space (exact since all
    weights are non-negative). Returns (dist over 2^m syndromes as ints)."""
    m, n = Hd.shape
    masks = (Hd.T @ (1 << np.arange(m, dtype=np.int64))).astype(np.int64)
    best = {}
    for q in range(n):
        k = int(masks[q])
        if k == 0:
            continue
        if k not in best or w[q] < best[k]:
            best[k] = float(w[q])
    N = 1 << m
    nodes = np.arange(N, dtype=np.int64)
    rows = np.concatenate([nodes for _ in best])
    cols = np.concatenate([nodes ^ k for k in best])
    # strictly positive for csgraph (0 would be 'no edge'); a shift of
    # 1e-300 cannot change any comparison below
    vals = np.concatenate([np.full(N, max(v, 1e-300)) for v in best.values()])
    graph = csr_matrix((vals, (rows, cols)), shape=(N, N))
    return dijkstra(graph, directed=True, indices=0)


def int_to_bits(k, m):
    return ((k >> np.arange(m)) & 1).astype(np.uint8)


def check_optimality(code, error_model, rate, max_syndromes=None, rng=None,
                     decoder=None, weights=None, tag=''):
    n = code.n
    if decoder is None:
        decoder = MatchingDecoder(code, error_model, rate)
    if weights is None:
        wx, wz = reference_weights(error_model, code, rate)
    else:
        wx, wz = weights
    Hz, Hx = dense(code.Hz), dense(code.Hx)
    dist_x = all_min_weights(Hz, wx)   # X corrections are seen by Hz
    dist_z = all_min_weights(Hx, wz)
    reach_x = np.nonzero(np.isfinite(dist_x))[0]
    reach_z = np.nonzero(np.isfinite(dist_z))[0]
    z_idx = np.nonzero(np.asarray(code.z_indices))[0]
    x_idx = np.nonzero(np.asarray(code.x_indices))[0]
    n_stab = code.stabilizer_matrix.shape[0]

    # every reachable syndrome of each sector is used at least once,
    # pairing X-sector and Z-sector syndromes in a scrambled way
    k = max(len(reach_x), len(reach_z))
    ix = np.resize(reach_x, k)
    iz = np.resize(reach_z[::-1], k)
    if max_syndromes is not None and k > max_syndromes:
        sel = rng.choice(k, size=max_syndromes, replace=False)
        ix, iz = ix[sel], iz[sel]
    tol_x = 2e-6 * np.max(np.abs(wx)) * n + 1e-12
    tol_z = 2e-6 * np.max(np.abs(wz)) * n + 1e-12
    for a, b in zip(ix, iz):
        sz_part = int_to_bits(int(a), Hz.shape[0])
        sx_part = int_to_bits(int(b), Hx.shape[0])
        syndrome = np.zeros(n_stab, dtype=np.uint8)
        syndrome[z_idx] = sz_part
        syndrome[x_idx] = sx_part
        c = np.asarray(decoder.decode(syndrome.copy())).astype(np.int64)
        if c.shape != (2 * n,) or np.any((c != 0) & (c != 1)):
            fail(f"{tag}: correction is not a binary vector of size 2n")
        cx, cz = c[:n], c[n:]
        if np.any((Hz @ cx) % 2 != sz_part) or \
                np.any((Hx @ cz) % 2 != sx_part):
            fail(f"{tag}: correction does not have the measured syndrome "
                 f"(syndrome {syndrome.tolist()})")
        got_x, got_z = float(wx @ cx), float(wz @ cz)
        if got_x > dist_x[a] + tol_x:
            fail(f"{tag}: X-sector correction has weight {got_x!r} but the "
                 f"minimum over the coset is {dist_x[a]!r} "
                 f"(z-syndrome {sz_part.tolist()})")
        if got_z > dist_z[b] + tol_z:
            fail(f"{tag}: Z-sector correction has weight {got_z!r} but the "
                 f"minimum over the coset is {dist_z[b]!r} "
                 f"(x-syndrome {sx_part.tolist()})")
        count('optimality syndromes')
    return decoder


DIRECTIONS = [
    (1/3, 1/3, 1/3), (1, 0, 0), (0, 1, 0), (0, 0, 1),
    (0.8, 0.1, 0.1), (0.05, 0.05, 0.9), (0.25, 0.5, 0.25), (0.5, 0, 0.5),
]
DEFORMATIONS = [None, 'XZZX', 'XY']


def rates_for(direction):
    rx, ry, rz = direction
    # deformations permute X, Y, Z on some qubits: bound every pair sum
    biggest = max(rx + ry, rz + ry, rx + rz)
    rates = [1e-6, 0.001, 0.05, 0.2, 0.45, 0.499]
    # rates above 1/2 whose marginals are still below 1/2
    for r in (0.6, 0.74):
        if r * biggest < 0.5 and r <= 1:
            rates.append(r)
    return [r for r in rates if r * biggest < 0.5]


def part1():
    rng = np.random.default_rng(20240909)
    small = [
        Toric2DCode(2, 2), Toric2DCode(2, 3), Toric2DCode(3, 3),
        Toric2DCode(3, 4), Toric2DCode(4, 3),
        Planar2DCode(2, 2), Planar2DCode(2, 3), Planar2DCode(3, 3),
        Planar2DCode(3, 4), Planar2DCode(4, 2),
        RotatedPlanar2DCode(2, 2), RotatedPlanar2DCode(3, 3),
        RotatedPlanar2DCode(3, 4), RotatedPlanar2DCode(4, 4),
        RotatedPlanar2DCode(5, 3), RotatedPlanar2DCode(4, 5),
    ]
    for code in small:
        m = max(code.Hz.shape[0], code.Hx.shape[0])
        cap = None if m <= 8 else 150
        for direction in DIRECTIONS:
            for deformation in DEFORMATIONS:
                em = PauliErrorModel(*direction,
                                     deformation_name=deformation)
                rates = rates_for(direction)
                if m > 8:
                    rates = list(rng.choice(rates, size=2, replace=False))
                for rate in rates:
                    rate = float(rate)
                    tag = (f"{code.id}{code.size} {em.label} "
                           f"rate={rate}")
                    check_optimality(code, em, rate, max_syndromes=cap,
                                     rng=rng, tag=tag)
                    count('optimality models')

    # all syndromes of larger lattices for a few models; the same decoder
    # object and the same code object are then used again (repeated use)
    big = [Toric2DCode(4, 4), Toric2DCode(3, 5), Planar2DCode(4, 4),
           Planar2DCode(3, 5), RotatedPlanar2DCode(5, 5),
           RotatedPlanar2DCode(4, 6)]
    models = [
        (PauliErrorModel(1/3, 1/3, 1/3), 0.1),
        (PauliErrorModel(0.05, 0.05, 0.9, deformation_name='XZZX'), 0.3),
        (PauliErrorModel(0.1, 0.2, 0.7, deformation_name='XY'), 0.45),
        (PauliErrorModel(0, 0, 1, deformation_name='XZZX'), 0.2),
    ]
    for code in big:
        for em, rate in models:
            tag = f"{code.id}{code.size} {em.label} rate={rate} (all)"
            dec = check_optimality(code, em, rate, tag=tag)
            count('optimality models')
            # the same decoder again on a sample, and a second decoder built
            # from the same data, must still be optimal
            check_optimality(code, em, rate, max_syndromes=200, rng=rng,
                             decoder=dec, tag=tag + ' reuse')
            dec2 = MatchingDecoder(code, em, rate)
            check_optimality(code, em, rate, max_syndromes=200, rng=rng,
                             decoder=dec2, tag=tag + ' second decoder')
            # same code, other rate: must not be confused with the previous
            dec3 = MatchingDecoder(code, em, rate / 3)
            check_optimality(code, em, rate / 3, max_syndromes=200, rng=rng,
                             decoder=dec3, tag=tag + ' other rate')

    # explicitly supplied positive weights
    for code in [Toric2DCode(3, 3), Planar2DCode(3, 3),
                 RotatedPlanar2DCode(4, 4)]:
        for trial in range(3):
            wx = rng.uniform(0.1, 5.0, size=code.n)
            wz = rng.uniform(0.1, 5.0, size=code.n)
            em = PauliErrorModel(1/3, 1/3, 1/3)
            dec = MatchingDecoder(code, em, 0.1, weights=(wx, wz))
            check_optimality(code, em, 0.1, decoder=dec, weights=(wx, wz),
                             tag=f"{code.id}{code.size} custom weights")
            count('optimality models')

    # decoders restricted to one sector
    for error_type in ['X', 'Z']:
        code = Planar2DCode(3, 4)
        em = PauliErrorModel(0.2, 0.1, 0.7, deformation_name='XZZX')
        dec = MatchingDecoder(code, em, 0.3, error_type=error_type)
        wx, wz = reference_weights(em, code, 0.3)
        Hz, Hx = dense(code.Hz), dense(code.Hx)
        H, w = (Hz, wx) if error_type == 'X' else (Hx, wz)
        dist = all_min_weights(H, w)
        z_idx = np.nonzero(np.asarray(code.z_indices))[0]
        x_idx = np.nonzero(np.asarray(code.x_indices))[0]
        for a in np.nonzero(np.isfinite(dist))[0]:
            part = int_to_bits(int(a), H.shape[0])
            syndrome = np.zeros(code.stabilizer_matrix.shape[0], np.uint8)
            syndrome[z_idx if error_type == 'X' else x_idx] = part
            c = np.asarray(dec.decode(syndrome)).astype(np.int64)
            mine = c[:code.n] if error_type == 'X' else c[code.n:]
            other = c[code.n:] if error_type == 'X' else c[:code.n]
            if np.any(other) or np.any((H @ mine) % 2 != part) or \
                    float(w @ mine) > dist[a] + 1e-5 * np.max(w) * code.n:
                fail(f"single-sector decoder {error_type} not optimal")
            count('optimality syndromes')


# --------------------------------------------------------------------------
# Part 2: every error of weight <= floor((d-1)/2) is corrected
# --------------------------------------------------------------------------

def errors_up_to(n, t, paulis='XYZ'):
    """All Pauli errors of weight 1..t: all supports, all assignments."""
    for wt in range(1, t + 1):
        for supp in itertools.combinations(range(n), wt):
            for assignment in itertools.product(paulis, repeat=wt):
                e = np.zeros(2 * n, dtype=np.uint8)
                for q, P in zip(supp, assignment):
                    if P in 'XY':
                        e[q] = 1
                    if P in 'YZ':
                        e[n + q] = 1
                yield e


_DENSE = {}


def fast_syndrome(code):
    """Dense symplectic syndrome map of a code, cross-checked once against
    code.measure_syndrome (which is much slower per call)."""
    key = id(code)
    if key not in _DENSE:
        n = code.n
        S = np.asarray(code.stabilizer_matrix.toarray(), dtype=np.int64)
        Sx, Sz = S[:, :n], S[:, n:]

        def syn(e):
            e = np.asarray(e, dtype=np.int64)
            return ((Sx @ e[n:] + Sz @ e[:n]) % 2).astype(np.uint8)

        rng = np.random.default_rng(1)
        for _ in range(20):
            e = (rng.random(2 * n) < 0.2).astype(np.uint8)
            if np.any(syn(e) != np.asarray(code.measure_syndrome(e))):
                fail("dense syndrome map disagrees with measure_syndrome")
        _DENSE[key] = (code, syn)
    return _DENSE[key][1]


def check_corrects(code, decoder, t, paulis, tag, key):
    syn = fast_syndrome(code)
    for e in errors_up_to(code.n, t, paulis):
        c = np.asarray(decoder.decode(syn(e)))
        total = (e.astype(np.int64) + c.astype(np.int64)) % 2
        if np.any(syn(total)):
            fail(f"{tag}: residual of error {np.nonzero(e)[0].tolist()} "
                 "has a non-zero syndrome")
        if code.is_logical_error(total):
            fail(f"{tag}: error {np.nonzero(e)[0].tolist()} (weight <= {t}) "
                 "leads to a logical error")
        count(key)
    # and through the library's own (slow) syndrome / success functions
    rng = np.random.default_rng(2)
    for _ in range(30):
        wt = int(rng.integers(1, t + 1))
        e = np.zeros(2 * code.n, dtype=np.uint8)
        for q in rng.choice(code.n, size=wt, replace=False):
            P = paulis[rng.integers(len(paulis))]
            if P in 'XY':
                e[q] = 1
            if P in 'YZ':
                e[code.n + q] = 1
        c = np.asarray(decoder.decode(code.measure_syndrome(e)))
        if not code.is_success((e + c) % 2):
            fail(f"{tag}: error {np.nonzero(e)[0].tolist()} not corrected")
        count(key)


def part2():
    uniform_models = [
        (PauliErrorModel(1/3, 1/3, 1/3), 0.1),
        (PauliErrorModel(1, 0, 0), 0.3),          # wz regularised, uniform
        (PauliErrorModel(0.25, 0.5, 0.25), 0.01),
    ]
    # (class, size, Pauli alphabet). 'XYZ' = all assignments; for the
    # biggest lattices the two sectors are exercised jointly through Y
    # errors and separately through X-only and Z-only errors
    cases = [
        (Toric2DCode, (3, 3), 'XYZ'), (Toric2DCode, (3, 4), 'XYZ'),
        (Toric2DCode, (4, 4), 'XYZ'), (Toric2DCode, (5, 3), 'XYZ'),
        (Toric2DCode, (5, 5), 'XYZ'), (Toric2DCode, (5, 6), 'XYZ'),
        (Toric2DCode, (6, 6), 'Y'), (Toric2DCode, (7, 7), 'Y'),
        (Planar2DCode, (3, 3), 'XYZ'), (Planar2DCode, (3, 4), 'XYZ'),
        (Planar2DCode, (4, 4), 'XYZ'), (Planar2DCode, (5, 5), 'XYZ'),
        (Planar2DCode, (6, 5), 'XYZ'), (Planar2DCode, (7, 7), 'Y'),
        (RotatedPlanar2DCode, (3, 3), 'XYZ'),
        (RotatedPlanar2DCode, (3, 5), 'XYZ'),
        (RotatedPlanar2DCode, (4, 4), 'XYZ'),
        (RotatedPlanar2DCode, (5, 5), 'XYZ'),
        (RotatedPlanar2DCode, (6, 5), 'XYZ'),
        (RotatedPlanar2DCode, (7, 7), 'Y'),
    ]
    for cls, size, paulis in cases:
        code = cls(*size)
        t = (min(size) - 1) // 2
        if int(code.d) != min(size):
            fail(f"{code.id}{size}: unexpected distance {code.d}")
        for i, (em, rate) in enumerate(uniform_models):
            if i > 0 and (code.n > 45):
                continue
            wx, wz = em.get_weights(code, rate)
            if not (np.allclose(wx, wx[0]) and np.allclose(wz, wz[0])):
                fail(f"weights of {em.label} are not uniform")
            dec = MatchingDecoder(code, em, rate)
            check_corrects(code, dec, t, paulis,
                           f"matching {code.id}{size} {em.label}",
                           'matching low-weight errors')
            if paulis != 'XYZ':
                check_corrects(code, dec, min(t, 2), 'XZ',
                               f"matching {code.id}{size} {em.label}",
                               'matching low-weight errors')

    # union-find on the toric code
    em = PauliErrorModel(1/3, 1/3, 1/3)
    for size, paulis in [((3, 3), 'XYZ'), ((3, 4), 'XYZ'), ((4, 4), 'XYZ'),
                         ((4, 5), 'XYZ'), ((5, 3), 'XYZ'), ((5, 5), 'Y'),
                         ((6, 5), 'Y')]:
        code = Toric2DCode(*size)
        t = (min(size) - 1) // 2
        dec = UnionFindDecoder(code, em, 0.1)
        check_corrects(code, dec, t, paulis, f"union-find toric {size}",
                       'union-find low-weight errors')
        if paulis != 'XYZ':
            # X-only and Z-only single errors + a sample of mixed pairs
            check_corrects(code, dec, 1, 'XZ', f"union-find toric {size}",
                           'union-find low-weight errors')
            rng = np.random.default_rng(5)
            n = code.n
            for _ in range(150):
                supp = rng.choice(n, size=t, replace=False)
                e = np.zeros(2 * n, dtype=np.uint8)
                for q in supp:
                    P = 'XYZ'[rng.integers(3)]
                    if P in 'XY':
                        e[q] = 1
                    if P in 'YZ':
                        e[n + q] = 1
                c = np.asarray(dec.decode(code.measure_syndrome(e)))
                if not code.is_success((e + c) % 2):
                    fail(f"union-find toric {size}: error on {supp} fails")
                count('union-find low-weight errors')

    # sweep-match decoders, all single-qubit Pauli errors
    ems = [
        (PauliErrorModel(1/3, 1/3, 1/3), 0.1),
        (PauliErrorModel(0.05, 0.05, 0.9), 0.2),
        (PauliErrorModel(1/3, 1/3, 1/3, deformation_name='XZZX'), 0.05),
        (PauliErrorModel(0.05, 0.05, 0.9, deformation_name='XZZX'), 0.3),
        (PauliErrorModel(0, 0, 1, deformation_name='XZZX'), 0.3),
    ]
    for size in [(3, 3, 3), (3, 4, 5), (4, 4, 4), (5, 3, 4)]:
        code = Toric3DCode(*size)
        for em, rate in ems:
            dec = SweepMatchDecoder(code, em, rate)
            check_corrects(code, dec, 1, 'XYZ',
                           f"sweep-match toric3d {size} {em.label}",
                           'sweep-match single errors')
    for size in [(3, 3, 3), (4, 3, 2), (3, 4, 5), (4, 4, 4)]:
        code = RotatedPlanar3DCode(*size)
        for em, rate in ems:
            dec = RotatedSweepMatchDecoder(code, em, rate)
            check_corrects(code, dec, 1, 'XYZ',
                           f"rotated sweep-match {size} {em.label}",
                           'sweep-match single errors')


# --------------------------------------------------------------------------
# Part 3: digest of concrete outputs of the changed functions
# --------------------------------------------------------------------------

def sha(x):
    return hashlib.sha256(x).hexdigest()[:16]


def digest():
    lines = []
    rng = np.random.default_rng(777)

    # get_weights: exact bits
    h = hashlib.sha256()
    first = None
    for cls, size in [(Toric2DCode, (3, 4)), (RotatedPlanar2DCode, (3, 3))]:
        code = cls(*size)
        for direction in DIRECTIONS:
            for deformation in DEFORMATIONS:
                em = PauliErrorModel(*direction,
                                     deformation_name=deformation)
                for rate in rates_for(direction):
                    wx, wz = em.get_weights(code, rate)
                    h.update(np.asarray(wx, dtype=np.float64).tobytes())
                    h.update(np.asarray(wz, dtype=np.float64).tobytes())
                    if first is None and rate == 0.05:
                        first = (float(wx[0]).hex(), float(wz[0]).hex())
    lines.append(f"get_weights bits: {h.hexdigest()[:16]} e.g. {first}")
    try:
        w = PauliErrorModel(1, 0, 0).get_weights(Toric2DCode(2, 2), 1.5)
        lines.append(f"get_weights(rate=1.5): {np.asarray(w[0])[:2]}")
    except Exception as ex:
        lines.append(f"get_weights(rate=1.5): raises {type(ex).__name__}")

    # matching graph and corrections (tie-breaking)
    for cls, size in [(Toric2DCode, (4, 5)), (Planar2DCode, (4, 5)),
                      (RotatedPlanar2DCode, (5, 5))]:
        code = cls(*size)
        n = code.n
        em = PauliErrorModel(1/3, 1/3, 1/3)
        dec = MatchingDecoder(code, em, 0.1)
        dec_b = MatchingDecoder(code, em, 0.1)
        edges = [(a, b, sorted(d['fault_ids'])) for a, b, d in
                 dec.matcher_x.edges()]
        h = hashlib.sha256()
        tot = 0
        for _ in range(200):
            e = np.zeros(2 * n, dtype=np.uint8)
            e[rng.random(2 * n) < 0.12] = 1
            c = np.asarray(dec.decode(code.measure_syndrome(e)))
            h.update(c.astype(np.uint8).tobytes())
            tot += int(c.sum())
        lines.append(
            f"matching {code.id}{size}: edge order {sha(repr(edges).encode())}"
            f" first edges {edges[:3]} corrections {h.hexdigest()[:16]}"
            f" total weight {tot}"
            f" shared matcher {dec.matcher_x is dec_b.matcher_x}"
        )

    # union-find corrections (tie-breaking of the growth order)
    for size in [(4, 5), (6, 6)]:
        code = Toric2DCode(*size)
        n = code.n
        dec = UnionFindDecoder(code, PauliErrorModel(1/3, 1/3, 1/3), 0.1)
        h = hashlib.sha256()
        tot = 0
        for _ in range(60):
            e = np.zeros(2 * n, dtype=np.uint8)
            e[rng.random(2 * n) < 0.10] = 1
            s = code.measure_syndrome(e)
            c = np.asarray(dec.decode(s))
            if np.any(code.measure_syndrome(c) != s):
                fail("union-find correction does not match the syndrome")
            h.update(c.astype(np.uint8).tobytes())
            tot += int(c.sum())
        lines.append(f"union-find toric{size}: corrections "
                     f"{h.hexdigest()[:16]} total weight {tot}")

    # _smallest_invalid_cluster on equal-size clusters
    H = Toric2DCode(3, 3).Hz
    sp = Support(np.array([1, 0, 0, 0, 1, 0, 0, 0, 1]), H)
    clusters = set(Clustering_Tree(i, sp) for i in [0, 4, 8])
    sml, invalids = Support._smallest_invalid_cluster(clusters)
    lines.append(f"_smallest_invalid_cluster: root {sml.get_root()} "
                 f"invalids {[c.get_root() for c in invalids]}")
    return lines


if __name__ == '__main__':
    part1()
    t1 = time.time()
    part2()
    t2 = time.time()
    lines = digest()
    print("C09 holds. checked:", dict(sorted(N_CHECKED.items())),
          file=sys.stderr)
    print(f"times: part1 {t1 - T_START:.0f}s part2 {t2 - t1:.0f}s",
          file=sys.stderr)
    print("DIGEST")
    for line in lines:
        print(line)
    print("DIGEST-SHA", sha("\n".join(lines).encode()))
    sys.exit(0)
