import os, sys; sys.path.insert(0, os.getcwd())
"""C10: sweep decoders track the true residual syndrome.

(a) checks the property directly (geometry of flip_edge on every edge, and
    every sweep step of many decodes), exit 1 on the first violation;
(b) prints a digest of concrete outputs of the changed functions.
"""
import hashlib
import itertools
import time
import numpy as np

from panqec.codes import (
    Toric3DCode, Planar3DCode, RotatedPlanar3DCode, RotatedToric3DCode
)
from panqec.decoders import SweepDecoder3D, RotatedSweepDecoder3D
from panqec.error_models import PauliErrorModel

T0 = time.time()
DIGEST = []
N_CHECKS = {'edges': 0, 'steps': 0, 'flips': 0, 'decodes': 0, 'clean_stops': 0,
            'stuck_stops': 0, 'ties': 0}

ALL_DIRECTIONS = [
    (1, 0, 1), (1, 0, -1), (0, 1, 1), (0, 1, -1),
    (-1, 0, 1), (-1, 0, -1), (0, -1, 1), (0, -1, -1),
]


def fail(msg):
    print('PROPERTY C10 VIOLATED: ' + msg)
    sys.exit(1)


def emit(line):
    DIGEST.append(line)
    print('DIGEST ' + line)


def h(arr):
    arr = np.ascontiguousarray(np.asarray(arr).astype(np.int64))
    return hashlib.sha256(arr.tobytes()).hexdigest()[:12]


# ---------------------------------------------------------------- reference

class Ref:
    """Reference computations made from the stabilizer matrix only."""

    def __init__(self, code):
        self.code = code
        self.n = code.n
        H = code.stabilizer_matrix.toarray().astype(np.int64) % 2
        self.Hx = H[:, :self.n]       # X part of every stabilizer
        self.Hz = H[:, self.n:]       # Z part of every stabilizer
        self.face = np.array([
            code.stabilizer_type(loc) == 'face'
            for loc in code.stabilizer_coordinates
        ])
        # Undeformed: faces are pure X, vertices are pure Z.
        if np.any(self.Hz[self.face]) or np.any(self.Hx[~self.face]):
            fail(f'{code.label}: faces are not pure-X / vertices not pure-Z')

    def face_syndrome(self, bsf):
        """Face syndrome (full length, zero on vertices) of a bsf Pauli."""
        bsf = np.asarray(bsf).astype(np.int64) % 2
        s = (self.Hx @ bsf[self.n:] + self.Hz @ bsf[:self.n]) % 2
        s[~self.face] = 0
        return s

    def edge_toggle(self, i_qubit):
        """Faces anticommuting with Z on qubit i (full length 0/1)."""
        t = self.Hx[:, i_qubit].copy()
        t[~self.face] = 0
        return t

    def op_to_bsf(self, operator):
        v = np.zeros(2*self.n, dtype=np.int64)
        for loc, p in operator.items():
            if loc not in self.code.qubit_index:
                fail(f'{self.code.label}: correction on non-qubit {loc}')
            i = self.code.qubit_index[loc]
            if p in 'XY':
                v[i] ^= 1
            if p in 'YZ':
                v[self.n + i] ^= 1
        return v


# ---------------------------------------------------------- geometry check

def check_geometry(code, decoder, ref, rng, tag):
    """flip_edge toggles exactly the anticommuting faces, for every edge."""
    m = code.n_stabilizers
    for repeat in range(2):          # second pass: repeated use, same objects
        for loc, i in code.qubit_index.items():
            expected = ref.edge_toggle(i)
            for start in (np.zeros(m, dtype=np.uint8),
                          rng.integers(0, 2, size=m).astype(np.uint8)):
                signs = start.copy()
                ret = decoder.flip_edge(loc, signs)
                if ret is not None and not isinstance(ret, np.ndarray):
                    fail(f'{tag}: flip_edge returned {ret!r}')
                got = (signs.astype(np.int64) + start) % 2
                if not np.array_equal(got, expected):
                    fail(f'{tag}: flip_edge({loc}) toggled '
                         f'{np.flatnonzero(got).tolist()} expected '
                         f'{np.flatnonzero(expected).tolist()}')
                if not set(np.unique(signs)) <= {0, 1}:
                    fail(f'{tag}: flip_edge({loc}) left non-binary signs')
                decoder.flip_edge(loc, signs)
                if not np.array_equal(signs, start):
                    fail(f'{tag}: flipping {loc} twice is not the identity')
                N_CHECKS['edges'] += 1
    # site(): an edge put twice in the correction is removed from it.
    for loc in list(code.qubit_index)[:: max(1, code.n // 7)]:
        op = {}
        code.site(op, 'Z', loc)
        if op != {loc: 'Z'}:
            fail(f'{tag}: site Z at {loc} gave {op}')
        code.site(op, 'Z', loc)
        if op != {}:
            fail(f'{tag}: site Z twice at {loc} gave {op}')


# ------------------------------------------------------ instrumented decode

class Tracker:
    """Wraps sweep_move / flip_edge of ONE decoder instance and checks every
    step against the reference."""

    def __init__(self, decoder, ref, tag):
        self.decoder = decoder
        self.ref = ref
        self.tag = tag
        self.error = None
        self.reset()
        self._orig_sweep = decoder.sweep_move
        self._orig_flip = decoder.flip_edge
        self._orig_tie = decoder.get_default_direction
        decoder.sweep_move = self.sweep_move
        decoder.flip_edge = self.flip_edge
        decoder.get_default_direction = self.tie

    def reset(self):
        self.n_steps = 0
        self.last_signs = None
        self.last_correction = None
        self.flips = []
        self.directions = []
        self.ties = []

    def tie(self):
        d = self._orig_tie()
        if not (isinstance(d, (int, np.integer)) and 0 <= d <= 2):
            fail(f'{self.tag}: tie-break direction {d!r}')
        self.ties.append(int(d))
        N_CHECKS['ties'] += 1
        return d

    def flip_edge(self, location, signs):
        code = self.decoder.code
        location = tuple(int(c) for c in location)
        if location not in code.qubit_index:
            fail(f'{self.tag}: automaton flipped non-qubit {location}')
        before = np.asarray(signs).astype(np.int64).copy()
        out = self._orig_flip(location, signs)
        after = np.asarray(signs).astype(np.int64)
        expected = self.ref.edge_toggle(code.qubit_index[location])
        if not np.array_equal((before + after) % 2, expected):
            fail(f'{self.tag}: in-run flip_edge({location}) toggled wrong '
                 'faces')
        self.flips.append(location)
        N_CHECKS['flips'] += 1
        return out

    def sweep_move(self, signs, correction, *args):
        ref = self.ref
        # Pre-condition (holds inductively): tracked == true residual.
        pre = ref.face_syndrome(self.error + ref.op_to_bsf(correction))
        if not np.array_equal(np.asarray(signs).astype(np.int64), pre):
            fail(f'{self.tag}: state before step {self.n_steps} is not the '
                 'residual face syndrome')
        before_keys = set(correction)
        signs_in = np.asarray(signs).copy()
        self.flips = []
        new_signs = self._orig_sweep(signs, correction, *args)
        if args:
            self.directions.append(tuple(args[0]))
        if not np.array_equal(np.asarray(signs), signs_in):
            fail(f'{self.tag}: sweep_move mutated its input state')
        # Correction is Z-only, on qubits, and is old XOR flipped edges.
        if any(p != 'Z' for p in correction.values()):
            fail(f'{self.tag}: non-Z entry in correction {correction}')
        odd = {loc for loc in set(self.flips)
               if self.flips.count(loc) % 2 == 1}
        if set(correction) != (before_keys ^ odd):
            fail(f'{self.tag}: correction is not (previous XOR flipped '
                 f'edges) at step {self.n_steps}')
        # The tracked excitations are the true residual face syndrome.
        post = ref.face_syndrome(self.error + ref.op_to_bsf(correction))
        if not np.array_equal(np.asarray(new_signs).astype(np.int64), post):
            fail(f'{self.tag}: tracked excitations differ from the face '
                 f'syndrome of error+correction after step {self.n_steps}: '
                 f'tracked {np.flatnonzero(new_signs).tolist()} true '
                 f'{np.flatnonzero(post).tolist()}')
        self.n_steps += 1
        N_CHECKS['steps'] += 1
        self.last_signs = np.asarray(new_signs).copy()
        self.last_correction = dict(correction)
        return new_signs

    def decode(self, error):
        """Decode the syndrome of `error` and check the final claims."""
        code = self.decoder.code
        ref = self.ref
        self.error = np.asarray(error).astype(np.int64) % 2
        self.reset()
        syndrome = code.measure_syndrome(error)
        syndrome_copy = syndrome.copy()
        initial = ref.face_syndrome(self.error)
        state0 = self.decoder.get_initial_state(syndrome)
        if not np.array_equal(np.asarray(state0).astype(np.int64), initial):
            fail(f'{self.tag}: initial state is not the face syndrome')
        correction = self.decoder.decode(syndrome)
        if not np.array_equal(syndrome, syndrome_copy):
            fail(f'{self.tag}: decode mutated the syndrome')
        correction = np.asarray(correction)
        if correction.shape != (2*code.n,):
            fail(f'{self.tag}: correction shape {correction.shape}')
        if not set(np.unique(correction).tolist()) <= {0, 1}:
            fail(f'{self.tag}: correction not binary')
        if np.any(correction[:code.n] != 0):
            fail(f'{self.tag}: correction has an X component')
        if self.n_steps == 0:
            final_signs = initial
            final_corr = np.zeros(2*code.n, dtype=np.int64)
        else:
            final_signs = self.last_signs
            final_corr = ref.op_to_bsf(self.last_correction)
        if not np.array_equal(correction.astype(np.int64), final_corr):
            fail(f'{self.tag}: returned correction differs from the '
                 'accumulated one')
        residual = ref.face_syndrome(self.error + correction)
        if not np.array_equal(residual, final_signs.astype(np.int64)):
            fail(f'{self.tag}: final state is not the residual syndrome')
        if not np.any(final_signs):
            N_CHECKS['clean_stops'] += 1
            if np.any(residual):
                fail(f'{self.tag}: stopped with no excitations but face '
                     'syndrome of error+correction is non-zero')
        else:
            N_CHECKS['stuck_stops'] += 1
        N_CHECKS['decodes'] += 1
        return correction


# ------------------------------------------------------------------ errors

def z_error(code, qubits):
    e = np.zeros(2*code.n, dtype=np.uint8)
    for i in qubits:
        e[code.n + i] = 1
    return e


def low_weight_errors(code, stride=1):
    yield z_error(code, [])
    for i in range(code.n):
        yield z_error(code, [i])
    pairs = list(itertools.combinations(range(code.n), 2))
    for pair in pairs[::stride]:
        yield z_error(code, pair)


def random_z_errors(code, rates, n_each, rng):
    for p in rates:
        for _ in range(n_each):
            e = np.zeros(2*code.n, dtype=np.uint8)
            e[code.n:] = rng.random(code.n) < p
            yield e


def model_errors(code, rng):
    """Biased / deformed / depolarizing full Pauli errors."""
    models = [
        (PauliErrorModel(0, 0, 1), 0.15),
        (PauliErrorModel(1/3, 1/3, 1/3), 0.1),
        (PauliErrorModel(0.05, 0.05, 0.9), 0.2),
        (PauliErrorModel(0.05, 0.05, 0.9, deformation_name='XZZX'), 0.2),
        (PauliErrorModel(0.05, 0.05, 0.9, deformation_name='XZZX',
                         deformation_kwargs={'deformation_axis': 'z'}), 0.2),
        (PauliErrorModel(0, 1, 0), 0.1),
        (PauliErrorModel(0, 0, 1), 0.0),
        (PauliErrorModel(0, 0, 1), 1.0),
    ]
    for model, rate in models:
        for _ in range(2):
            yield np.asarray(model.generate(code, rate, rng=rng))


# -------------------------------------------------------------------- main

def run_cubic():
    em = PauliErrorModel(0, 0, 1)
    rng = np.random.default_rng(2024)
    cases = [
        # (class, size, exhaustive-pair stride)
        (Toric3DCode, (2, 2, 2), 1),
        (Toric3DCode, (3, 2, 2), 3),
        (Toric3DCode, (2, 3, 4), None),
        (Toric3DCode, (3, 3, 3), None),
        (Planar3DCode, (2, 2, 2), 1),
        (Planar3DCode, (2, 3, 2), 1),
        (Planar3DCode, (3, 2, 4), None),
        (Planar3DCode, (4, 3, 3), None),
    ]
    for cls, size, stride in cases:
        code = cls(*size)
        ref = Ref(code)
        tag = f'{cls.__name__}{size}'
        geo_decoder = SweepDecoder3D(code, em, 0.1)
        check_geometry(code, geo_decoder, ref, rng, tag)
        for seed in (0, 1, 7):
            decoder = SweepDecoder3D(code, em, 0.1, seed=seed)
            tracker = Tracker(decoder, ref, f'{tag} seed={seed}')
            if stride is not None and seed == 0:
                for e in low_weight_errors(code, stride):
                    tracker.decode(e)
            n_each = 3 if seed == 0 else 1
            for e in random_z_errors(code, [0.02, 0.08, 0.2], n_each, rng):
                tracker.decode(e)
            if seed == 1:
                for e in model_errors(code, rng):
                    tracker.decode(e)
        # Few sweeps allowed: automaton is stopped with excitations left.
        decoder = SweepDecoder3D(code, em, 0.1, seed=3, max_sweep_factor=1)
        tracker = Tracker(decoder, ref, f'{tag} short')
        for e in random_z_errors(code, [0.3, 0.5], 2, rng):
            tracker.decode(e)
        # Direct sweep moves with a correction that already has content.
        decoder = SweepDecoder3D(code, em, 0.1, seed=5)
        tracker = Tracker(decoder, ref, f'{tag} direct')
        for e in random_z_errors(code, [0.2, 0.4], 2, rng):
            pre = {}
            for i in rng.choice(code.n, size=min(4, code.n), replace=False):
                pre[code.qubit_coordinates[int(i)]] = 'Z'
            tracker.error = np.asarray(e).astype(np.int64)
            tracker.reset()
            signs = ref.face_syndrome(
                tracker.error + ref.op_to_bsf(pre)
            ).astype(np.uint8)
            for _ in range(3):
                signs = decoder.sweep_move(signs, pre)


def run_rotated():
    em = PauliErrorModel(0, 0, 1)
    rng = np.random.default_rng(4048)
    cases = [
        (RotatedPlanar3DCode, (2, 2, 2), 1),
        (RotatedPlanar3DCode, (3, 2, 2), 1),
        (RotatedPlanar3DCode, (2, 3, 3), 2),
        (RotatedPlanar3DCode, (4, 3, 3), None),
        (RotatedPlanar3DCode, (3, 4, 4), None),
        (RotatedPlanar3DCode, (4, 4, 3), None),
    ]
    for cls, size, stride in cases:
        code = cls(*size)
        ref = Ref(code)
        tag = f'{cls.__name__}{size}'
        geo_decoder = RotatedSweepDecoder3D(code, em, 0.1)
        check_geometry(code, geo_decoder, ref, rng, tag)
        seen_directions = set()
        for seed in (0, 1, 7):
            decoder = RotatedSweepDecoder3D(
                code, em, 0.1, seed=seed, max_rounds=3
            )
            tracker = Tracker(decoder, ref, f'{tag} seed={seed}')
            if stride is not None and seed == 0:
                for e in low_weight_errors(code, stride):
                    tracker.decode(e)
                    seen_directions |= set(tracker.directions)
            n_each = 3 if seed == 0 else 1
            for e in random_z_errors(code, [0.02, 0.08, 0.2], n_each, rng):
                tracker.decode(e)
                seen_directions |= set(tracker.directions)
            if seed == 1:
                for e in model_errors(code, rng):
                    tracker.decode(e)
                    seen_directions |= set(tracker.directions)
        if not seen_directions <= set(ALL_DIRECTIONS):
            fail(f'{tag}: unknown sweep direction used '
                 f'{seen_directions - set(ALL_DIRECTIONS)}')
        # One round only: stops with excitations left.
        decoder = RotatedSweepDecoder3D(code, em, 0.1, seed=3, max_rounds=1)
        tracker = Tracker(decoder, ref, f'{tag} short')
        for e in random_z_errors(code, [0.3, 0.5], 2, rng):
            tracker.decode(e)
        # Every one of the 8 directions, directly, several steps each,
        # starting with a correction that already has content.
        decoder = RotatedSweepDecoder3D(code, em, 0.1, seed=5)
        tracker = Tracker(decoder, ref, f'{tag} direct')
        for e in random_z_errors(code, [0.15, 0.4], 2, rng):
            for direction in ALL_DIRECTIONS:
                pre = {}
                for i in rng.choice(code.n, size=min(4, code.n),
                                    replace=False):
                    pre[code.qubit_coordinates[int(i)]] = 'Z'
                tracker.error = np.asarray(e).astype(np.int64)
                tracker.reset()
                signs = ref.face_syndrome(
                    tracker.error + ref.op_to_bsf(pre)
                ).astype(np.uint8)
                for _ in range(4):
                    signs = decoder.sweep_move(signs, pre, direction)


# ------------------------------------------------------------------ digest

def digest():
    em = PauliErrorModel(0, 0, 1)

    # Tie-break streams.
    for cls, code in [(SweepDecoder3D, Toric3DCode(2, 2, 2)),
                      (RotatedSweepDecoder3D, RotatedPlanar3DCode(2, 2, 2))]:
        for seed in (0, 5):
            d = cls(code, em, 0.1, seed=seed)
            ties = [int(d.get_default_direction()) for _ in range(24)]
            emit(f'ties {cls.__name__} seed={seed} ' +
                 ''.join(map(str, ties)))

    # Corrections / number of sweep steps / directions on fixed inputs.
    rng = np.random.default_rng(99)
    for dec_cls, code, kwargs in [
        (SweepDecoder3D, Toric3DCode(3, 3, 3), {}),
        (SweepDecoder3D, Planar3DCode(4, 3, 3), {}),
        (RotatedSweepDecoder3D, RotatedPlanar3DCode(4, 4, 3),
         {'max_rounds': 2}),
        (RotatedSweepDecoder3D, RotatedPlanar3DCode(3, 4, 4),
         {'max_rounds': 2}),
    ]:
        ref = Ref(code)
        decoder = dec_cls(code, em, 0.1, seed=0, **kwargs)
        tracker = Tracker(decoder, ref, 'digest')
        for k, p in enumerate([0.03, 0.1, 0.2, 0.3]):
            e = np.zeros(2*code.n, dtype=np.uint8)
            e[code.n:] = rng.random(code.n) < p
            c = tracker.decode(e)
            dirs = ''
            if tracker.directions:
                order = []
                for dd in tracker.directions:
                    if not order or order[-1] != dd:
                        order.append(dd)
                dirs = ' dirs=' + h(np.array(order))
            emit(f'decode {dec_cls.__name__} {code.label} p={p} '
                 f'wt_err={int(e.sum())} wt_corr={int(c.sum())} '
                 f'corr={h(c)} steps={tracker.n_steps} '
                 f'ties={len(tracker.ties)}{dirs}')

    # Behaviour of flip_edge on locations that are not edges, and geometry
    # on the rotated toric lattice (reported, not judged).
    code = Planar3DCode(2, 2, 2)
    d = SweepDecoder3D(code, em, 0.1)
    for loc in [(0, 1, 0), (2, 2, 2), (-1, 0, 0)]:
        signs = np.zeros(code.n_stabilizers, dtype=np.uint8)
        try:
            d.flip_edge(loc, signs)
            emit(f'flip_edge Planar non-edge {loc}: toggled '
                 f'{np.flatnonzero(signs).tolist()}')
        except Exception as exc:
            emit(f'flip_edge Planar non-edge {loc}: {type(exc).__name__}')
    code = RotatedPlanar3DCode(2, 2, 2)
    d = RotatedSweepDecoder3D(code, em, 0.1)
    for loc in [(2, 2, 1), (0, 0, 2), (7, 7, 1)]:
        signs = np.zeros(code.n_stabilizers, dtype=np.uint8)
        try:
            d.flip_edge(loc, signs)
            emit(f'flip_edge RotatedPlanar non-edge {loc}: toggled '
                 f'{np.flatnonzero(signs).tolist()}')
        except Exception as exc:
            emit(f'flip_edge RotatedPlanar non-edge {loc}: '
                 f'{type(exc).__name__}')

    for size in [(2, 2, 2), (3, 4, 3)]:
        code = RotatedToric3DCode(*size)
        d = RotatedSweepDecoder3D(code, em, 0.1)
        H = code.stabilizer_matrix.toarray()[:, :code.n] % 2
        face = np.array([code.stabilizer_type(loc) == 'face'
                         for loc in code.stabilizer_coordinates])
        deviating = []
        for loc, i in code.qubit_index.items():
            signs = np.zeros(code.n_stabilizers, dtype=np.uint8)
            d.flip_edge(loc, signs)
            exp = H[:, i].copy()
            exp[~face] = 0
            if not np.array_equal(signs, exp):
                deviating.append(i)
        emit(f'info RotatedToric{size} seam edges where flip_edge != '
             f'stabilizer matrix: {len(deviating)} {h(np.array(deviating))}')


if __name__ == '__main__':
    run_cubic()
    print(f'cubic lattices ok  ({time.time() - T0:.0f}s)  {N_CHECKS}')
    run_rotated()
    print(f'rotated lattices ok  ({time.time() - T0:.0f}s)  {N_CHECKS}')
    digest()
    total = hashlib.sha256('\n'.join(DIGEST).encode()).hexdigest()
    print('CHECKS', N_CHECKS)
    print('DIGEST_SHA256', total)
    print('C10 holds')
    sys.exit(0)
