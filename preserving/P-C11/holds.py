import os, sys; sys.path.insert(0, os.getcwd())  # noqa: E401,E702
"""
C11: Monte-Carlo trials are self-consistent, reproducible and calibrated.

(a) checks the property directly (exit 1 with a message when it fails);
(b) prints a digest of concrete outputs of the functions that were changed.

Run with the panqec worktree as current directory.
"""
import hashlib
import json
import warnings
import numpy as np
from scipy import stats

warnings.filterwarnings('ignore')

from panqec.codes import (  # noqa: E402
    Planar2DCode, Toric2DCode, RotatedPlanar2DCode
)
from panqec.error_models import PauliErrorModel  # noqa: E402
from panqec.decoders import (  # noqa: E402
    MatchingDecoder, BeliefPropagationOSDDecoder
)
from panqec.simulation import DirectSimulation  # noqa: E402
from panqec.simulation._direct_simulation import run_once  # noqa: E402

FAILURES = []
N_CHECKS = [0]


def check(cond, msg):
    N_CHECKS[0] += 1
    if not cond:
        FAILURES.append(msg)
        print('PROPERTY VIOLATION:', msg)
        if len(FAILURES) > 20:
            finish()


def finish():
    if FAILURES:
        print(f'{len(FAILURES)} violation(s) of C11')
        sys.exit(1)


def dense(a):
    if hasattr(a, 'toarray'):
        a = a.toarray()
    return np.asarray(a).astype(np.int64)


# ---------------------------------------------------------------------------
# Independent reference implementation of the stabilizer-code algebra.
# ---------------------------------------------------------------------------

class Ref:
    def __init__(self, code):
        self.code = code
        self.n = code.n
        self.H = dense(code.stabilizer_matrix)
        self.LX = dense(code.logicals_x).reshape(-1, 2*self.n)
        self.LZ = dense(code.logicals_z).reshape(-1, 2*self.n)

    def swap(self, e):
        e = np.asarray(e).astype(np.int64)
        n = self.n
        return np.concatenate([e[..., n:], e[..., :n]], axis=-1)

    def syndrome(self, e):
        return (self.swap(e) @ self.H.T) % 2

    def effective(self, e):
        s = self.swap(e)
        return np.concatenate(
            [(s @ self.LZ.T) % 2, (s @ self.LX.T) % 2], axis=-1
        )


def all_paulis(n):
    """All 4^n Pauli errors: digits (0=I,1=X,2=Y,3=Z) and bsf."""
    N = 4**n
    idx = np.arange(N, dtype=np.int64)
    digits = np.empty((N, n), dtype=np.int8)
    for i in range(n):
        digits[:, i] = (idx >> (2*i)) & 3
    xs = (digits == 1) | (digits == 2)
    zs = (digits == 3) | (digits == 2)
    return digits, np.hstack([xs, zs]).astype(np.uint8)


_ENUM_CACHE = {}


def exact_failure_probability(code, ref, error_model, decoder, p):
    """Sum the channel over all 4^n errors."""
    n = code.n
    assert n <= 9
    if n not in _ENUM_CACHE:
        _ENUM_CACHE[n] = all_paulis(n)
    digits, E = _ENUM_CACHE[n]
    p_i, p_x, p_y, p_z = error_model.probability_distribution(code, p)
    table = np.array([p_i, p_x, p_y, p_z], dtype=float)   # 4 x n
    check(np.allclose(table.sum(axis=0), 1, atol=1e-12),
          f'channel not normalised {code.label} p={p}')
    check(np.all(table >= 0), 'negative channel probability')
    prob = np.ones(E.shape[0])
    for i in range(n):
        prob *= table[digits[:, i].astype(np.int64), i]
    check(abs(prob.sum() - 1) < 1e-9, 'enumerated channel does not sum to 1')

    S = ref.syndrome(E)
    m = S.shape[1]
    keys = S @ (1 << np.arange(m, dtype=np.int64))
    uniq, first = np.unique(keys, return_index=True)
    corrections = np.zeros((len(uniq), 2*n), dtype=np.int64)
    for j, row in enumerate(first):
        synd = code.measure_syndrome(E[row])
        c1 = np.asarray(decoder.decode(synd)).astype(np.int64).reshape(-1)
        corrections[j] = c1
    # decoder must be a deterministic function of the syndrome for the
    # exact value to be well defined: decode again in reverse order.
    for j in list(range(len(uniq)))[::-1][:64]:
        synd = code.measure_syndrome(E[first[j]])
        c2 = np.asarray(decoder.decode(synd)).astype(np.int64).reshape(-1)
        assert np.array_equal(c2, corrections[j]), 'decoder not deterministic'
    pos = np.searchsorted(uniq, keys)
    total = (E.astype(np.int64) + corrections[pos]) % 2
    residual = ref.syndrome(total)
    eff = ref.effective(total)
    fail = residual.any(axis=1) | eff.any(axis=1)
    return float(prob[fail].sum())


# ---------------------------------------------------------------------------
# Per-trial self-consistency
# ---------------------------------------------------------------------------

def check_trial(ref, shot, tag):
    n = ref.n
    error = np.asarray(shot['error'])
    check(error.shape == (2*n,), f'{tag}: error shape {error.shape}')
    check(set(np.unique(error)).issubset({0, 1}), f'{tag}: error not binary')
    synd = np.asarray(shot['syndrome']).astype(np.int64).reshape(-1)
    check(np.array_equal(synd, ref.syndrome(error)),
          f'{tag}: syndrome != syndrome(error)')
    corr = np.asarray(shot['correction']).astype(np.int64).reshape(-1)
    total = (error.astype(np.int64) + corr) % 2
    eff = np.asarray(shot['effective_error']).astype(np.int64).reshape(-1)
    check(np.array_equal(eff, ref.effective(total)),
          f'{tag}: effective_error != logical effect of error+correction')
    residual = ref.syndrome(total)
    check(isinstance(shot['codespace'], (bool, np.bool_)),
          f'{tag}: codespace not boolean')
    check(isinstance(shot['success'], (bool, np.bool_)),
          f'{tag}: success not boolean')
    check(bool(shot['codespace']) == (not residual.any()),
          f'{tag}: codespace <=> zero residual syndrome violated')
    check(bool(shot['success']) == (bool(shot['codespace'])
                                    and not eff.any()),
          f'{tag}: success <=> codespace and zero effective error violated')


def check_result_lists(sim, n_expected, tag):
    res = sim._results
    check(res['n_runs'] == n_expected, f'{tag}: n_runs {res["n_runs"]}'
          f' != {n_expected}')
    check(sim.n_results == n_expected, f'{tag}: n_results')
    for key in ('effective_error', 'success', 'codespace'):
        check(isinstance(res[key], list), f'{tag}: {key} is not a list')
        check(len(res[key]) == n_expected,
              f'{tag}: len({key}) = {len(res[key])} != n_runs {n_expected}')
    out = sim.get_results()
    n_fail = sum(1 for s in res['success'] if not s)
    check(int(out['n_runs']) == n_expected, f'{tag}: get_results n_runs')
    check(int(out['n_fail']) == n_fail, f'{tag}: n_fail')
    check(int(out['n_success']) == n_expected - n_fail, f'{tag}: n_success')
    if n_expected:
        check(float(out['p_est']) == n_fail/n_expected,
              f'{tag}: estimator {out["p_est"]} != n_fail/n_runs')
        check(float(out['p_est']) == int(out['n_fail'])/int(out['n_runs']),
              f'{tag}: estimator != reported n_fail / reported n_runs')
    else:
        check(np.isnan(out['p_est']), f'{tag}: p_est of empty run not nan')
    return out


def lists_equal(sim_a, sim_b):
    ra, rb = sim_a._results, sim_b._results
    if ra['n_runs'] != rb['n_runs']:
        return False
    for key in ('effective_error', 'success', 'codespace'):
        if len(ra[key]) != len(rb[key]):
            return False
        for x, y in zip(ra[key], rb[key]):
            x, y = np.asarray(x), np.asarray(y)
            if x.shape != y.shape or x.dtype != y.dtype:
                return False
            if x.tobytes() != y.tobytes():
                return False
    return True


# ---------------------------------------------------------------------------
# Sampling law of the error model
# ---------------------------------------------------------------------------

class ConstRng:
    """Fake generator whose variates all equal a fixed u in [0, 1)."""

    def __init__(self, u):
        self.u = u

    def random(self, size=None):
        if size is None:
            return self.u
        return np.full(size, self.u)


def decode_paulis(error, n):
    error = np.asarray(error)
    x, z = error[:n].astype(int), error[n:].astype(int)
    return np.where(x & z, 2, np.where(x, 1, np.where(z, 3, 0)))


def check_sampling_law(code, em, p, tag):
    n = code.n
    table = np.array(em.probability_distribution(code, p), dtype=float)
    # (1) Inversion samplers: measure of the u's giving each outcome.
    M = 1000
    counts = np.zeros((4, n))
    for k in range(M):
        e = em.generate(code, p, rng=ConstRng((k + 0.5)/M))
        d = decode_paulis(e, n)
        counts[d, np.arange(n)] += 1
    check(np.all(np.abs(counts/M - table) <= 2.5/M),
          f'{tag}: preimage measure of outcomes differs from channel: '
          f'{np.abs(counts/M - table).max()}')
    check(np.all(counts[table == 0] == 0),
          f'{tag}: zero-probability Pauli was sampled')
    # (2) Generic: empirical frequencies with a real generator.
    N = 4000
    rng = np.random.default_rng(2024)
    counts = np.zeros((4, n))
    for _ in range(N):
        e = em.generate(code, p, rng=rng)
        check(e.shape == (2*n,) and np.issubdtype(e.dtype, np.unsignedinteger),
              f'{tag}: generated error has wrong shape/dtype')
        d = decode_paulis(e, n)
        counts[d, np.arange(n)] += 1
    for a in range(4):
        for i in range(n):
            q = table[a, i]
            if q <= 0:
                check(counts[a, i] == 0, f'{tag}: impossible Pauli sampled')
            elif q >= 1:
                check(counts[a, i] == N, f'{tag}: certain Pauli not sampled')
            else:
                pv = stats.binomtest(int(counts[a, i]), N, q).pvalue
                check(pv > 1e-7, f'{tag}: qubit {i} outcome {a} frequency '
                      f'{counts[a, i]/N} vs {q} (p-value {pv})')


# ---------------------------------------------------------------------------
# Main sweep
# ---------------------------------------------------------------------------

CODES = [
    (Planar2DCode, (2, 2)),
    (Planar2DCode, (2, 3)),
    (Planar2DCode, (3, 2)),
    (Toric2DCode, (2, 2)),
    (RotatedPlanar2DCode, (3, 3)),
    (RotatedPlanar2DCode, (2, 4)),
    (RotatedPlanar2DCode, (3, 2)),
]
DIRECTIONS = [
    (1/3, 1/3, 1/3), (0.05, 0.05, 0.9), (1, 0, 0), (0, 0, 1), (0, 1, 0),
    (0.5, 0.5, 0), (0.7, 0.1, 0.2),
]
DEFORMATIONS = [None, 'XZZX', 'XY']
RATES = [0.0, 0.03, 0.11, 0.3, 0.5, 1.0]
N_TRIALS = 1500


def build_configs():
    rs = np.random.default_rng(99)
    configs = []
    i = 0
    for ci, (cls, size) in enumerate(CODES):
        for di, deformation in enumerate(DEFORMATIONS):
            direction = DIRECTIONS[(i*3 + 1) % len(DIRECTIONS)]
            rates = [RATES[(i + j*2) % len(RATES)] for j in range(2)]
            rates.append(RATES[int(rs.integers(1, 4))])
            dec = ['matching', 'bposd'][i % 2]
            configs.append((cls, size, direction, deformation,
                            sorted(set(rates)), dec))
            i += 1
    return configs


def make_decoder(name, code, em, p):
    p_dec = p if 0 < p < 1 else 0.1
    if name == 'matching':
        return MatchingDecoder(code, em, p_dec)
    return BeliefPropagationOSDDecoder(code, em, p_dec, max_bp_iter=10,
                                       osd_order=0)


def main():
    total_fail = 0
    total_expected = 0.0
    total_var = 0.0
    code_cache = {}
    calib_rows = []
    for ic, (cls, size, direction, deformation, rates, dec) in enumerate(
        build_configs()
    ):
        key = (cls.__name__, size)
        if key not in code_cache:
            code = cls(*size)
            code_cache[key] = (code, Ref(code))
        code, ref = code_cache[key]      # same code object reused
        if deformation is not None and \
                deformation not in code.deformation_names:
            continue
        em = PauliErrorModel(*direction, deformation_name=deformation)
        for ip, p in enumerate(rates):
            tag = (f'{cls.__name__}{size} dir={direction} '
                   f'def={deformation} p={p} {dec}')
            decoder = make_decoder(dec, code, em, p)
            try:
                exact = exact_failure_probability(code, ref, em, decoder, p)
            except AssertionError as err:
                print('skipping', tag, err)
                continue
            seed = 1000 + 17*ic + ip

            # --- reproducibility and interleavings of run(k) ---------
            sim = DirectSimulation(code, em, decoder, p, verbose=False,
                                   rng=np.random.default_rng(seed))
            check_result_lists(sim, 0, tag + ' (empty)')
            sim.run(N_TRIALS)
            out = check_result_lists(sim, N_TRIALS, tag)

            chunks = [3, 0, 4, 1, 1, N_TRIALS - 9]
            sim2 = DirectSimulation(code, em, decoder, p, verbose=False,
                                    rng=np.random.default_rng(seed))
            done = 0
            for k in chunks:
                sim2.run(k)
                done += k
                check_result_lists(sim2, done, tag + f' after chunk {k}')
            check(lists_equal(sim, sim2),
                  f'{tag}: run(N) and chunked runs with same seed differ')

            sim3 = DirectSimulation(code, em, decoder, p, verbose=False,
                                    rng=np.random.default_rng(seed))
            sim3.run(N_TRIALS)
            check(lists_equal(sim, sim3),
                  f'{tag}: same seed not bit-for-bit reproducible')
            check(sim3.get_results()['p_est'] == out['p_est'],
                  f'{tag}: estimator not reproducible')

            # --- per-trial consistency, replaying the same stream ----
            rng = np.random.default_rng(seed)
            n_replay = 150
            for t in range(n_replay):
                shot = run_once(code, em, decoder, p, rng=rng)
                check_trial(ref, shot, f'{tag} trial {t}')
                check(np.array_equal(shot['effective_error'],
                                     sim._results['effective_error'][t])
                      and bool(shot['success']) ==
                      bool(sim._results['success'][t])
                      and bool(shot['codespace']) ==
                      bool(sim._results['codespace'][t]),
                      f'{tag}: recorded trial {t} differs from replay')
            for t in range(N_TRIALS):
                eff = np.asarray(sim._results['effective_error'][t])
                cs = bool(sim._results['codespace'][t])
                ok = bool(sim._results['success'][t])
                check(eff.shape == (2*code.k,), f'{tag}: eff shape')
                check(ok == (cs and not eff.any()),
                      f'{tag}: recorded success inconsistent at trial {t}')

            # --- calibration --------------------------------------
            n_fail = int(out['n_fail'])
            if exact <= 1e-15:
                check(n_fail == 0, f'{tag}: failures though exact p_fail=0')
            elif exact >= 1 - 1e-15:
                check(n_fail == N_TRIALS, f'{tag}: successes though p_fail=1')
            else:
                pv = stats.binomtest(n_fail, N_TRIALS, exact).pvalue
                check(pv > 1e-6, f'{tag}: frequency {n_fail/N_TRIALS} vs '
                      f'exact {exact} (p-value {pv})')
                total_fail += n_fail
                total_expected += N_TRIALS*exact
                total_var += N_TRIALS*exact*(1 - exact)
            calib_rows.append((tag, exact, n_fail/N_TRIALS))

    z = (total_fail - total_expected)/np.sqrt(total_var)
    check(abs(z) < 4.5, f'pooled failure count biased: z = {z}')
    print(f'calibration: {len(calib_rows)} configurations, pooled z = '
          f'{z:+.2f}')
    for tag, exact, freq in calib_rows[::5]:
        print(f'   {tag}: exact {exact:.5f}')

    # --- sampling law of the error model ------------------------------
    for (cls, size, direction, deformation, p) in [
        (Planar2DCode, (2, 3), (0.05, 0.05, 0.9), 'XZZX', 0.3),
        (RotatedPlanar2DCode, (3, 3), (0.7, 0.1, 0.2), 'XY', 0.11),
        (Toric2DCode, (2, 2), (1/3, 1/3, 1/3), None, 0.5),
        (Toric2DCode, (2, 3), (0.5, 0.5, 0), 'XY', 1.0),
        (Planar2DCode, (2, 2), (0, 0, 1), 'XZZX', 1.0),
        (Planar2DCode, (2, 2), (1, 0, 0), None, 0.0),
        (RotatedPlanar2DCode, (2, 4), (0, 1, 0), 'XZZX', 0.9),
    ]:
        code = cls(*size)
        em = PauliErrorModel(*direction, deformation_name=deformation)
        check_sampling_law(code, em, p,
                           f'law {cls.__name__}{size} {direction} '
                           f'{deformation} p={p}')
        e = em.generate(code, p)      # no generator given
        check(np.asarray(e).shape == (2*code.n,), 'generate() w/o rng shape')

    # --- a decoder that raises half-way: lists must stay consistent ---
    class Flaky:
        def __init__(self, inner, fail_at):
            self.inner, self.fail_at, self.calls = inner, fail_at, 0
            self.id, self.params = inner.id, inner.params
            self.label = inner.label

        def decode(self, syndrome, **kwargs):
            self.calls += 1
            if self.calls == self.fail_at:
                raise RuntimeError('boom')
            return self.inner.decode(syndrome, **kwargs)

    code = Planar2DCode(2, 3)
    em = PauliErrorModel(0.2, 0.3, 0.5)
    flaky = Flaky(MatchingDecoder(code, em, 0.2), fail_at=6)
    sim = DirectSimulation(code, em, flaky, 0.2, verbose=False,
                           rng=np.random.default_rng(5))
    sim.run(3)
    try:
        sim.run(5)
        check(False, 'flaky decoder did not raise')
    except RuntimeError:
        pass
    n_after_exception = sim._results['n_runs']
    check_result_lists(sim, n_after_exception, 'after exception')
    sim.run(4)
    check_result_lists(sim, n_after_exception + 4, 'resumed after exception')
    # reproducible, including the exception
    flaky2 = Flaky(MatchingDecoder(code, em, 0.2), fail_at=6)
    simb = DirectSimulation(code, em, flaky2, 0.2, verbose=False,
                            rng=np.random.default_rng(5))
    simb.run(3)
    try:
        simb.run(5)
    except RuntimeError:
        pass
    simb.run(4)
    check(lists_equal(sim, simb), 'run with exception not reproducible')

    finish()

    # -----------------------------------------------------------------
    # (b) digest of concrete outputs of the changed functions
    # -----------------------------------------------------------------
    digest = {}
    code = Planar2DCode(2, 3)
    em = PauliErrorModel(0.2, 0.3, 0.5, deformation_name='XY')
    rng = np.random.default_rng(7)
    digest['generate'] = [
        ''.join('IXYZ'[a] for a in decode_paulis(
            em.generate(code, 0.4, rng=rng), code.n))
        for _ in range(4)
    ]
    decoder = MatchingDecoder(code, em, 0.2)
    shot = run_once(code, em, decoder, 0.2, rng=np.random.default_rng(3))
    digest['run_once_keys'] = sorted(shot.keys())
    try:
        run_once(code, em, decoder, 1.5)
    except ValueError as err:
        digest['run_once_message'] = str(err)
    try:
        digest['generate_out_of_range'] = decode_paulis(
            em.generate(code, 1.5, rng=np.random.default_rng(0)), code.n
        ).tolist()
    except ValueError as err:
        digest['generate_out_of_range'] = 'ValueError: ' + str(err)
    sim = DirectSimulation(code, em, decoder, 0.2, verbose=False)
    digest['rng_attribute_when_unseeded'] = type(sim.rng).__name__
    sim = DirectSimulation(code, em, decoder, 0.2, verbose=False,
                           rng=np.random.default_rng(11))
    sim.run(40)
    digest['success_bits'] = ''.join(
        '1' if s else '0' for s in sim._results['success'])
    digest['effective_errors'] = ''.join(
        ''.join(str(int(b)) for b in e)
        for e in sim._results['effective_error'])
    out = sim.get_results()
    digest['get_results_types'] = {
        k: type(v).__name__ for k, v in sorted(out.items())}
    digest['get_results_values'] = {
        k: float(v) for k, v in sorted(out.items())}
    digest['n_runs_after_exception_in_batch'] = int(n_after_exception)

    text = json.dumps(digest, sort_keys=True, indent=1)
    print(text)
    print('checks performed:', N_CHECKS[0])
    print('DIGEST', hashlib.sha256(text.encode()).hexdigest())
    sys.exit(0)


if __name__ == '__main__':
    main()
