import os, sys; sys.path.insert(0, os.getcwd())
"""C12: interrupted batch runs resume without losing or duplicating trials.

(a) checks the property directly: stop/restart sequences (between trials,
    KeyboardInterrupt between trials and at byte offsets of checkpoint writes,
    real process death (os._exit in a child process) at byte offsets of
    checkpoint writes and around the final rename), plain and gzip output,
    varying save/update frequencies, non-decreasing targets, growing
    specifications, re-use of the same BatchSimulation object;
(b) prints a digest of concrete outputs of the functions of the resume /
    checkpoint machinery (save_json, BatchSimulation._run / load_results /
    _update_file).

Exit status 1 with a message if the property is violated.
"""
import builtins
import contextlib
import copy
import gzip
import hashlib
import importlib
import io
import json
import random
import shutil
import subprocess
import tempfile
import traceback
import warnings

import numpy as np

warnings.filterwarnings('ignore')

LISTS = ('effective_error', 'success', 'codespace')
REAL_OPEN = builtins.open
REAL_REPLACE = os.replace
KILL_CODE = 137
VIOLATION_CODE = 3


class Violation(Exception):
    pass


class Kill(BaseException):
    """In-process stand-in for the death of the process between trials."""


def fail(msg):
    raise Violation(msg)


@contextlib.contextmanager
def quiet():
    with contextlib.redirect_stdout(io.StringIO()):
        yield


# --------------------------------------------------------------------------
# Specifications
# --------------------------------------------------------------------------

UNBIASED = {"r_x": 1/3, "r_y": 1/3, "r_z": 1/3}
Z10 = {"r_x": 1/22, "r_y": 1/22, "r_z": 10/11}
X_ONLY = {"r_x": 1, "r_y": 0, "r_z": 0}
Z_ONLY = {"r_x": 0, "r_y": 0, "r_z": 1}
XZ = {"r_x": 0.5, "r_y": 0, "r_z": 0.5}

BPOSD = {"name": "BeliefPropagationOSDDecoder",
         "parameters": {"max_bp_iter": 10, "osd_order": 0}}


def ranges(label, code, sizes, noises, decoder, rates):
    return {"ranges": {
        "label": label,
        "code": {"name": code, "parameters": sizes},
        "error_model": {"name": "PauliErrorModel", "parameters": noises},
        "decoder": decoder,
        "error_rate": rates,
    }}


SPECS = {
    'toric_bposd': ranges(
        'a', 'Toric2DCode', [{"L_x": 3, "L_y": 4}, {"L_x": 4, "L_y": 3}],
        [UNBIASED, Z10], BPOSD, [0.05, 0.3]),
    'planar_xzzx_match': ranges(
        'b', 'Planar2DCode', [{"L_x": 3, "L_y": 2}],
        [dict(Z10, deformation_name="XZZX")],
        {"name": "MatchingDecoder"}, [0, 0.5, 1]),
    'toric_xy': ranges(
        'c', 'Toric2DCode', [{"L_x": 2, "L_y": 3}],
        [dict(Z10, deformation_name="XY"), Z10],
        {"name": "BeliefPropagationOSDDecoder",
         "parameters": {"max_bp_iter": 5}}, [0.2]),
    'rot_mbp': ranges(
        'd', 'RotatedPlanar2DCode', [{"L_x": 3, "L_y": 5}], [Z_ONLY],
        {"name": "MemoryBeliefPropagationDecoder",
         "parameters": {"max_bp_iter": 5}}, [0.1, 0.4]),
    'toric3d_sweep': ranges(
        'e', 'Toric3DCode', [{"L_x": 2, "L_y": 3, "L_z": 2}], [XZ],
        {"name": "SweepMatchDecoder"}, [0.1, 0.25]),
    'color_bposd': ranges(
        'f', 'Color666PlanarCode', [{"L_x": 2}], [UNBIASED],
        {"name": "BeliefPropagationOSDDecoder",
         "parameters": {"max_bp_iter": 5}}, [0.15, 0.45]),
    'toric_uf': ranges(
        'g', 'Toric2DCode', [{"L_x": 3, "L_y": 3}], [X_ONLY],
        {"name": "UnionFindDecoder"}, [0.1, 0.3]),
}
# The 'runs' form and the list-of-ranges form of the input.
SPECS['runs_form'] = {"runs": [
    {"label": "r", "code": {"name": "Toric2DCode",
                            "parameters": {"L_x": 3, "L_y": 2}},
     "error_model": {"name": "PauliErrorModel", "parameters": dict(Z10)},
     "decoder": copy.deepcopy(BPOSD), "error_rate": 0.2},
    {"label": "r", "code": {"name": "Planar2DCode",
                            "parameters": {"L_x": 2, "L_y": 3}},
     "error_model": {"name": "PauliErrorModel",
                     "parameters": dict(UNBIASED)},
     "decoder": {"name": "MatchingDecoder"}, "error_rate": 0.35},
]}
SPECS['combined'] = {"ranges": [
    SPECS['toric_xy']['ranges'], SPECS['toric_uf']['ranges']
]}

# What can be appended to a specification between two runs.
GROWTH = {
    'toric_bposd': [('size', {"L_x": 2, "L_y": 5}), ('rate', 0.15),
                    ('noise', X_ONLY)],
    'planar_xzzx_match': [('rate', 0.25), ('size', {"L_x": 2, "L_y": 4})],
    'toric_xy': [('rate', 0.4), ('size', {"L_x": 3, "L_y": 2})],
    'rot_mbp': [('rate', 0.25), ('size', {"L_x": 3, "L_y": 3})],
    'toric3d_sweep': [('rate', 0.05)],
    'color_bposd': [('rate', 0.3)],
    'toric_uf': [('size', {"L_x": 4, "L_y": 3}), ('rate', 0.2)],
}


def grow(data, what, value):
    data = copy.deepcopy(data)
    r = data['ranges']
    if what == 'size':
        r['code']['parameters'].append(value)
    elif what == 'rate':
        r['error_rate'].append(value)
    elif what == 'noise':
        r['error_model']['parameters'].append(value)
    return data


# --------------------------------------------------------------------------
# Independent reading / checking of result files
# --------------------------------------------------------------------------

def read_results(path):
    if not os.path.isfile(path):
        return None
    with REAL_OPEN(path, 'rb') as f:
        raw = f.read()
    try:
        if path.endswith('.gz'):
            raw = gzip.decompress(raw)
        return json.loads(raw.decode('utf-8'))
    except Exception as err:
        fail(f'results file {path} is not readable any more: {err!r}')


def np_default(obj):
    if isinstance(obj, np.integer):
        return int(obj)
    if isinstance(obj, np.floating):
        return float(obj)
    if isinstance(obj, np.ndarray):
        return obj.tolist()
    raise TypeError(repr(obj))


def canon(inputs):
    return json.dumps(json.loads(json.dumps(inputs, default=np_default)),
                      sort_keys=True)


def check_snapshot(snap, where):
    if snap is None:
        return
    if not isinstance(snap, list):
        fail(f'{where}: results file does not hold a list')
    seen = set()
    for entry in snap:
        res = entry['results']
        n = res['n_runs']
        for name in LISTS:
            if len(res[name]) != n:
                fail(f'{where}: n_runs={n} but len({name})='
                     f'{len(res[name])} for {canon(entry["inputs"])}')
        k = canon(entry['inputs'])
        if k in seen:
            fail(f'{where}: two entries for the same inputs {k}')
        seen.add(k)


def check_prefix(old, new, where):
    """Everything in the completed save `old` is an unchanged prefix in
    `new`."""
    if old is None:
        return
    if new is None:
        fail(f'{where}: results file vanished')
    new_map = {canon(e['inputs']): e for e in new}
    for entry in old:
        k = canon(entry['inputs'])
        if k not in new_map:
            fail(f'{where}: saved simulation {k} disappeared')
        for name in LISTS:
            o = entry['results'][name]
            n = new_map[k]['results'][name]
            if n[:len(o)] != o:
                fail(f'{where}: saved trials of {k} changed in {name}: '
                     f'{o} is not a prefix of {n}')


def trial_tuples(results):
    return [
        (tuple(int(x) for x in e), bool(s), bool(c))
        for e, s, c in zip(results['effective_error'], results['success'],
                           results['codespace'])
    ]


def is_subsequence(small, big):
    it = iter(big)
    return all(any(x == y for y in it) for x in small)


# --------------------------------------------------------------------------
# Fault injection harness
# --------------------------------------------------------------------------

class BufferedTrip:
    """File object that keeps what is written in memory and, when closed,
    puts only a prefix of it on disk and then triggers the fault: the disk
    is then exactly in the state a process leaves behind that dies (or is
    interrupted) at that byte offset of the write."""

    def __init__(self, real, frac, binary, action):
        self._real = real
        self._frac = frac
        self._chunks = []
        self._binary = binary
        self._action = action
        self._done = False

    def write(self, data):
        self._chunks.append(data)
        return len(data)

    def flush(self):
        pass

    def _trip(self):
        if self._done:
            return
        self._done = True
        data = (b'' if self._binary else '').join(self._chunks)
        if self._frac == 'last':
            cut = max(len(data) - 1, 0)
        else:
            cut = int(len(data) * self._frac)
        self._real.write(data[:cut])
        self._real.flush()
        os.fsync(self._real.fileno())
        self._action()
        # only reached if the action returns
        self._real.write(data[cut:])

    def close(self):
        try:
            self._trip()
        finally:
            self._real.close()

    def __enter__(self):
        return self

    def __exit__(self, *exc):
        self.close()
        return False

    def __getattr__(self, name):
        return getattr(self._real, name)


class Harness:
    """Tracks every completed save of `out`, checks each against the previous
    one, logs every trial produced, and injects at most one fault per arm()."""

    def __init__(self, out, in_child=False):
        self.out = out
        self.dir = os.path.dirname(out)
        self.in_child = in_child
        self.last = read_results(out)
        check_snapshot(self.last, 'initial')
        self.n_saves = 0
        self.produced = {}      # canon(inputs) -> list of trial tuples
        self.decoder_key = {}   # id(decoder) -> canon(inputs)
        self.keep_alive = []
        self.stop = None
        self.tripped = False
        self.counts = {'trial': 0, 'write': 0, 'replace': 0}
        self._sim_mod = importlib.import_module(
            'panqec.simulation._direct_simulation')
        self._real_run_once = self._sim_mod.run_once

    # -- registration ------------------------------------------------------
    def register(self, batch):
        self.keep_alive.append(batch)
        for sim in batch._simulations:
            self.decoder_key[id(sim.decoder)] = canon(sim._inputs)

    def arm(self, stop):
        self.stop = stop
        self.tripped = False
        self.counts = {'trial': 0, 'write': 0, 'replace': 0}

    # -- fault -------------------------------------------------------------
    def _fault(self):
        self.tripped = True
        mode = self.stop['mode']
        self.stop = None
        if mode == 'kbd':
            raise KeyboardInterrupt('injected')
        if mode == 'kill':
            if self.in_child:
                sys.stdout.flush()
                os._exit(KILL_CODE)
            raise Kill()
        raise AssertionError(mode)

    # -- patched functions -------------------------------------------------
    def run_once(self, code, error_model, decoder, *args, **kwargs):
        s = self.stop
        if s is not None and s['kind'] == 'trial' \
                and self.counts['trial'] == s['k']:
            self._fault()
        self.counts['trial'] += 1
        out = self._real_run_once(code, error_model, decoder, *args, **kwargs)
        key = self.decoder_key.get(id(decoder))
        if key is not None:
            self.produced.setdefault(key, []).append((
                tuple(int(x) for x in out['effective_error']),
                bool(out['success']), bool(out['codespace'])
            ))
        return out

    def open(self, file, mode='r', *args, **kwargs):
        real = REAL_OPEN(file, mode, *args, **kwargs)
        try:
            path = os.fspath(file)
        except TypeError:
            return real
        if (isinstance(path, str) and isinstance(mode, str)
                and os.path.dirname(os.path.abspath(path)) == self.dir
                and any(c in mode for c in 'wax+')):
            self.counts['write'] += 1
            s = self.stop
            if s is not None and s['kind'] == 'write' \
                    and self.counts['write'] == s['k']:
                return BufferedTrip(real, s['frac'], 'b' in mode, self._fault)
        return real

    def replace(self, src, dst, *args, **kwargs):
        if os.path.abspath(os.fspath(dst)) != os.path.abspath(self.out):
            return REAL_REPLACE(src, dst, *args, **kwargs)
        self.counts['replace'] += 1
        s = self.stop
        if s is not None and s['kind'] == 'replace_before' \
                and self.counts['replace'] == s['k']:
            self._fault()
        result = REAL_REPLACE(src, dst, *args, **kwargs)
        self.completed_save('after save')
        s = self.stop
        if s is not None and s['kind'] == 'replace_after' \
                and self.counts['replace'] == s['k']:
            self._fault()
        return result

    def completed_save(self, where):
        snap = read_results(self.out)
        where = f'{where} #{self.n_saves} of {self.out}'
        check_snapshot(snap, where)
        check_prefix(self.last, snap, where)
        self.last = snap
        self.n_saves += 1

    @contextlib.contextmanager
    def installed(self):
        builtins.open = self.open
        os.replace = self.replace
        self._sim_mod.run_once = self.run_once
        try:
            yield self
        finally:
            builtins.open = REAL_OPEN
            os.replace = REAL_REPLACE
            self._sim_mod.run_once = self._real_run_once


def make_batch(data, out, save_frequency=1, update_frequency=5):
    from panqec.simulation import read_input_dict
    with quiet():
        return read_input_dict(
            copy.deepcopy(data), out, verbose=False,
            save_frequency=save_frequency, update_frequency=update_frequency,
        )


def check_loaded(batch, snap, where):
    """After loading, every simulation holds exactly the saved results of the
    entry with ITS inputs, and nothing if there is no such entry."""
    file_map = {} if snap is None else {
        canon(e['inputs']): e['results'] for e in snap
    }
    for sim in batch._simulations:
        k = canon(sim._inputs)
        res = sim._results
        if k in file_map:
            want = file_map[k]
            if res['n_runs'] != want['n_runs']:
                fail(f'{where}: {k} loaded n_runs={res["n_runs"]}, file has '
                     f'{want["n_runs"]}')
            got = {
                'effective_error': [np.asarray(x).tolist()
                                    for x in res['effective_error']],
                'success': list(res['success']),
                'codespace': list(res['codespace']),
            }
            for name in LISTS:
                if got[name] != want[name]:
                    fail(f'{where}: {k} loaded {name}={got[name]}, file has '
                         f'{want[name]}')
        else:
            if res['n_runs'] != 0 or any(len(res[n]) for n in LISTS):
                fail(f'{where}: {k} is not in the file but adopted '
                     f'{res["n_runs"]} trials of another simulation')


def check_complete(batch, snap, target, where):
    if snap is None:
        if target > 0:
            fail(f'{where}: completed run left no results file')
        return
    want = sorted(canon(sim._inputs) for sim in batch._simulations)
    file_map = {canon(e['inputs']): e for e in snap}
    for k in want:
        if k not in file_map:
            fail(f'{where}: no entry for simulation {k}')
        n = file_map[k]['results']['n_runs']
        if n != target:
            fail(f'{where}: {k} has {n} trials instead of {target}')


def check_produced(harness, snap, where):
    if snap is None:
        return
    for entry in snap:
        k = canon(entry['inputs'])
        saved = trial_tuples(entry['results'])
        if not is_subsequence(saved, harness.produced.get(k, [])):
            fail(f'{where}: saved trials of {k} are not (in order, each used '
                 f'once) trials that were run for that simulation')


def step(harness, data, target, sf, uf, stop, where, reuse=None,
         verify_load=True):
    """One (possibly interrupted) run. Returns (batch, tripped)."""
    out = harness.out
    if reuse is not None:
        batch = reuse
        batch.save_frequency = sf
        batch.update_frequency = uf
    else:
        batch = make_batch(data, out, sf, uf)
        harness.register(batch)
        if verify_load:
            probe = make_batch(data, out, sf, uf)
            with quiet():
                probe.load_results()
            check_loaded(probe, harness.last, where + ' [load]')
    harness.arm(stop)
    try:
        with quiet():
            batch.run(target)
    except Kill:
        pass
    except Violation:
        raise
    except BaseException as err:
        fail(f'{where}: run raised {err!r}\n{traceback.format_exc()}')
    tripped = harness.tripped
    harness.arm(None)
    snap = read_results(out)
    check_snapshot(snap, where)
    check_prefix(harness.last, snap, where)
    harness.last = snap
    if not tripped:
        check_complete(batch, snap, target, where)
    return batch, tripped


# --------------------------------------------------------------------------
# (a1) random stop / restart sequences, in process
# --------------------------------------------------------------------------

def random_stop(rng, target):
    kind = rng.choice(['trial', 'trial', 'write', 'write', 'replace_before',
                       'replace_after', None])
    if kind is None:
        return None
    if kind == 'trial':
        return {'kind': 'trial', 'k': rng.randrange(0, 4 * target + 1),
                'mode': rng.choice(['kbd', 'kill'])}
    if kind == 'write':
        return {'kind': 'write', 'k': rng.randrange(1, target + 2),
                'frac': rng.choice([0.0, 0.5, 'last', 1.0]), 'mode': 'kbd'}
    return {'kind': kind, 'k': rng.randrange(1, target + 2), 'mode': 'kbd'}


def run_sequences(workdir):
    n_steps = n_tripped = 0
    for i_spec, (name, base) in enumerate(SPECS.items()):
        for i_seq in range(3):
            rng = random.Random(1000 * i_spec + i_seq)
            ext = '.json' if (i_spec + i_seq) % 2 == 0 else '.json.gz'
            d = tempfile.mkdtemp(dir=workdir)
            # sometimes the output directory does not exist yet
            out = os.path.join(d, 'sub', 'out' + ext) if i_seq == 2 \
                else os.path.join(d, 'out' + ext)
            if i_seq == 2:
                os.makedirs(os.path.dirname(out))
            harness = Harness(out)
            data = copy.deepcopy(base)
            growth = list(GROWTH.get(name, []))
            target = 0
            batch = None
            died = False
            with harness.installed():
                for i_step in range(6):
                    last_step = i_step == 5
                    target += rng.choice([0, 1, 2, 3])
                    if last_step:
                        target += 1
                    sf = rng.choice([1, 1, 2, 3, 5, 7])
                    uf = rng.choice([1, 2, 5, 100])
                    stop = None if last_step else random_stop(rng, target)
                    grown = False
                    if growth and rng.random() < 0.4:
                        data = grow(data, *growth.pop(0))
                        grown = True
                    reuse = None
                    if batch is not None and not grown and not died \
                            and rng.random() < 0.35:
                        reuse = batch
                    died = stop is not None and stop['mode'] == 'kill'
                    where = f'{name}/seq{i_seq}/step{i_step}' \
                            f'(target={target},sf={sf},uf={uf},stop={stop},' \
                            f'grown={grown},reuse={reuse is not None})'
                    batch, tripped = step(
                        harness, data, target, sf, uf, stop, where, reuse
                    )
                    n_steps += 1
                    n_tripped += tripped
                # the completed file only holds trials that were really run
                check_produced(harness, harness.last, f'{name}/seq{i_seq}')
                # running the finished specification again changes nothing
                before = read_results(out)
                batch, _ = step(harness, data, target, 1, 1, None,
                                f'{name}/seq{i_seq}/rerun')
                after = read_results(out)
                for e0, e1 in zip(before, after):
                    for lname in LISTS:
                        if e0['results'][lname] != e1['results'][lname]:
                            fail(f'{name}/seq{i_seq}: re-running a finished '
                                 'file changed the trials')
    return n_steps, n_tripped


# --------------------------------------------------------------------------
# (a2) marked files: results of other parameters are never adopted
# --------------------------------------------------------------------------

def run_marked(workdir):
    n = 0
    for i_spec, (name, base) in enumerate(SPECS.items()):
        if name not in GROWTH:
            continue
        for ext in ('.json', '.json.gz'):
            d = tempfile.mkdtemp(dir=workdir)
            out = os.path.join(d, 'marked' + ext)
            harness = Harness(out)
            with harness.installed():
                step(harness, base, 2, 1, 5, None, f'marked/{name}/init')
                snap = read_results(out)
                # give every saved simulation its own recognisable history
                for i, entry in enumerate(snap):
                    res = entry['results']
                    width = len(res['effective_error'][0])
                    m = i + 1
                    res['n_runs'] = m
                    res['effective_error'] = [
                        [((i + j) >> b) & 1 for b in range(width)]
                        for j in range(m)
                    ]
                    res['success'] = [(i + j) % 3 == 0 for j in range(m)]
                    res['codespace'] = [(i + j) % 2 == 0 for j in range(m)]
                raw = json.dumps(snap).encode()
                with REAL_OPEN(out, 'wb') as f:
                    f.write(gzip.compress(raw) if ext.endswith('.gz')
                            else raw)
                harness.last = read_results(out)
                harness.produced.clear()
                data = copy.deepcopy(base)
                for g in GROWTH[name]:
                    data = grow(data, *g)
                target = len(snap) + 2
                # interrupted first, then completed
                step(harness, data, target, 2, 3,
                     {'kind': 'trial', 'k': 3, 'mode': 'kill'},
                     f'marked/{name}/grown-interrupted')
                batch, _ = step(harness, data, target, 2, 3, None,
                                f'marked/{name}/grown')
                final = {canon(e['inputs']): e for e in read_results(out)}
                if len(final) != len(batch._simulations):
                    fail(f'marked/{name}: {len(final)} entries for '
                         f'{len(batch._simulations)} simulations')
                for entry in snap:
                    k = canon(entry['inputs'])
                    for lname in LISTS:
                        m = entry['results']['n_runs']
                        if final[k]['results'][lname][:m] \
                                != entry['results'][lname]:
                            fail(f'marked/{name}: history of {k} not kept')
                # trials after the marked prefix were all really run for
                # that very simulation
                for k, entry in final.items():
                    m = 0
                    for e in snap:
                        if canon(e['inputs']) == k:
                            m = e['results']['n_runs']
                    tail = trial_tuples(entry['results'])[m:]
                    if not is_subsequence(tail, harness.produced.get(k, [])):
                        fail(f'marked/{name}: {k} holds trials that were '
                             'not run for it')
                n += 1
    return n


# --------------------------------------------------------------------------
# (a3) real process death at byte offsets of checkpoint writes
# --------------------------------------------------------------------------

def child_main(cfg_path):
    with REAL_OPEN(cfg_path) as f:
        cfg = json.load(f)
    harness = Harness(cfg['out'], in_child=True)
    try:
        with harness.installed():
            step(harness, cfg['data'], cfg['target'], cfg['sf'], cfg['uf'],
                 cfg['stop'], 'child', verify_load=False)
    except Violation as err:
        sys.stderr.write(f'PROPERTY VIOLATION in child: {err}\n')
        sys.stderr.flush()
        os._exit(VIOLATION_CODE)
    os._exit(0)


def run_child(workdir, data, out, target, sf, uf, stop, where):
    cfg = os.path.join(workdir, 'child_cfg.json')
    with REAL_OPEN(cfg, 'w') as f:
        json.dump({'data': data, 'out': out, 'target': target, 'sf': sf,
                   'uf': uf, 'stop': stop}, f)
    proc = subprocess.run(
        [sys.executable, os.path.abspath(__file__), '--child', cfg],
        cwd=os.getcwd(), stdout=subprocess.DEVNULL, stderr=subprocess.PIPE,
    )
    if proc.returncode not in (0, KILL_CODE):
        fail(f'{where}: child ended with {proc.returncode}:\n'
             + proc.stderr.decode()[-3000:])
    return proc.returncode == KILL_CODE


def run_kills(workdir):
    plans = []
    for frac in (0.0, 0.5, 'last', 1.0):
        for k in (1, 2, 4):
            plans.append({'kind': 'write', 'k': k, 'frac': frac,
                          'mode': 'kill'})
    for kind in ('replace_before', 'replace_after'):
        for k in (1, 3):
            plans.append({'kind': kind, 'k': k, 'mode': 'kill'})
    plans.append({'kind': 'trial', 'k': 7, 'mode': 'kill'})
    names = ['toric_bposd', 'planar_xzzx_match', 'toric_xy', 'runs_form']
    n_killed = n_children = 0
    for i_plan, stop in enumerate(plans):
        # every plan on both formats, alternating specifications
        for j, ext in enumerate(('.json', '.json.gz')):
            name = names[(i_plan + j) % len(names)]
            data = SPECS[name]
            d = tempfile.mkdtemp(dir=workdir)
            out = os.path.join(d, 'killed' + ext)
            where = f'kill/{name}{ext}/{stop}'
            # a first clean stretch so that there is something to lose
            harness = Harness(out)
            with harness.installed():
                step(harness, data, 2, 1, 5, None, where + '/init')
            before = read_results(out)
            killed = run_child(workdir, data, out, 9, 2, 3, stop, where)
            n_children += 1
            n_killed += killed
            harness = Harness(out)   # reads + checks what is on disk now
            check_prefix(before, harness.last, where + '/after kill')
            with harness.installed():
                # resume (same target), then extend
                step(harness, data, 9, 2, 3, None, where + '/resume')
                step(harness, data, 10, 3, 2, None, where + '/extend')
            check_prefix(before, harness.last, where + '/final')
    return n_children, n_killed


# --------------------------------------------------------------------------
# (b) digest of concrete outputs of the changed functions
# --------------------------------------------------------------------------

def digest(workdir):
    from panqec.utils import save_json
    from panqec.simulation import BatchSimulation, DirectSimulation
    from panqec.codes import Toric2DCode
    from panqec.error_models import PauliErrorModel
    from panqec.decoders import BeliefPropagationOSDDecoder
    base_mod = importlib.import_module('panqec.simulation._base_simulation')
    batch_mod = importlib.import_module('panqec.simulation._batch_simulation')

    facts = {}
    pid = str(os.getpid())

    # save_json: bytes on disk, scratch file used, leftovers on failure
    d = tempfile.mkdtemp(dir=workdir)
    fixed = [{'a': [1, 2, {'b': None}], 'c': np.arange(3), 'd': 0.5,
              'e': [True, False]}]
    seen_src = []

    def spy_replace(src, dst, *a, **k):
        seen_src.append(os.path.basename(src).replace(pid, 'PID'))
        return REAL_REPLACE(src, dst, *a, **k)

    os.replace = spy_replace
    try:
        save_json(fixed, os.path.join(d, 'x.json'))
        save_json(fixed, os.path.join(d, 'x.json.gz'))
    finally:
        os.replace = REAL_REPLACE
    plain = REAL_OPEN(os.path.join(d, 'x.json'), 'rb').read()
    gz = REAL_OPEN(os.path.join(d, 'x.json.gz'), 'rb').read()
    facts['save_json.plain_bytes'] = plain.decode()
    facts['save_json.gz_flags'] = gz[3]
    facts['save_json.gz_mtime_is_zero'] = gz[4:8] == b'\0\0\0\0'
    facts['save_json.gz_payload_sha'] = hashlib.sha256(
        gzip.decompress(gz)).hexdigest()[:16]
    facts['save_json.scratch_names'] = seen_src
    try:
        save_json([{'bad': {1, 2}}], os.path.join(d, 'y.json'))
        facts['save_json.unencodable'] = 'no error'
    except TypeError:
        facts['save_json.unencodable'] = 'TypeError'
    facts['save_json.leftovers'] = sorted(
        n.replace(pid, 'PID') for n in os.listdir(d))

    # BatchSimulation: schedule of the trials, reads and writes
    def build(out, sf, uf):
        batch = BatchSimulation(out, save_frequency=sf, update_frequency=uf,
                                verbose=False)
        for L, p in [((2, 3), 0.1), ((3, 2), 0.2), ((2, 2), 0.3)]:
            code = Toric2DCode(*L)
            em = PauliErrorModel(1/3, 1/3, 1/3)
            dec = BeliefPropagationOSDDecoder(code, em, p, max_bp_iter=5)
            batch.append(DirectSimulation(code, em, dec, p, verbose=False))
        return batch

    def observe(out, n_trials, sf, uf, tag):
        batch = build(out, sf, uf)
        calls, loads, writes, prog = [], [], [], []
        real_run = base_mod.BaseSimulation.run
        real_load = {m: m.load_json for m in (base_mod, batch_mod)}

        def spy_run(self, n_runs):
            calls.append([batch._simulations.index(self), n_runs])
            return real_run(self, n_runs)

        def spy_load(m):
            def inner(file):
                loads.append(m.__name__.rsplit('.', 1)[-1])
                return real_load[m](file)
            return inner

        def spy_replace(src, dst, *a, **k):
            writes.append(os.path.basename(dst))
            return REAL_REPLACE(src, dst, *a, **k)

        def progress(items):
            prog.extend(items)
            return items

        base_mod.BaseSimulation.run = spy_run
        for m in real_load:
            m.load_json = spy_load(m)
        os.replace = spy_replace
        try:
            with quiet():
                batch.run(n_trials, progress=progress)
        finally:
            base_mod.BaseSimulation.run = real_run
            for m, f in real_load.items():
                m.load_json = f
            os.replace = REAL_REPLACE
        facts[tag + '.run_calls'] = calls
        facts[tag + '.progress_items'] = prog
        facts[tag + '.load_json_calls'] = loads
        facts[tag + '.n_file_writes'] = len(writes)
        snap = read_results(out)
        facts[tag + '.final_n_runs'] = [e['results']['n_runs'] for e in snap]

    out = os.path.join(d, 'sched.json')
    observe(out, 1, 1, 5, 'first_save')
    observe(out, 7, 3, 100, 'resume_to_7')
    observe(os.path.join(d, 'fresh.json'), 6, 4, 3, 'fresh_6')

    text = json.dumps(facts, sort_keys=True, default=np_default)
    for k in sorted(facts):
        print(f'  {k} = {json.dumps(facts[k], default=np_default)}')
    print('DIGEST', hashlib.sha256(text.encode()).hexdigest())


def main():
    workdir = tempfile.mkdtemp(prefix='c12_holds_')
    try:
        try:
            n_steps, n_tripped = run_sequences(workdir)
            print(f'sequences: {n_steps} runs, {n_tripped} of them '
                  'interrupted by an injected fault: OK')
            n_marked = run_marked(workdir)
            print(f'marked files: {n_marked} grown specifications: OK')
            n_children, n_killed = run_kills(workdir)
            print(f'process deaths: {n_children} child runs, {n_killed} '
                  'died at the planned point: OK')
        except Violation as err:
            print('PROPERTY VIOLATION:', err)
            sys.exit(1)
        print('property C12 holds on all inputs tried')
        digest(workdir)
    finally:
        shutil.rmtree(workdir, ignore_errors=True)


if __name__ == '__main__':
    if len(sys.argv) > 2 and sys.argv[1] == '--child':
        child_main(sys.argv[2])
    else:
        main()
