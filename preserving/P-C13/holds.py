import os, sys; sys.path.insert(0, os.getcwd())
"""C13: input specifications expand to exactly the requested simulations.

(a) checks the property on a varied set of specifications, exits 1 on failure
(b) prints a digest of concrete outputs of the functions that were changed
"""
import copy
import contextlib
import hashlib
import io
import itertools
import json
import tempfile
from collections import Counter

import numpy as np

import panqec
import panqec.codes
import panqec.decoders
import panqec.error_models
from panqec.config import CODES, ERROR_MODELS, DECODERS
from panqec.simulation import (
    read_input_dict, read_input_json, expand_input_ranges, count_runs,
    BatchSimulation, DirectSimulation,
)
from panqec.simulation import _batch_simulation as bs
from panqec.utils import load_json

FAILURES = []


def fail(msg):
    FAILURES.append(msg)
    print('PROPERTY FAILURE:', msg)


def quiet(f, *args, **kwargs):
    with contextlib.redirect_stdout(io.StringIO()):
        return f(*args, **kwargs)


# --------------------------------------------------------------------------
# helpers: canonical descriptions
# --------------------------------------------------------------------------
def canon(x):
    """JSON-canonical form (ints and equal floats collapse: 1 == 1.0)."""
    def norm(v):
        if isinstance(v, dict):
            return {str(k): norm(w) for k, w in sorted(v.items())}
        if isinstance(v, (list, tuple)):
            return [norm(w) for w in v]
        if isinstance(v, bool) or v is None or isinstance(v, str):
            return v
        if isinstance(v, (int, float, np.integer, np.floating)):
            return float(v)
        return repr(v)
    return json.dumps(norm(x), sort_keys=True)


def build(cls, params, **extra):
    if isinstance(params, dict):
        return cls(**params, **extra)
    return cls(*params, **extra)


def code_fingerprint(code):
    H = code.stabilizer_matrix
    H = H.toarray() if hasattr(H, 'toarray') else np.asarray(H)
    return (
        type(code).__name__, canon(code.params), code.label, code.n,
        tuple(map(tuple, code.qubit_coordinates)),
        tuple(map(tuple, code.stabilizer_coordinates)),
        hashlib.sha256(np.ascontiguousarray(H.astype(np.uint8))
                       .tobytes()).hexdigest(),
    )


def noise_fingerprint(noise, code=None, p=0.13):
    fp = [type(noise).__name__, canon(noise.params), noise.label,
          canon(list(noise.direction))]
    if code is not None:
        dist = noise.probability_distribution(code, p)
        fp.append(hashlib.sha256(
            np.ascontiguousarray(np.array(dist, dtype=float)).tobytes()
        ).hexdigest())
    return tuple(fp)


def decoder_fingerprint(decoder):
    return (type(decoder).__name__, canon(decoder.params), decoder.label,
            float(decoder.error_rate))


def sim_key(sim):
    return (
        code_fingerprint(sim.code)[:3],
        noise_fingerprint(sim.error_model)[:2],
        decoder_fingerprint(sim.decoder)[:2],
        float(sim.error_rate),
    )


def expected_key(code_name, cp, noise_name, npar, dec_name, dpar, p):
    """Build everything directly from the classes and describe it."""
    code = build(getattr_any(code_name), cp)
    noise = build(getattr_any(noise_name), npar)
    decoder = getattr_any(dec_name)(code, noise, p, **dpar)
    return (
        code_fingerprint(code)[:3],
        noise_fingerprint(noise)[:2],
        decoder_fingerprint(decoder)[:2],
        float(p),
    ), (code, noise, decoder)


def getattr_any(name):
    for mod in (panqec.codes, panqec.error_models, panqec.decoders):
        if hasattr(mod, name):
            return getattr(mod, name)
    from panqec.decoders.matching._matching_decoder import MatchingDecoder
    if name == 'MatchingDecoder':
        return MatchingDecoder
    raise KeyError(name)


def as_list(params):
    """The library's reading of a 'parameters' entry of a ranges spec."""
    if isinstance(params, list):
        return params if len(params) > 0 else [{}]
    return [params]


# --------------------------------------------------------------------------
# 1. registries
# --------------------------------------------------------------------------
EXPECTED_CODES = {
    'Toric2DCode', 'Planar2DCode', 'RotatedPlanar2DCode',
    'Color666PlanarCode', 'Color666ToricCode', 'Color488Code', 'Color3DCode',
    'Toric3DCode', 'Planar3DCode', 'RotatedPlanar3DCode',
    'RotatedToric3DCode', 'RhombicToricCode', 'RhombicPlanarCode',
    'XCubeCode', 'HollowPlanar3DCode', 'HollowRhombicCode',
}
EXPECTED_NOISE = {'PauliErrorModel'}
EXPECTED_DECODERS = {
    'MatchingDecoder', 'SweepMatchDecoder', 'RotatedSweepMatchDecoder',
    'BeliefPropagationOSDDecoder', 'MemoryBeliefPropagationDecoder',
    'XCubeMatchingDecoder', 'UnionFindDecoder',
}


def check_registries():
    for reg_name, reg, expected in [
        ('CODES', CODES, EXPECTED_CODES),
        ('ERROR_MODELS', ERROR_MODELS, EXPECTED_NOISE),
        ('DECODERS', DECODERS, EXPECTED_DECODERS),
    ]:
        if set(reg.keys()) != expected:
            fail(f'{reg_name} has names {sorted(reg)} != {sorted(expected)}')
        if len(list(reg.keys())) != len(set(reg.keys())):
            fail(f'{reg_name} duplicated names')
        for name, cls in reg.items():
            if not isinstance(cls, type):
                fail(f'{reg_name}[{name}] is not a class')
                continue
            if cls.__name__ != name:
                fail(f'{reg_name}[{name}] resolves to {cls.__name__}')
            if cls is not getattr_any(name):
                fail(f'{reg_name}[{name}] is not the exported class')
        # Also the registries used by the expansion module are the same ones.
        if getattr(bs, reg_name) is not reg:
            fail(f'_batch_simulation.{reg_name} is not config.{reg_name}')
    # name resolution through the parse functions
    for name in CODES:
        code = None
        for size in [(3, 3, 3), (4, 4, 4), (2, 2, 2), (6, 6, 6)]:
            cls = CODES[name]
            size = size[:cls.dimension] if isinstance(
                cls.dimension, int) else size
            try:
                code = bs._parse_code_dict(
                    {'name': name, 'parameters': list(size)})
                break
            except Exception:
                continue
        if code is None:
            # dimension is a property -> try both lengths
            for size in [(4, 4), (4, 4, 4), (3, 3), (3, 3, 3), (6, 6),
                         (6, 6, 6)]:
                try:
                    code = bs._parse_code_dict(
                        {'name': name, 'parameters': list(size)})
                    break
                except Exception:
                    continue
        if code is None:
            fail(f'could not build any {name}')
        elif type(code) is not CODES[name] or code.id != name:
            fail(f'_parse_code_dict({name}) built {type(code).__name__}')
    for name in ERROR_MODELS:
        noise = bs._parse_error_model_dict(
            {'name': name, 'parameters': [0.2, 0.3, 0.5]})
        if type(noise) is not ERROR_MODELS[name] or noise.id != name:
            fail(f'_parse_error_model_dict({name}) -> {type(noise)}')


# --------------------------------------------------------------------------
# 2. expansion of specifications
# --------------------------------------------------------------------------
def spec_product(ranges):
    """Independent expansion of one 'ranges' dict -> list of element tuples."""
    cps = as_list(ranges['code']['parameters'])
    nps = as_list(ranges['error_model']['parameters'])
    dps = as_list(ranges['decoder'].get('parameters', []))
    ers = as_list(ranges['error_rate'])
    out = []
    for cp, npar, dpar, p in itertools.product(cps, nps, dps, ers):
        out.append((ranges['code']['name'], cp,
                    ranges['error_model']['name'], npar,
                    ranges['decoder']['name'], dpar, p))
    return out


def check_sims_against(elements, sims, what):
    expected = Counter()
    built = {}
    for el in elements:
        key, objs = expected_key(*el)
        expected[key] += 1
        built[key] = objs
    got = Counter(sim_key(s) for s in sims)
    if len(sims) != len(elements):
        fail(f'{what}: {len(sims)} simulations for {len(elements)} elements')
    if got != expected:
        missing = expected - got
        extra = got - expected
        fail(f'{what}: dropped={list(missing.items())[:2]} '
             f'extra/duplicated={list(extra.items())[:2]}')
        return
    for s in sims:
        if not isinstance(s, DirectSimulation):
            fail(f'{what}: not a DirectSimulation')
        code, noise, decoder = built[sim_key(s)]
        if code_fingerprint(s.code) != code_fingerprint(code):
            fail(f'{what}: code differs from direct construction '
                 f'{s.code.label}')
        if noise_fingerprint(s.error_model, s.code) != \
                noise_fingerprint(noise, code):
            fail(f'{what}: noise differs from direct construction')
        if decoder_fingerprint(s.decoder) != decoder_fingerprint(decoder):
            fail(f'{what}: decoder differs from direct construction')
        if s.decoder.code is not s.code:
            fail(f'{what}: decoder was given another code object')
        if s.decoder.error_model is not s.error_model:
            fail(f'{what}: decoder was given another error model object')
        if float(s.decoder.error_rate) != float(s.error_rate):
            fail(f'{what}: decoder error rate != simulation error rate')


def run_key(run):
    return (run['code']['name'], canon(run['code']['parameters']),
            run['error_model']['name'],
            canon(run['error_model']['parameters']),
            run['decoder']['name'],
            canon({k: v for k, v in run['decoder']['parameters'].items()
                   if k not in ('code', 'error_model', 'error_rate')}),
            float(run['error_rate']))


def check_expand_against(elements, runs, ranges, what):
    expected = Counter(
        (c, canon(cp), n, canon(npar), d, canon(dpar), float(p))
        for c, cp, n, npar, d, dpar, p in elements
    )
    got = Counter(run_key(r) for r in runs)
    if got != expected:
        fail(f'{what}: expand_input_ranges multiset differs '
             f'({len(runs)} runs for {len(elements)} elements)')
    for r in runs:
        for k, v in ranges.items():
            if k not in ('code', 'error_model', 'decoder', 'error_rate'):
                if r.get(k) != v:
                    fail(f'{what}: run lost shared key {k}')


def make_specs():
    """A varied family of 'ranges' dicts, 1..5 values per axis."""
    specs = []

    # A: 2D toric, non-square, dict form, 3 x 2 x 1 x 4
    specs.append({
        'label': 'A',
        'code': {'name': 'Toric2DCode', 'parameters': [
            {'L_x': 2, 'L_y': 3}, {'L_x': 3, 'L_y': 2}, {'L_x': 4}]},
        'error_model': {'name': 'PauliErrorModel', 'parameters': [
            {'r_x': 1, 'r_y': 0, 'r_z': 0},
            {'r_x': 0.25, 'r_y': 0.25, 'r_z': 0.5,
             'deformation_name': 'XZZX'}]},
        'decoder': {'name': 'MatchingDecoder'},
        'error_rate': [0.0, 0.1, 0.25, 0.5],
    })
    # B: list form everywhere, 5 codes x 1 x 2 decoders x 1
    specs.append({
        'label': 'B',
        'code': {'name': 'Planar2DCode', 'parameters': [
            [2, 2], [2, 3], [3, 2], [3, 3], [4, 2]]},
        'error_model': {'name': 'PauliErrorModel',
                        'parameters': [[0.0, 0.0, 1.0]]},
        'decoder': {'name': 'BeliefPropagationOSDDecoder', 'parameters': [
            {'max_bp_iter': 7, 'osd_order': 0},
            {'max_bp_iter': 9, 'osd_order': 2, 'bp_method': 'minimum_sum'}]},
        'error_rate': [0.3],
    })
    # C: single dict (not list) parameter forms, XY deformation
    specs.append({
        'label': 'C',
        'code': {'name': 'RotatedPlanar2DCode',
                 'parameters': {'L_x': 3, 'L_y': 5}},
        'error_model': {'name': 'PauliErrorModel', 'parameters': {
            'r_x': 1/3, 'r_y': 1/3, 'r_z': 1/3, 'deformation_name': 'XY'}},
        'decoder': {'name': 'MemoryBeliefPropagationDecoder',
                    'parameters': {'max_bp_iter': 5, 'alpha': 0.5}},
        'error_rate': [0.05, 0.5, 1.0],
    })
    # D: 3D, 2 x 5 x 1 x 2, biased noise edge values
    specs.append({
        'label': 'D',
        'comments': 'a shared key',
        'code': {'name': 'Toric3DCode', 'parameters': [
            {'L_x': 2, 'L_y': 3, 'L_z': 2}, [3]]},
        'error_model': {'name': 'PauliErrorModel', 'parameters': [
            {'r_x': 0, 'r_y': 0, 'r_z': 1},
            {'r_x': 0, 'r_y': 1, 'r_z': 0},
            {'r_x': 1, 'r_y': 0, 'r_z': 0},
            {'r_x': 0.5/101, 'r_y': 0.5/101, 'r_z': 100/101,
             'deformation_name': 'XZZX'},
            [0.1, 0.2, 0.7, 'XZZX']]},
        'decoder': {'name': 'SweepMatchDecoder'},
        'error_rate': [0.01, 0.02],
    })
    # E: union find, 1 x 1 x 1 x 5
    specs.append({
        'label': 'E',
        'code': {'name': 'Toric2DCode', 'parameters': [{'L_x': 4, 'L_y': 4}]},
        'error_model': {'name': 'PauliErrorModel',
                        'parameters': [{'r_x': 0.5, 'r_y': 0, 'r_z': 0.5}]},
        'decoder': {'name': 'UnionFindDecoder', 'parameters': {}},
        'error_rate': [0.01, 0.02, 0.03, 0.04, 0.05],
    })
    # F: rotated 3D + rotated sweep, decoder parameter axis of 3
    specs.append({
        'label': 'F',
        'code': {'name': 'RotatedPlanar3DCode', 'parameters': [
            {'L_x': 2, 'L_y': 2, 'L_z': 2}, {'L_x': 3, 'L_y': 2, 'L_z': 2}]},
        'error_model': {'name': 'PauliErrorModel', 'parameters': [
            {'r_x': 0.2, 'r_y': 0.3, 'r_z': 0.5}]},
        'decoder': {'name': 'RotatedSweepMatchDecoder', 'parameters': [
            {'max_rounds': 4}, {'max_rounds': 8}, {}]},
        'error_rate': [0.1],
    })
    # G: X-cube
    specs.append({
        'label': 'G',
        'code': {'name': 'XCubeCode', 'parameters': [[2, 2, 2], [3, 2, 2]]},
        'error_model': {'name': 'PauliErrorModel', 'parameters': [
            [1, 0, 0], {'r_x': 0, 'r_y': 0, 'r_z': 1,
                        'deformation_name': 'XZZX'}]},
        'decoder': {'name': 'XCubeMatchingDecoder'},
        'error_rate': [0.02, 0.04, 0.08],
    })
    return specs


def check_expansion():
    specs = make_specs()
    all_elements = []
    per_spec = []
    for ranges in specs:
        pristine = copy.deepcopy(ranges)
        elements = spec_product(pristine)
        per_spec.append(elements)
        all_elements += elements
        what = f"spec {ranges['label']}"

        # expand_input_ranges
        runs = expand_input_ranges(copy.deepcopy(pristine))
        check_expand_against(elements, runs, pristine, what)

        # single ranges dict -> simulations (twice: repeated use is stable)
        for rep in range(2):
            batch = quiet(read_input_dict,
                          {'ranges': copy.deepcopy(pristine)}, 'unused.json')
            if not isinstance(batch, BatchSimulation):
                fail(f'{what}: not a BatchSimulation')
            if batch.label != ranges['label']:
                fail(f'{what}: label {batch.label}')
            check_sims_against(elements, list(batch), what + f' rep{rep}')

        # the same data object used twice
        data = {'ranges': copy.deepcopy(pristine)}
        b1 = quiet(read_input_dict, data, 'unused.json')
        b2 = quiet(read_input_dict, data, 'unused.json')
        check_sims_against(elements, list(b1), what + ' reuse1')
        check_sims_against(elements, list(b2), what + ' reuse2')

        # explicit runs, from expand_input_ranges and hand-made
        runs = expand_input_ranges(copy.deepcopy(pristine))
        batch = quiet(read_input_dict, {'runs': runs}, 'unused.json')
        check_sims_against(elements, list(batch), what + ' via runs')

        hand = [{
            'code': {'name': c, 'parameters': copy.deepcopy(cp)},
            'error_model': {'name': n, 'parameters': copy.deepcopy(npar)},
            'decoder': {'name': d, 'parameters': copy.deepcopy(dpar)},
            'error_rate': p,
        } for c, cp, n, npar, d, dpar, p in elements]
        batch = quiet(read_input_dict, {'runs': hand}, 'unused.json')
        check_sims_against(elements, list(batch), what + ' hand runs')

        # through a file: read_input_json and count_runs
        with tempfile.TemporaryDirectory() as tmp:
            path = os.path.join(tmp, 'input.json')
            with open(path, 'w') as f:
                json.dump({'comments': '', 'ranges': pristine}, f)
            batch = quiet(read_input_json, path,
                          os.path.join(tmp, 'out.json'))
            check_sims_against(elements, list(batch), what + ' json file')
            n = count_runs(path)
            if n != len(elements):
                fail(f'{what}: count_runs {n} != {len(elements)}')

    # list of ranges (1, 2 and all sub-specs)
    for idx in [[0], [1, 4], [2, 0, 5], list(range(len(specs)))]:
        sub = [copy.deepcopy(specs[i]) for i in idx]
        elements = [e for i in idx for e in per_spec[i]]
        batch = quiet(read_input_dict, {'ranges': sub}, 'unused.json')
        check_sims_against(elements, list(batch), f'list of ranges {idx}')
    return specs, per_spec


# --------------------------------------------------------------------------
# 3. re-instantiating from recorded inputs
# --------------------------------------------------------------------------
def rebuild_from_inputs(inputs):
    code = bs._parse_code_dict(inputs['code'])
    noise = bs._parse_error_model_dict(inputs['error_model'])
    decoder = bs._parse_decoder_dict(
        inputs['decoder'], code, noise, inputs['error_rate'])
    return code, noise, decoder


def check_roundtrip(specs):
    for ranges in specs:
        what = f"roundtrip {ranges['label']}"
        with tempfile.TemporaryDirectory() as tmp:
            for ext in ['.json', '.json.gz']:
                out = os.path.join(tmp, 'results', 'results' + ext)
                batch = quiet(read_input_dict,
                              {'ranges': copy.deepcopy(ranges)}, out)
                sims = list(batch)
                # keep it cheap: results file with zero or one trial
                n_trials = 1 if len(sims) <= 8 else 0
                if n_trials:
                    quiet(batch.run, n_trials)
                else:
                    batch.save_file()
                recorded = load_json(out)
                if len(recorded) != len(sims):
                    fail(f'{what}: {len(recorded)} records for '
                         f'{len(sims)} simulations')
                got = Counter(canon(r['inputs']) for r in recorded)
                exp = Counter(canon(s._inputs) for s in sims)
                if got != exp:
                    fail(f'{what}: recorded inputs differ from simulations')
                by_inputs = {canon(s._inputs): s for s in sims}
                for rec in recorded:
                    sim = by_inputs.get(canon(rec['inputs']))
                    if sim is None:
                        continue
                    inputs = copy.deepcopy(rec['inputs'])
                    code, noise, decoder = rebuild_from_inputs(inputs)
                    if code_fingerprint(code) != code_fingerprint(sim.code):
                        fail(f'{what}: rebuilt code differs')
                    if rec['inputs']['code']['n'] != code.n \
                            or rec['inputs']['code']['k'] != code.k:
                        fail(f'{what}: recorded n,k differ')
                    if noise_fingerprint(noise, code) != \
                            noise_fingerprint(sim.error_model, sim.code):
                        fail(f'{what}: rebuilt noise differs')
                    if decoder_fingerprint(decoder) != \
                            decoder_fingerprint(sim.decoder):
                        fail(f'{what}: rebuilt decoder differs')
                    # and through the public route: explicit run
                    b = quiet(read_input_dict,
                              {'runs': [copy.deepcopy(rec['inputs'])]}, out)
                    if len(b) != 1 or sim_key(b[0]) != sim_key(sim):
                        fail(f'{what}: recorded inputs as run differ')
                    if canon(b[0]._inputs) != canon(rec['inputs']):
                        fail(f'{what}: inputs not a fixed point')

    # every registered code class: params -> same code
    sizes = [(2, 3, 4), (3, 2, 2), (4, 6, 2), (3, 3, 3), (4, 4, 4),
             (6, 6, 6), (2, 2, 2)]
    n_codes = 0
    for name, cls in CODES.items():
        done = 0
        for size in sizes:
            for ln in (2, 3):
                try:
                    code = cls(*size[:ln])
                    code.stabilizer_matrix
                except Exception:
                    continue
                if code.n > 700:
                    continue
                rec = json.loads(json.dumps(
                    {'name': code.id, 'parameters': code.params}))
                if rec['name'] != name:
                    fail(f'{name}: id is {rec["name"]}')
                again = bs._parse_code_dict(rec)
                if code_fingerprint(again) != code_fingerprint(code):
                    fail(f'{name}{size[:ln]}: params do not reproduce code')
                # list form of the same parameters
                again = bs._parse_code_dict(
                    {'name': name, 'parameters': list(size[:ln])})
                if code_fingerprint(again) != code_fingerprint(code):
                    fail(f'{name}{size[:ln]}: list form differs')
                # noise with each offered deformation
                for deformation in [None] + list(cls.deformation_names):
                    noise = ERROR_MODELS['PauliErrorModel'](
                        0.1, 0.3, 0.6, deformation_name=deformation)
                    nrec = json.loads(json.dumps(
                        {'name': noise.id, 'parameters': noise.params}))
                    noise2 = bs._parse_error_model_dict(nrec)
                    try:
                        fp = noise_fingerprint(noise, code)
                    except Exception:
                        continue   # deformation not applicable: not ours
                    if noise_fingerprint(noise2, again) != fp:
                        fail(f'{name} {deformation}: noise not reproduced')
                done += 1
                break
            if done >= 2:
                break
        if done == 0:
            fail(f'no instance of {name} could be built')
        n_codes += done
    return n_codes


# --------------------------------------------------------------------------
# digest of the behaviour of the changed functions
# --------------------------------------------------------------------------
def digest_lines():
    lines = []
    lines.append('CODES order: ' + ','.join(CODES.keys()))
    lines.append('ERROR_MODELS order: ' + ','.join(ERROR_MODELS.keys()))
    lines.append('DECODERS order: ' + ','.join(DECODERS.keys()))

    spec = make_specs()[0]
    data = {'ranges': copy.deepcopy(spec)}
    batch = quiet(read_input_dict, data, 'unused.json')
    lines.append('simulation order: ' + ' | '.join(
        f'{s.code.label};{s.error_model.label};{s.error_rate}'
        for s in batch))
    lines.append('spec decoder dict after get_simulations: ' + json.dumps(
        {k: sorted(map(str, v)) if isinstance(v, dict) else v
         for k, v in data['ranges']['decoder'].items()}, sort_keys=True))

    spec = copy.deepcopy(make_specs()[1])
    runs = expand_input_ranges(spec)
    lines.append('expand order: ' + ' | '.join(
        f"{r['code']['parameters']};{r['decoder']['parameters']}"
        for r in runs))
    lines.append('expanded run aliases spec parameters: ' + str([
        any(r['code']['parameters'] is p for p in spec['code']['parameters'])
        for r in runs][:3]))
    runs[0]['decoder']['parameters']['osd_order'] = 99
    lines.append('editing run 0 leaks into spec: '
                 + json.dumps(spec['decoder']['parameters']))

    run = {
        'code': {'name': 'Toric2DCode', 'parameters': [3, 3]},
        'error_model': {'name': 'PauliErrorModel',
                        'parameters': [1, 0, 0]},
        'decoder': {'name': 'MatchingDecoder', 'parameters': {}},
        'error_rate': 0.1,
    }
    quiet(read_input_dict, {'runs': [run]}, 'unused.json')
    lines.append('run decoder parameters after instantiation: '
                 + str(sorted(run['decoder']['parameters'].keys())))

    for f, d in [
        (bs._parse_code_dict, {'name': 'NoSuchCode', 'parameters': [3]}),
        (bs._parse_error_model_dict, {'name': 'NoSuchNoise'}),
    ]:
        try:
            f(d)
            lines.append(f'{f.__name__}: no error')
        except Exception as err:
            lines.append(f'{f.__name__}: {type(err).__name__}: {err}')
    try:
        code = CODES['Toric2DCode'](3, 3)
        noise = ERROR_MODELS['PauliErrorModel'](1, 0, 0)
        bs._parse_decoder_dict({'name': 'NoSuchDecoder'}, code, noise, 0.1)
    except Exception as err:
        lines.append(f'_parse_decoder_dict: {type(err).__name__}: {err}')
    return lines


def main():
    check_registries()
    specs, per_spec = check_expansion()
    n_codes = check_roundtrip(specs)
    n_elements = sum(len(e) for e in per_spec)
    if FAILURES:
        print(f'C13 FAILS: {len(FAILURES)} failures; first: {FAILURES[0]}')
        sys.exit(1)
    print(f'C13 holds: {len(specs)} specs, {n_elements} product elements, '
          f'{n_codes} code instances round-tripped')
    lines = digest_lines()
    for line in lines:
        print('DIGEST-LINE', line)
    print('DIGEST', hashlib.sha256('\n'.join(lines).encode()).hexdigest())
    sys.exit(0)


if __name__ == '__main__':
    main()
