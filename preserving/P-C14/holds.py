import os, sys; sys.path.insert(0, os.getcwd())
"""C14: parallel runs execute exactly the requested trials per input.

(a) checks the property on a wide grid of (inputs, nodes, cores, trials)
    with the process launcher replaced by a recorder, plus a few real
    end-to-end runs with real processes and real result files;
(b) prints a digest of the concrete task plans produced by run_parallel.
Exit status 1 (with a message) if the property fails.
"""
import contextlib
import gzip
import hashlib
import io
import json
import shutil
import tempfile
from collections import defaultdict

import panqec.cli as cli

run_parallel = getattr(cli.run_parallel, 'callback', cli.run_parallel)
REAL_PROCESS = cli.multiprocessing.Process
REAL_CPU_COUNT = cli.multiprocessing.cpu_count


def fail(msg):
    print("C14 PROPERTY FAILS:", msg)
    sys.exit(1)


# ---------------------------------------------------------------- recorder

class RecordingProcess:
    launched = []

    def __init__(self, group=None, target=None, name=None, args=(),
                 kwargs=None, **other):
        self.target = target
        self.args = tuple(args)
        self.kwargs = dict(kwargs or {})
        self.started = False
        self.joined = False

    def start(self):
        self.started = True
        RecordingProcess.launched.append(self)

    def join(self, timeout=None):
        self.joined = True

    def is_alive(self):
        return False

    exitcode = 0


def task_fields(proc):
    """(input_file, result_file, n_trials) of a recorded task."""
    names = ['input_file', 'output_file', 'n_trials']
    vals = dict(zip(names, proc.args))
    for k in names:
        if k in proc.kwargs:
            vals[k] = proc.kwargs[k]
    return vals['input_file'], vals['output_file'], vals['n_trials']


INPUT_NAME_SETS = {
    'plain': lambda n: [f"input_{i}.json" for i in range(n)],
    # names whose lexicographic and numeric orders differ, mixed case
    'mixed': lambda n: [
        ["b10.json", "b2.json", "A.json", "z_last.json", "toric-XY.json",
         "rhombic_bias_inf.json", "0.json", "b1.json", "xzzx 7x5.json",
         "c.d.json", "Zeta.json", "m.json"][i] if i < 12
        else f"more_{i:03d}.json" for i in range(n)
    ],
}


def make_data_dir(n_inputs, naming='plain', real=False):
    d = tempfile.mkdtemp(prefix="c14_")
    os.makedirs(os.path.join(d, "inputs"))
    names = INPUT_NAME_SETS[naming](n_inputs)
    assert len(set(names)) == n_inputs
    for k, name in enumerate(names):
        with open(os.path.join(d, "inputs", name), "w") as f:
            json.dump(real_input(k) if real else {"runs": []}, f)
    # a file that is not an input must be ignored
    with open(os.path.join(d, "inputs", "README.txt"), "w") as f:
        f.write("not an input")
    return d, names


def plan(data_dir, trials, n_nodes, n_cores, delete_existing=False,
         n_cpu=None):
    """Run every job index 1..n_nodes with a recording launcher.

    Returns per job the list of (input basename, result path, n_trials)."""
    per_job = []
    cli.multiprocessing.Process = RecordingProcess
    cli.multiprocessing.cpu_count = lambda: (n_cpu or max(n_cores, 1))
    try:
        for job_idx in range(1, n_nodes + 1):
            RecordingProcess.launched = []
            out = io.StringIO()
            try:
                with contextlib.redirect_stdout(out):
                    run_parallel(
                        data_dir=data_dir, trials=trials, n_nodes=n_nodes,
                        job_idx=job_idx, n_cores=n_cores,
                        delete_existing=delete_existing,
                    )
            except BaseException as e:   # noqa
                fail(f"run_parallel raised {type(e).__name__}: {e} for "
                     f"inputs={len(os.listdir(data_dir + '/inputs')) - 1} "
                     f"N={n_nodes} C={n_cores} trials={trials} "
                     f"job={job_idx}")
            tasks = []
            for p in RecordingProcess.launched:
                if p.target is not cli.run_file:
                    fail("a task was launched with a target other than "
                         "run_file")
                if not p.joined:
                    fail("a launched task was not waited for")
                i, o, t = task_fields(p)
                tasks.append((i, o, t))
            per_job.append(tasks)
    finally:
        cli.multiprocessing.Process = REAL_PROCESS
        cli.multiprocessing.cpu_count = REAL_CPU_COUNT
    return per_job


def check_plan(per_job, data_dir, names, trials, n_nodes, n_cores, ctx):
    all_tasks = [t for job in per_job for t in job]
    input_paths = {
        os.path.abspath(os.path.join(data_dir, "inputs", n)) for n in names
    }
    total = defaultdict(int)
    count = defaultdict(int)
    results = []
    for inp, res, n in all_tasks:
        inp = os.path.abspath(inp)
        if inp not in input_paths:
            fail(f"{ctx}: task runs {inp}, which is not an input file")
        if not isinstance(n, (int,)) and not hasattr(n, '__index__'):
            fail(f"{ctx}: number of trials {n!r} is not an integer")
        n = int(n)
        if n < 1:
            fail(f"{ctx}: a task of {os.path.basename(inp)} gets {n} trials")
        total[inp] += n
        count[inp] += 1
        results.append(os.path.abspath(res))
    for inp in sorted(input_paths):
        if total[inp] != trials:
            fail(f"{ctx}: {os.path.basename(inp)} runs {total[inp]} trials "
                 f"in {count[inp]} tasks, {trials} requested")
    if len(set(results)) != len(results):
        fail(f"{ctx}: two tasks share a result file")
    rdir = os.path.abspath(os.path.join(data_dir, "results"))
    for r in results:
        if os.path.dirname(r) != rdir:
            fail(f"{ctx}: result file {r} is outside {rdir}")
    if len(all_tasks) > n_nodes * n_cores:
        fail(f"{ctx}: {len(all_tasks)} tasks launched for "
             f"{n_nodes}x{n_cores} cores")
    for job in per_job:
        if len(job) > n_cores:
            fail(f"{ctx}: a node launched {len(job)} tasks on "
                 f"{n_cores} cores")
    return count


def plan_signature(per_job):
    return [
        [(os.path.basename(i), os.path.basename(o), int(n))
         for i, o, n in job]
        for job in per_job
    ]


# ------------------------------------------------------------- real inputs

REAL_SPECS = [
    # code, parameters, error model parameters, decoder, error rate
    ("Toric2DCode", {"L_x": 3, "L_y": 4},
     {"r_x": 1, "r_y": 0, "r_z": 0}, {"name": "MatchingDecoder"}, 0.1),
    ("Planar2DCode", {"L_x": 4, "L_y": 3},
     {"r_x": 1 / 3, "r_y": 1 / 3, "r_z": 1 / 3},
     {"name": "BeliefPropagationOSDDecoder",
      "parameters": {"max_bp_iter": 10, "osd_order": 0}}, 0.0),
    ("Toric2DCode", {"L_x": 4, "L_y": 3},
     {"r_x": 0.01, "r_y": 0.01, "r_z": 0.98, "deformation_name": "XY"},
     {"name": "BeliefPropagationOSDDecoder",
      "parameters": {"max_bp_iter": 10, "osd_order": 0}}, 0.2),
    ("Toric3DCode", {"L_x": 3},
     {"r_x": 1, "r_y": 0, "r_z": 0}, {"name": "SweepMatchDecoder"}, 0.05),
]


def real_input(k):
    code, cpar, epar, dec, p = REAL_SPECS[k % len(REAL_SPECS)]
    return {
        "comments": f"C14 input {k}",
        "runs": [{
            "label": f"c14_{k}",
            "code": {"name": code, "parameters": cpar},
            "error_model": {"name": "PauliErrorModel", "parameters": epar},
            "decoder": dec,
            "error_rate": p,
        }],
    }


def load_any(path):
    if path.endswith(".gz"):
        with gzip.open(path, "rt") as f:
            return json.load(f)
    with open(path) as f:
        return json.load(f)


def trials_in_result(data):
    """Number of trials stored in a result file, and the label."""
    if isinstance(data, dict):
        data = [data]
    n = 0
    labels = set()
    for entry in data:
        res = entry["results"]
        lens = {len(res[k]) for k in ("effective_error", "success",
                                      "codespace") if k in res}
        if len(lens) != 1:
            fail(f"inconsistent result lengths {lens}")
        n += lens.pop()
        labels.add(json.dumps(entry["inputs"]["code"], sort_keys=True)
                   + json.dumps(entry["inputs"]["error_model"],
                                sort_keys=True, default=str))
    return n, labels


def end_to_end(n_inputs, n_nodes, n_cores, trials, repeat=1):
    """Real processes, real result files."""
    data_dir, names = make_data_dir(n_inputs, 'plain', real=True)
    try:
        cli.multiprocessing.cpu_count = lambda: max(
            n_cores, REAL_CPU_COUNT())
        for rep in range(repeat):
            for job_idx in range(1, n_nodes + 1):
                out = io.StringIO()
                try:
                    with contextlib.redirect_stdout(out), \
                            contextlib.redirect_stderr(io.StringIO()):
                        run_parallel(
                            data_dir=data_dir, trials=trials,
                            n_nodes=n_nodes, job_idx=job_idx,
                            n_cores=n_cores, delete_existing=True,
                        )
                except BaseException as e:   # noqa
                    fail(f"end-to-end run raised {type(e).__name__}: {e}")
            rdir = os.path.join(data_dir, "results")
            files = sorted(os.listdir(rdir))
            ctx = (f"end-to-end inputs={n_inputs} N={n_nodes} C={n_cores} "
                   f"trials={trials} rep={rep}")
            if len(files) != n_nodes * n_cores:
                fail(f"{ctx}: {len(files)} result files {files} for "
                     f"{n_nodes * n_cores} tasks")
            per_label = defaultdict(int)
            for f in files:
                n, labels = trials_in_result(load_any(os.path.join(rdir, f)))
                if n < 1:
                    fail(f"{ctx}: result file {f} holds no trial")
                if len(labels) != 1:
                    fail(f"{ctx}: result file {f} mixes inputs")
                per_label[labels.pop()] += n
            if len(per_label) != n_inputs:
                fail(f"{ctx}: results for {len(per_label)} inputs, "
                     f"{n_inputs} expected")
            for lab, n in per_label.items():
                if n != trials:
                    fail(f"{ctx}: {n} trials stored for {lab}, "
                         f"{trials} requested")
    finally:
        cli.multiprocessing.cpu_count = REAL_CPU_COUNT
        shutil.rmtree(data_dir, ignore_errors=True)


# -------------------------------------------------------------------- main

def main():
    digest_src = []
    n_configs = 0

    # exhaustive small grid
    dirs = {}
    try:
        for naming in ('plain', 'mixed'):
            for n_inputs in (1, 2, 3, 4, 5, 7, 12):
                dirs[(naming, n_inputs)] = make_data_dir(n_inputs, naming)
        grid = []
        for n_nodes in (1, 2, 3, 4, 5, 7):
            for n_cores in (1, 2, 3, 4, 6, 8):
                grid.append((n_nodes, n_cores))
        grid += [(1, 64), (13, 1), (10, 16), (16, 10), (25, 5)]
        for (naming, n_inputs), (data_dir, names) in dirs.items():
            for n_nodes, n_cores in grid:
                n_tasks = n_nodes * n_cores
                if n_tasks < n_inputs:
                    continue
                if naming == 'mixed' and (n_nodes + n_cores) % 3:
                    continue   # thin out the second naming scheme
                # the largest number of tasks any input can receive under
                # any contiguous split that leaves no input empty is
                # bounded by floor + remainder: use it as the least number
                # of trials, so that "trials >= tasks per input" holds
                # however the tasks are spread.
                tpi_max = n_tasks // n_inputs + n_tasks % n_inputs
                trial_set = sorted({
                    tpi_max, tpi_max + 1, 2 * tpi_max - 1, 2 * tpi_max,
                    3 * tpi_max + 2, 1000, 1009, 10 ** 6 + 3,
                })
                trial_set = [t for t in trial_set if t >= tpi_max]
                for trials in trial_set:
                    ctx = (f"naming={naming} inputs={n_inputs} N={n_nodes} "
                           f"C={n_cores} trials={trials}")
                    per_job = plan(data_dir, trials, n_nodes, n_cores)
                    count = check_plan(per_job, data_dir, names, trials,
                                       n_nodes, n_cores, ctx)
                    if min(count.values()) < 1:
                        fail(f"{ctx}: an input has no task")
                    n_configs += 1
                    # repeated use of the same directory: identical plan,
                    # with delete_existing too, and with spare cpus.
                    if trials == trial_set[0] and n_cores in (2, 3):
                        again = plan(data_dir, trials, n_nodes, n_cores,
                                     delete_existing=True,
                                     n_cpu=n_cores + 5)
                        if plan_signature(again) != plan_signature(per_job):
                            fail(f"{ctx}: plan changes when repeated")
                        check_plan(again, data_dir, names, trials,
                                   n_nodes, n_cores, ctx + " (repeat)")
                    if trials in (trial_set[0], 1009) and n_tasks <= 40:
                        digest_src.append(
                            (naming, n_inputs, n_nodes, n_cores, trials,
                             plan_signature(per_job)))
    finally:
        for data_dir, _ in dirs.values():
            shutil.rmtree(data_dir, ignore_errors=True)

    # n_cores left unset: all cpus of the node are used
    data_dir, names = make_data_dir(3, 'plain')
    try:
        cli.multiprocessing.Process = RecordingProcess
        cli.multiprocessing.cpu_count = lambda: 5
        per_job = []
        for job_idx in (1, 2):
            RecordingProcess.launched = []
            with contextlib.redirect_stdout(io.StringIO()):
                try:
                    run_parallel(data_dir=data_dir, trials=50, n_nodes=2,
                                 job_idx=job_idx, n_cores=None,
                                 delete_existing=False)
                except BaseException as e:   # noqa
                    fail(f"n_cores=None raised {type(e).__name__}: {e}")
            per_job.append([task_fields(p)
                            for p in RecordingProcess.launched])
        check_plan(per_job, data_dir, names, 50, 2, 5, "n_cores=None")
        if sum(len(j) for j in per_job) != 10:
            fail("n_cores=None does not use all cpus")
        digest_src.append(("default-cores", plan_signature(per_job)))
    finally:
        cli.multiprocessing.Process = REAL_PROCESS
        cli.multiprocessing.cpu_count = REAL_CPU_COUNT
        shutil.rmtree(data_dir, ignore_errors=True)

    # real runs
    end_to_end(n_inputs=1, n_nodes=1, n_cores=1, trials=3)
    end_to_end(n_inputs=2, n_nodes=1, n_cores=5, trials=7, repeat=2)
    end_to_end(n_inputs=3, n_nodes=2, n_cores=4, trials=11)
    end_to_end(n_inputs=4, n_nodes=3, n_cores=2, trials=4)

    print(f"C14 holds on {n_configs} planned configurations "
          "and 4 end-to-end runs")
    blob = json.dumps(digest_src, sort_keys=True).encode()
    print("sample plan (mixed names, 5 inputs, N=2, C=4, least trials):")
    for entry in digest_src:
        if entry[0] == 'mixed' and entry[1:4] == (5, 2, 4):
            for j, job in enumerate(entry[5]):
                print(f"  job {j + 1}: {job}")
            break
    print("DIGEST", hashlib.sha256(blob).hexdigest())
    # the same plans with the identity and the order of the input files
    # forgotten: only how many tasks each input gets and how the trials are
    # split over them (independent of the directory listing order)
    shape = []
    for entry in digest_src:
        sig = entry[-1]
        per_input = defaultdict(list)
        for job in sig:
            for name, _, n in job:
                per_input[name].append(n)
        shape.append([list(entry[:-1]), sorted(per_input.values())])
    print("DIGEST_SHAPE", hashlib.sha256(
        json.dumps(shape, sort_keys=True).encode()).hexdigest())


if __name__ == "__main__":
    main()
