import os, sys; sys.path.insert(0, os.getcwd())
"""C15: analysis aggregates are conserved however the results are split.

(a) checks the property on a varied set of synthetic trial multisets that are
    split over plain/gzip/zip/merged/nested containers in many ways;
(b) prints a digest of concrete outputs of the functions that were changed.

Exit status 1 (with a message) if the property fails, 0 otherwise.
"""
import copy
import gzip
import hashlib
import json
import shutil
import tempfile
import warnings
import zipfile

import numpy as np
import pandas as pd
from click.testing import CliRunner

import panqec.analysis as pa
from panqec.analysis import (
    Analysis, count_fails, get_standard_error, get_word_error_rate,
    get_single_qubit_error_rate,
)
from panqec.cli import merge_results
from panqec.utils import load_json, save_json

warnings.filterwarnings('ignore')

TOL = 1e-12
FAILURES = []


def fail(msg):
    FAILURES.append(msg)
    print('PROPERTY VIOLATION:', msg)


def close(a, b, tol=TOL):
    a = np.asarray(a, dtype=float)
    b = np.asarray(b, dtype=float)
    if a.shape != b.shape:
        return False
    both_nan = np.isnan(a) & np.isnan(b)
    return bool(np.all(both_nan | (np.abs(a - b) <= tol*(1 + np.abs(b)))))


# ---------------------------------------------------------------------------
# Synthetic inputs.
# ---------------------------------------------------------------------------

def code_dict(name, params, n, k, d):
    return {'name': name, 'parameters': params, 'n': n, 'k': k, 'd': d}


def noise_dict(r, deformation=None, kwargs=None):
    return {
        'name': 'PauliErrorModel',
        'parameters': {
            'r_x': r[0], 'r_y': r[1], 'r_z': r[2],
            'deformation_name': deformation,
            'deformation_kwargs': kwargs or {},
        }
    }


def decoder_dict(name, params):
    return {'name': name, 'parameters': params}


CODES = [
    code_dict('Toric2DCode', {'L_x': 3, 'L_y': 5}, 30, 2, 3),
    code_dict('Toric2DCode', {'L_x': 4, 'L_y': 4}, 32, 2, 4),
    code_dict('Planar2DCode', {'L_x': 3, 'L_y': 4}, 18, 1, 3),
    code_dict('RotatedPlanar2DCode', {'L_x': 3, 'L_y': 5}, 15, 1, 3),
    code_dict('Toric3DCode', {'L_x': 2, 'L_y': 3, 'L_z': 4}, 72, 3, 2),
    code_dict('Color666PlanarCode', {'L_x': 3, 'L_y': 3}, 7, 1, 3),
    code_dict('XCubeCode', {'L_x': 2, 'L_y': 2, 'L_z': 3}, 36, 4, 2),
]
NOISES = [
    noise_dict((1/3, 1/3, 1/3)),
    noise_dict((0.0, 0.0, 1.0)),
    noise_dict((1/22, 1/22, 10/11), 'XZZX'),
    noise_dict((0.005, 0.005, 0.99), 'XY'),
    noise_dict((0.125, 0.125, 0.75), 'XY', {}),
]
DECODERS = [
    decoder_dict('MatchingDecoder', {'error_type': None, 'weights': None}),
    decoder_dict('BeliefPropagationOSDDecoder',
                 {'max_bp_iter': 10, 'osd_order': 0}),
    decoder_dict('UnionFindDecoder', {}),
]


def make_trials(rng, k, n, pattern):
    """(effective_error, codespace, success) for n trials of a k-qubit code."""
    if pattern == 'allgood':
        ee = np.zeros((n, 2*k), dtype=int)
        cs = np.ones(n, dtype=bool)
    elif pattern == 'allbad':
        ee = np.ones((n, 2*k), dtype=int)
        cs = np.ones(n, dtype=bool)
    elif pattern == 'nocodespace':
        ee = rng.integers(0, 2, size=(n, 2*k))
        cs = np.zeros(n, dtype=bool)
    elif pattern == 'sparse':
        ee = (rng.random((n, 2*k)) < 0.08).astype(int)
        cs = rng.random(n) < 0.95
    else:
        ee = rng.integers(0, 2, size=(n, 2*k))
        cs = rng.random(n) < 0.7
    if pattern == 'arbitrary':
        # success flags that are not tied to the effective error at all.
        su = rng.random(n) < 0.5
    else:
        su = cs & ~ee.any(axis=1)
    return ee, cs, su


def build_groups(rng):
    """A fixed multiset of trials for a varied set of points."""
    groups = []
    specs = [
        (0, 0, 0, 0.1, 37, 'random'),
        (0, 0, 0, 0.2, 3, 'third'),       # exactly 1 failure out of 3
        (0, 0, 0, 0.3, 1, 'allbad'),      # a single trial
        (1, 0, 0, 0.1, 50, 'sparse'),
        (1, 0, 0, 0.2, 49, 'random'),
        (1, 0, 0, 0.3, 7, 'seventh'),
        (2, 2, 1, 0.05, 64, 'random'),
        (2, 2, 1, 0.123456, 11, 'allgood'),
        (3, 3, 0, 0.07, 29, 'arbitrary'),
        (3, 3, 0, 0.09, 41, 'sparse'),
        (4, 1, 2, 0.02, 33, 'random'),
        (4, 1, 2, 0.04, 6, 'nocodespace'),
        (4, 4, 1, 0.04, 21, 'sparse'),
        (5, 4, 0, 0.11, 90, 'sparse'),
        (5, 4, 0, 0.12, 90, 'random'),
        (6, 3, 1, 0.5, 23, 'arbitrary'),
        (6, 0, 1, 0.5, 12, 'allbad'),
    ]
    for i_code, i_noise, i_dec, p, n, pattern in specs:
        code = CODES[i_code]
        k = code['k']
        if pattern == 'third':
            ee = np.zeros((3, 2*k), dtype=int)
            ee[1, 0] = 1
            cs = np.ones(3, dtype=bool)
            su = np.array([True, False, True])
        elif pattern == 'seventh':
            ee = np.zeros((7, 2*k), dtype=int)
            ee[2, k] = 1
            ee[5, 0] = 1
            ee[6, 2*k - 1] = 1
            cs = np.ones(7, dtype=bool)
            su = ~ee.any(axis=1)
        else:
            ee, cs, su = make_trials(rng, k, n, pattern)
        groups.append({
            'inputs': {
                'code': code,
                'error_model': NOISES[i_noise],
                'decoder': DECODERS[i_dec],
                'error_rate': p,
                'method': {'name': 'direct', 'parameters': {}},
            },
            'ee': ee, 'cs': cs, 'su': su,
        })
    return groups


def record(group, idx, wall_time=0.25):
    idx = list(idx)
    return {
        'results': {
            'n_runs': len(idx),
            'wall_time': wall_time*len(idx),
            'effective_error': group['ee'][idx].tolist(),
            'success': group['su'][idx].tolist(),
            'codespace': group['cs'][idx].tolist(),
        },
        'inputs': copy.deepcopy(group['inputs']),
    }


def split_records(rng, groups, max_chunks):
    """Randomly partition every group's trials into >= 1 records."""
    records = []
    for group in groups:
        n = len(group['ee'])
        perm = rng.permutation(n)
        n_chunks = int(rng.integers(1, min(max_chunks, n) + 1))
        cuts = sorted(rng.choice(np.arange(1, n), size=n_chunks - 1,
                                 replace=False)) if n_chunks > 1 else []
        for part in np.split(perm, cuts):
            records.append(record(group, part))
    order = rng.permutation(len(records))
    return [records[i] for i in order]


# ---------------------------------------------------------------------------
# Writing a list of records in many container layouts.
# ---------------------------------------------------------------------------

def write_plain(path, data):
    with open(path, 'w') as f:
        json.dump(data, f)


def write_gz(path, data):
    with gzip.open(path, 'wb') as f:
        f.write(json.dumps(data).encode('utf-8'))


def nest(rng, items):
    """Wrap a list of records into randomly nested lists."""
    if len(items) <= 1 or rng.random() < 0.4:
        return list(items)
    cut = int(rng.integers(1, len(items)))
    return [nest(rng, items[:cut])] + nest(rng, items[cut:])


def layout(rng, records, root, style):
    """Write `records` under `root` in the given style, return the path list
    to hand to Analysis."""
    os.makedirs(root, exist_ok=True)
    names = iter('f%04d_%s' % (i, hashlib.md5(str(rng.random()).encode())
                               .hexdigest()[:6]) for i in range(10**6))
    if style == 'plain':
        for r in records:
            write_plain(os.path.join(root, next(names) + '.json'), r)
        return root
    if style == 'gzip':
        for r in records:
            write_gz(os.path.join(root, next(names) + '.json.gz'), r)
        return root
    if style == 'save_json':
        for i, r in enumerate(records):
            ext = '.json' if i % 2 else '.json.gz'
            save_json(r, os.path.join(root, next(names) + ext))
        return root
    if style == 'onezip':
        zpath = os.path.join(root, 'all.zip')
        with zipfile.ZipFile(zpath, 'w') as zf:
            for i, r in enumerate(records):
                if i % 2:
                    zf.writestr('res/' + next(names) + '.json', json.dumps(r))
                else:
                    zf.writestr(
                        'res/' + next(names) + '.json.gz',
                        gzip.compress(json.dumps(r).encode('utf-8'))
                    )
        return zpath
    if style == 'onemerged':
        path = os.path.join(root, 'merged.json.gz')
        write_gz(path, nest(rng, records))
        return path
    if style == 'cli_merge':
        # split files, merge them pairwise with the CLI, then merge the merged.
        parts_dir = os.path.join(root + '_parts')
        os.makedirs(parts_dir, exist_ok=True)
        files = []
        for i, r in enumerate(records):
            ext = '.json' if i % 3 == 0 else '.json.gz'
            p = os.path.join(parts_dir, next(names) + ext)
            (write_plain if ext == '.json' else write_gz)(p, r)
            files.append(p)
        runner = CliRunner()
        level1 = []
        for i in range(0, len(files), 4):
            out = os.path.join(parts_dir, 'lvl1_%d.json.gz' % i)
            res = runner.invoke(merge_results, files[i:i + 4] + ['-o', out])
            assert res.exit_code == 0, res.output
            level1.append(out)
        final = os.path.join(root, 'merged-results.json.gz')
        res = runner.invoke(merge_results, level1 + ['-o', final])
        assert res.exit_code == 0, res.output
        return final
    if style == 'mixed':
        # a bit of everything, several paths, nested directories.
        paths = []
        buckets = [[] for _ in range(6)]
        for r in records:
            buckets[int(rng.integers(0, 6))].append(r)
        d0 = os.path.join(root, 'dir0', 'deep', 'deeper')
        os.makedirs(d0)
        for r in buckets[0]:
            write_plain(os.path.join(d0, next(names) + '.json'), r)
        d1 = os.path.join(root, 'dir0', 'run2')
        os.makedirs(d1)
        for r in buckets[1]:
            write_gz(os.path.join(d1, next(names) + '.json.gz'), r)
        paths.append(os.path.join(root, 'dir0'))
        if buckets[2]:
            zpath = os.path.join(root, 'dir0', 'packed.zip')
            with zipfile.ZipFile(zpath, 'w') as zf:
                half = len(buckets[2])//2
                if buckets[2][:half]:
                    zf.writestr('m/' + next(names) + '.json',
                                json.dumps(nest(rng, buckets[2][:half])))
                for r in buckets[2][half:]:
                    zf.writestr(
                        next(names) + '.json.gz',
                        gzip.compress(json.dumps(r).encode('utf-8'))
                    )
        if buckets[3]:
            p = os.path.join(root, 'zmerged.json')
            write_plain(p, nest(rng, buckets[3]))
            paths.append(p)
        if buckets[4]:
            p = os.path.join(root, 'amerged.json.gz')
            write_gz(p, [nest(rng, buckets[4])])
            paths.append(p)
        if buckets[5]:
            zpath = os.path.join(root, 'separate.zip')
            with zipfile.ZipFile(zpath, 'w') as zf:
                for r in buckets[5]:
                    zf.writestr('x/y/' + next(names) + '.json', json.dumps(r))
            paths.append(zpath)
        order = rng.permutation(len(paths))
        return [paths[i] for i in order]
    raise ValueError(style)


# ---------------------------------------------------------------------------
# Expected aggregates straight from the pooled multiset.
# ---------------------------------------------------------------------------

def expected(group, repeat=1):
    ee = np.concatenate([group['ee']]*repeat)
    cs = np.concatenate([group['cs']]*repeat)
    su = np.concatenate([group['su']]*repeat)
    k = group['inputs']['code']['k']
    n = len(ee)
    n_fail = int(n - su.sum())
    p = np.float64(n_fail)/np.float64(n)
    se = np.sqrt(p*(1 - p)/(n + 1))
    with np.errstate(all='ignore'):
        out = {
            'n_trials': n, 'n_fail': n_fail, 'p_est': p, 'p_se': se,
            'p_word_est': 1 - (1 - p)**(1/k),
            'p_word_se': (1/k)*(1 - p)**(1/k - 1)*se,
        }
    sq_est = np.zeros((k, 4))
    sq_se = np.zeros((k, 4))
    for i in range(k):
        x = ee[:, i]
        z = ee[:, k + i]
        counts = [
            int(((x == 1) | (z == 1)).sum()),
            int(((x == 1) & (z == 0)).sum()),
            int(((x == 1) & (z == 1)).sum()),
            int(((x == 0) & (z == 1)).sum()),
        ]
        for j, c in enumerate(counts):
            sq_est[i, j] = c/n
            sq_se[i, j] = np.sqrt((c/n)*(1 - c/n)/(n + 1))
    out['single_qubit_p_est'] = sq_est
    out['single_qubit_p_se'] = sq_se
    n_cs = int(cs.sum())
    for sector, block in [('X', ee[:, :k]), ('Z', ee[:, k:])]:
        nf = int(block[cs].sum())
        nt = k*n_cs
        out['n_trials_' + sector] = nt
        out['n_fail_' + sector] = nf
        with np.errstate(all='ignore'):
            ps = np.float64(nf)/np.float64(nt)
            out['p_est_' + sector] = ps
            out['p_se_' + sector] = np.sqrt(ps*(1 - ps)/(nt + 1))
    out['multiset'] = sorted(
        tuple(int(b) for b in row) + (bool(c), bool(s))
        for row, c, s in zip(ee, cs, su)
    )
    return out


def group_key(inputs):
    return (
        inputs['code']['name'],
        json.dumps(inputs['code']['parameters'], sort_keys=True),
        json.dumps(inputs['error_model']['parameters'], sort_keys=True),
        inputs['decoder']['name'],
        round(inputs['error_rate'], 6),
    )


def row_key(row):
    return (
        row['code'],
        json.dumps(row['code_params'], sort_keys=True),
        json.dumps(row['error_model_params'], sort_keys=True),
        row['decoder'],
        round(float(row['error_rate']), 6),
    )


def sector_columns(analysis):
    """Run the library's own per-sector statistics (the threshold fitting that
    follows them is irrelevant here and is skipped)."""
    original = Analysis.calculate_thresholds
    Analysis.calculate_thresholds = lambda self, *a, **kw: None
    try:
        analysis.calculate_sector_thresholds()
    finally:
        Analysis.calculate_thresholds = original


def check_analysis(tag, analysis, groups, repeat=1):
    sector_columns(analysis)
    df = analysis.get_results()
    if len(df) != len(groups):
        fail(f'{tag}: {len(df)} rows for {len(groups)} points')
        return
    rows = {}
    for _, row in df.iterrows():
        key = row_key(row)
        if key in rows:
            fail(f'{tag}: point {key} reported twice')
        rows[key] = row
    for group in groups:
        key = group_key(group['inputs'])
        if key not in rows:
            fail(f'{tag}: point {key} missing from the results')
            continue
        row = rows[key]
        exp = expected(group, repeat)
        for name in ['n_trials', 'n_fail', 'n_trials_X', 'n_trials_Z',
                     'n_fail_X', 'n_fail_Z']:
            if int(row[name]) != exp[name] or float(row[name]) != exp[name]:
                fail(f'{tag} {key}: {name}={row[name]!r}, expected '
                     f'{exp[name]}')
        for name in ['p_est', 'p_se', 'p_word_est', 'p_word_se',
                     'p_est_X', 'p_se_X', 'p_est_Z', 'p_se_Z',
                     'single_qubit_p_est', 'single_qubit_p_se']:
            if not close(row[name], exp[name]):
                fail(f'{tag} {key}: {name}={row[name]!r}, expected '
                     f'{exp[name]!r}')
        # the formulas, in terms of the reported quantities themselves.
        if not close(row['p_est'], row['n_fail']/row['n_trials']):
            fail(f'{tag} {key}: p_est != n_fail/n_trials')
        with np.errstate(all='ignore'):
            w_est, w_se = get_word_error_rate(
                np.float64(row['p_est']), np.float64(row['p_se']), row['k'])
        if not (close(row['p_word_est'], w_est)
                and close(row['p_word_se'], w_se)):
            fail(f'{tag} {key}: word error rate does not follow its formula')
        # pooled per-trial arrays are the same multiset, consistently aligned.
        got = sorted(
            tuple(int(b) for b in r) + (bool(c), bool(s))
            for r, c, s in zip(row['effective_error'], row['codespace'],
                               row['success'])
        )
        if got != exp['multiset']:
            fail(f'{tag} {key}: pooled trials are not the original multiset')
        if len(row['results_file']) < 1:
            fail(f'{tag} {key}: no results_file recorded')


def check_helpers(rng):
    """Direct checks of the helper formulas on edge values."""
    for n in [1, 2, 3, 7, 10, 1000, 12345]:
        for n_fail in sorted({0, 1, n//3, n//2, n - 1, n}):
            if n_fail < 0 or n_fail > n:
                continue
            p = np.float64(n_fail)/np.float64(n)
            if not close(get_standard_error(p, n), np.sqrt(p*(1-p)/(n+1))):
                fail(f'get_standard_error({p}, {n})')
            for k in [1, 2, 3, 4, 9]:
                with np.errstate(all='ignore'):
                    w, ws = get_word_error_rate(
                        p, get_standard_error(p, n), k)
                    ew = 1 - (1 - p)**(1/k)
                    ews = (1/k)*np.float64(1 - p)**(1/k - 1)*np.sqrt(
                        p*(1 - p)/(n + 1))
                if not (close(w, ew) and close(ws, ews)):
                    fail(f'get_word_error_rate({p}, ., {k})')
    for k in [1, 2, 3, 5]:
        for n in [1, 2, 5, 64]:
            ee = rng.integers(0, 2, size=(n, 2*k)).astype(np.uint8)
            cs = rng.random(n) < 0.6
            for variant in range(3):
                if variant == 1:
                    cs = np.ones(n, dtype=bool)
                if variant == 2:
                    cs = np.zeros(n, dtype=bool)
                for sector, block in [('X', ee[:, :k]), ('Z', ee[:, k:])]:
                    got = count_fails(ee, cs, sector)
                    want = sum(int(block[t].sum()) for t in range(n) if cs[t])
                    if int(got) != want or got != want:
                        fail(f'count_fails k={k} n={n} {sector}: {got} '
                             f'!= {want}')
            for i in range(k):
                for j, pauli in enumerate([None, 'X', 'Y', 'Z']):
                    est, se = get_single_qubit_error_rate(ee, i, pauli)
                    x = ee[:, i].astype(int)
                    z = ee[:, k + i].astype(int)
                    c = [((x | z) == 1).sum(), ((x == 1) & (z == 0)).sum(),
                         ((x == 1) & (z == 1)).sum(),
                         ((x == 0) & (z == 1)).sum()][j]
                    if not (close(est, c/n) and close(
                            se, np.sqrt((c/n)*(1 - c/n)/(n + 1)))):
                        fail(f'single qubit rate k={k} n={n} i={i} {pauli}')


# ---------------------------------------------------------------------------
# Digest of the concrete behaviour of the changed functions.
# ---------------------------------------------------------------------------

def digest(rng_seed=2024):
    rng = np.random.default_rng(rng_seed)
    out = {}
    tmp = tempfile.mkdtemp(prefix='c15_digest_')
    try:
        group = {
            'inputs': {
                'code': CODES[0], 'error_model': NOISES[3],
                'decoder': DECODERS[0], 'error_rate': 0.1,
                'method': {'name': 'direct', 'parameters': {}},
            },
        }
        ee = np.zeros((6, 4), dtype=int)
        ee[0] = [1, 0, 0, 0]
        ee[3] = [0, 1, 1, 0]
        group['ee'] = ee
        group['cs'] = np.array([1, 1, 1, 1, 0, 1], dtype=bool)
        group['su'] = ~ee.any(axis=1) & group['cs']
        root = os.path.join(tmp, 'res')
        os.makedirs(root)
        write_plain(os.path.join(root, 'a.json'), record(group, [0, 1]))
        write_gz(os.path.join(root, 'b.json.gz'), record(group, [2]))
        with zipfile.ZipFile(os.path.join(root, 'z.zip'), 'w') as zf:
            zf.writestr('m.json', json.dumps(record(group, [3, 4, 5])))
        analysis = Analysis(root)
        out['file_locations'] = [
            '/'.join(os.path.basename(str(x)) for x in loc)
            if isinstance(loc, tuple) else os.path.basename(str(loc))
            for loc in analysis.file_locations
        ]
        df = analysis.get_results()
        out['results_file_order'] = [
            os.path.relpath(p, root) for p in df['results_file'].iloc[0]
        ]
        out['pooled_effective_error'] = df['effective_error'].iloc[0].tolist()
        out['p_est_repr'] = repr(float(df['p_est'].iloc[0]))
        out['p_se_repr'] = repr(float(df['p_se'].iloc[0]))
        sector_columns(analysis)
        df = analysis.get_results()
        out['n_fail_X_dtype'] = str(df['n_fail_X'].dtype)
        out['n_fail_Z_dtype'] = str(df['n_fail_Z'].dtype)
        got = count_fails(ee.astype(np.uint8), group['cs'], 'X')
        out['count_fails_type'] = type(got).__name__
        out['count_fails_value'] = int(got)

        # p_est for a series of n_fail/n_trials that are inexact in binary.
        reprs = []
        for n, n_fail in [(3, 1), (7, 3), (10, 3), (49, 20), (1000, 1)]:
            g = dict(group)
            g['ee'] = np.zeros((n, 4), dtype=int)
            g['ee'][:n_fail, 0] = 1
            g['cs'] = np.ones(n, dtype=bool)
            g['su'] = ~g['ee'].any(axis=1)
            p = os.path.join(tmp, 'single_%d.json' % n)
            write_plain(p, record(g, range(n)))
            reprs.append(repr(float(Analysis(p).get_results()['p_est'][0])))
        out['p_est_reprs'] = reprs

        # structure of a merge of merges written by the CLI.
        runner = CliRunner()
        m1 = os.path.join(tmp, 'm1.json.gz')
        m2 = os.path.join(tmp, 'm2.json')
        m3 = os.path.join(tmp, 'm3.json.gz')
        assert runner.invoke(merge_results, [
            os.path.join(root, 'a.json'), os.path.join(root, 'b.json.gz'),
            '-o', m1]).exit_code == 0
        write_plain(m2, [[record(group, [3])], record(group, [4, 5])])
        assert runner.invoke(merge_results, [m1, m2, '-o', m3]).exit_code == 0

        def shape(x):
            if isinstance(x, list):
                return [shape(y) for y in x]
            return 'record(%d)' % len(x['results']['effective_error'])
        out['merged_structure'] = shape(load_json(m3))
        merged = Analysis(m3).get_results()
        out['merged_n_trials'] = int(merged['n_trials'].iloc[0])
    finally:
        shutil.rmtree(tmp, ignore_errors=True)
    return out


def main():
    rng = np.random.default_rng(12345)
    check_helpers(rng)

    groups = build_groups(rng)
    tmp = tempfile.mkdtemp(prefix='c15_holds_')
    try:
        styles = ['plain', 'gzip', 'save_json', 'onezip', 'onemerged',
                  'cli_merge', 'mixed', 'mixed', 'mixed']
        for i_style, style in enumerate(styles):
            for max_chunks in ([1, 6] if i_style < 6 else [9]):
                records = split_records(rng, groups, max_chunks)
                root = os.path.join(tmp, f'{style}_{i_style}_{max_chunks}')
                paths = layout(rng, records, root, style)
                tag = f'{style}/{max_chunks}'
                analysis = Analysis(paths)
                check_analysis(tag, analysis, groups)
                # same object asked again: nothing accumulates.
                check_analysis(tag + '/again', analysis, groups)

        # Two different splittings of the same multiset, given as a list of
        # paths in both orders: identical aggregates.
        rec_a = split_records(rng, groups, 4)
        half = len(rec_a)//2
        pa_ = layout(rng, rec_a[:half], os.path.join(tmp, 'two_a'), 'plain')
        pb_ = layout(rng, rec_a[half:], os.path.join(tmp, 'two_b'), 'onezip')
        for order in ([pa_, pb_], [pb_, pa_]):
            check_analysis('two-paths', Analysis(order), groups)

        # Repeated runs: the very same trials run (written) three times in
        # different containers pool to three times the counts.
        rep_paths = []
        for i, style in enumerate(['gzip', 'onemerged', 'onezip']):
            rep_paths.append(layout(
                rng, split_records(rng, groups, 3 + i),
                os.path.join(tmp, f'rep_{i}'), style
            ))
        check_analysis('repeated', Analysis(rep_paths), groups, repeat=3)
        check_analysis('repeated-rev', Analysis(rep_paths[::-1]), groups,
                       repeat=3)

        # Real data shipped with the test-suite: the merged file against the
        # same records re-split one per file and zipped.
        data_file = os.path.join('tests', 'data', 'merged-results.json.gz')
        if os.path.isfile(data_file):
            def flatten(x):
                if isinstance(x, list):
                    return [z for y in x for z in flatten(y)]
                return [x]
            recs = flatten(load_json(data_file))
            resplit = os.path.join(tmp, 'resplit')
            os.makedirs(resplit)
            zpath = os.path.join(resplit, 'half.zip')
            with zipfile.ZipFile(zpath, 'w') as zf:
                for i, r in enumerate(recs):
                    if i % 2:
                        write_gz(os.path.join(resplit, f'r{i}.json.gz'), r)
                    else:
                        zf.writestr(f'r{i}.json', json.dumps(r))
            a1 = Analysis(data_file)
            a2 = Analysis(resplit)
            sector_columns(a1)
            sector_columns(a2)
            keys = ['code', 'error_model', 'decoder', 'error_rate']
            d1 = a1.get_results().copy()
            d2 = a2.get_results().copy()
            for d in (d1, d2):
                d['_cp'] = d['code_params'].apply(
                    lambda x: json.dumps(x, sort_keys=True))
                d['_ep'] = d['error_model_params'].apply(
                    lambda x: json.dumps(x, sort_keys=True))
            keys += ['_cp', '_ep']
            d1 = d1.sort_values(keys).reset_index(drop=True)
            d2 = d2.sort_values(keys).reset_index(drop=True)
            if len(d1) != len(d2):
                fail('real data: different number of points after resplit')
            else:
                for name in ['n_trials', 'n_fail', 'n_fail_X', 'n_fail_Z',
                             'n_trials_X', 'n_trials_Z']:
                    if list(map(int, d1[name])) != list(map(int, d2[name])):
                        fail(f'real data: {name} changed after resplit')
                for name in ['p_est', 'p_se', 'p_word_est', 'p_word_se',
                             'p_est_X', 'p_se_X', 'p_est_Z', 'p_se_Z']:
                    if not close(d1[name].values, d2[name].values):
                        fail(f'real data: {name} changed after resplit')
                for name in ['single_qubit_p_est', 'single_qubit_p_se']:
                    for u, v in zip(d1[name], d2[name]):
                        if not close(u, v):
                            fail(f'real data: {name} changed after resplit')
                if not close(d1['p_est'].values,
                             (d1['n_fail']/d1['n_trials']).values):
                    fail('real data: p_est != n_fail/n_trials')
                # the full pipeline (with the threshold fits) still runs and
                # leaves the per-sector statistics in place.
                a1.calculate_sector_thresholds()
                d3 = a1.get_results()
                if int(d3['n_fail_X'].sum()) != int(d1['n_fail_X'].sum()):
                    fail('real data: n_fail_X changed by the full pipeline')
    finally:
        shutil.rmtree(tmp, ignore_errors=True)

    dig = digest()
    print('DIGEST-DETAILS ' + json.dumps(dig, sort_keys=True))
    print('DIGEST ' + hashlib.sha256(
        json.dumps(dig, sort_keys=True).encode()).hexdigest())

    if FAILURES:
        print(f'C15 FAILS: {len(FAILURES)} violation(s); first: '
              f'{FAILURES[0]}')
        sys.exit(1)
    print('C15 holds on all inputs tried')
    sys.exit(0)


if __name__ == '__main__':
    main()
