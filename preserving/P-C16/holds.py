import os, sys; sys.path.insert(0, os.getcwd())
"""C16: threshold estimation recovers a planted finite-size-scaling threshold.

(a) checks the property on many planted data sets, end to end through
    panqec.analysis.Analysis (result files on disk, several code classes,
    non-square sizes, deformations, biased noise, several file layouts and
    orders) and directly through fit_fss_params / get_fit_params;
    exits 1 with a message on the first violation.
(b) prints a digest (lines starting with DIGEST) of concrete outputs of the
    functions involved.
"""
import gzip
import hashlib
import json
import shutil
import tempfile
import warnings
import zipfile

import numpy as np
import pandas as pd

warnings.filterwarnings('ignore')

from panqec.analysis import (  # noqa: E402
    Analysis, fit_fss_params, get_fit_params, fit_function
)
from panqec.utils import quadratic, rescale_prob  # noqa: E402

FAILURES = []
DIGEST = []


def fail(msg):
    print('PROPERTY VIOLATED: ' + msg)
    sys.exit(1)


def digest(*items):
    line = ' '.join(str(x) for x in items)
    DIGEST.append(line)
    print('DIGEST ' + line)


def ansatz(p, d, th):
    p_th, nu, A, B, C = th
    x = (p - p_th)*float(d)**nu
    return A + B*x + C*x*x


def plant(rng, ds, n_p, p_th=None, nu=None):
    """A well-conditioned planted threshold and the error rates around it."""
    p_th = rng.uniform(0.05, 0.3) if p_th is None else p_th
    nu = rng.uniform(0.7, 1.6) if nu is None else nu
    A = rng.uniform(0.15, 0.5)
    half = (n_p - 1)/2
    xmax = rng.uniform(0.3, 0.6)
    step = max(np.round(xmax/(half*max(ds)**nu), 5), 2e-5)
    # Keep all error rates positive.
    step = min(step, np.round(0.8*p_th/(half + 0.5), 5))
    xmax = step*half*max(ds)**nu
    B = rng.uniform(0.4, 1.0)*min(A, 1 - A)/xmax*0.5
    C = rng.uniform(-1, 1)*0.3*B/xmax
    offset = rng.uniform(-0.5, 0.5)*step
    ps = np.round(p_th + offset + step*(np.arange(n_p) - half), 6)
    assert len(set(ps)) == n_p and ps.min() > 0
    th = (p_th, nu, A, B, C)
    for d in ds:
        for p in ps:
            f = ansatz(p, d, th)
            assert 0.02 < f < 0.98, (f, th)
    return th, ps, step


# ---------------------------------------------------------------------------
# Result files
# ---------------------------------------------------------------------------

CODES = {
    # name: (parameters(d), n(d), k)
    'Toric2DCode': (lambda d: {'L_x': d, 'L_y': d}, lambda d: 2*d*d, 2),
    # non-square: the distance is the smaller side.
    'Planar2DCode': (
        lambda d: {'L_x': d, 'L_y': d + 3},
        lambda d: d*(d + 3) + (d - 1)*(d + 2), 1
    ),
    'Toric3DCode': (
        lambda d: {'L_x': d, 'L_y': d, 'L_z': d}, lambda d: 3*d**3, 3
    ),
    'RotatedPlanar2DCode': (
        lambda d: {'L_x': d, 'L_y': d + 1}, lambda d: d*(d + 1), 1
    ),
    'Color666PlanarCode': (
        lambda d: {'L_x': d, 'L_y': d}, lambda d: (3*d*d + 1)//4, 1
    ),
}

ERROR_MODELS = {
    'depol': {'r_x': 1/3, 'r_y': 1/3, 'r_z': 1/3,
              'deformation_name': None, 'deformation_kwargs': {}},
    'z10_xzzx': {'r_x': 0.5/11, 'r_y': 0.5/11, 'r_z': 10/11,
                 'deformation_name': 'XZZX', 'deformation_kwargs': {}},
    'zinf_xy': {'r_x': 0.0, 'r_y': 0.0, 'r_z': 1.0,
                'deformation_name': 'XY', 'deformation_kwargs': {}},
    'x3': {'r_x': 0.75, 'r_y': 0.125, 'r_z': 0.125,
           'deformation_name': None, 'deformation_kwargs': {}},
    'y100_xy': {'r_x': 0.5/101, 'r_y': 100/101, 'r_z': 0.5/101,
                'deformation_name': 'XY', 'deformation_kwargs': {}},
}

DECODERS = {
    'matching': {'name': 'MatchingDecoder',
                 'parameters': {'error_type': None, 'weights': None}},
    'bposd': {'name': 'BeliefPropagationOSDDecoder',
              'parameters': {'max_bp_iter': 10, 'osd_order': 0}},
}


def make_entry(code_name, d, em_key, dec_key, p, n_trials, n_fail, rng):
    """One result-file entry with exactly n_fail failures in n_trials."""
    params, n_of, k = CODES[code_name]
    success = np.ones(n_trials, dtype=bool)
    success[rng.choice(n_trials, size=n_fail, replace=False)] = False
    # A failure is a logical Y on every logical qubit, so that the X and Z
    # sector rates equal the total rate.
    effective_error = np.zeros((n_trials, 2*k), dtype=int)
    effective_error[~success, :] = 1
    return {
        'results': {
            'n_runs': n_trials,
            'wall_time': float(n_trials)*1e-3,
            'effective_error': effective_error.tolist(),
            'success': success.tolist(),
            'codespace': [True]*n_trials,
        },
        'inputs': {
            'code': {'name': code_name, 'parameters': params(d),
                     'n': n_of(d), 'k': k, 'd': d},
            'error_model': {'name': 'PauliErrorModel',
                            'parameters': dict(ERROR_MODELS[em_key])},
            'decoder': json.loads(json.dumps(DECODERS[dec_key])),
            'error_rate': float(p),
            'method': {'name': 'direct', 'parameters': {}},
        },
    }


def write_json(data, path):
    os.makedirs(os.path.dirname(path), exist_ok=True)
    if path.endswith('.gz'):
        with gzip.open(path, 'wb') as f:
            f.write(json.dumps(data).encode('utf-8'))
    else:
        with open(path, 'w') as f:
            json.dump(data, f)


def build_layouts(root, sets, rng):
    """Write the same data in two layouts. Returns (dir_a, dir_b).

    sets : list of dicts with keys code, em, dec, ds, ps, th, n_trials.
    Layout A: one file per (set, distance) holding all error rates.
    Layout B: every point split over two files with the trials shared
    unevenly, entries in shuffled order, one part of the files in a zip.
    """
    dir_a = os.path.join(root, 'A')
    dir_b = os.path.join(root, 'B')
    zip_members = []
    for i_set, s in enumerate(sets):
        for d in s['ds']:
            entries_a = []
            for p in s['ps']:
                n_trials = s['n_trials']
                n_fail = int(round(ansatz(p, d, s['th'])*n_trials))
                s.setdefault('table', []).append(
                    (d, p, n_trials, n_fail)
                )
                entries_a.append(make_entry(
                    s['code'], d, s['em'], s['dec'], p, n_trials, n_fail, rng
                ))
                # Layout B: uneven split of trials and fails.
                n1 = int(rng.integers(n_trials//4, 3*n_trials//4))
                f1 = int(rng.integers(
                    max(0, n_fail - (n_trials - n1)), min(n1, n_fail) + 1
                ))
                parts = [
                    make_entry(s['code'], d, s['em'], s['dec'], p, n1, f1,
                               rng),
                    make_entry(s['code'], d, s['em'], s['dec'], p,
                               n_trials - n1, n_fail - f1, rng),
                ]
                for i_part, part in enumerate(parts):
                    name = 's%d/d%d/p%.6f_part%d' % (i_set, d, p, i_part)
                    ext = '.json.gz' if (i_part + d) % 2 else '.json'
                    if i_part == 1 and d == s['ds'][0]:
                        zip_members.append((name + '.json', [part]))
                    else:
                        write_json(part, os.path.join(dir_b, name + ext))
            ext = '.json' if (i_set + d) % 2 else '.json.gz'
            order = rng.permutation(len(entries_a))
            write_json(
                [entries_a[i] for i in order],
                os.path.join(dir_a, 'set%d' % i_set, 'd%d%s' % (d, ext))
            )
    if zip_members:
        os.makedirs(dir_b, exist_ok=True)
        with zipfile.ZipFile(os.path.join(dir_b, 'rest.zip'), 'w') as zf:
            for i in rng.permutation(len(zip_members)):
                name, data = zip_members[i]
                zf.writestr(name, json.dumps(data))
    return dir_a, dir_b


def list_files(directory):
    out = []
    for base, _, names in os.walk(directory):
        for name in names:
            out.append(os.path.join(base, name))
    return sorted(out)


def threshold_rows(analysis, sector='total'):
    if sector == 'total':
        df = analysis.thresholds
    else:
        df = analysis.sector_thresholds[sector]
    rows = {}
    for _, row in df.iterrows():
        key = (row['code'], row['error_model_label'], row['decoder_label'])
        assert key not in rows
        rows[key] = row
    return rows


def check_row(tag, row, s, step):
    p_th = s['th'][0]
    ps = s['ps']
    est = row['p_th_fss']
    left, right = row['p_th_fss_left'], row['p_th_fss_right']
    if not (row['fit_found'] is True or row['fit_found'] == True):  # noqa
        fail('%s: fit not flagged successful: %r' % (tag, row['fit_status']))
    if row['fit_status'] != 'success':
        fail('%s: fit_status %r' % (tag, row['fit_status']))
    if not (left <= est <= right):
        fail('%s: estimate %r outside its CI [%r, %r]' % (
            tag, est, left, right))
    if not (ps.min() <= est <= ps.max()):
        fail('%s: estimate %r outside data range' % (tag, est))
    tol = 0.5*(right - left) + 0.1*step
    if not abs(est - p_th) <= tol:
        fail('%s: estimate %r is not the planted %r (tol %r)' % (
            tag, est, p_th, tol))
    if not abs(row['fss_params'][0] - p_th) <= 0.05*step:
        fail('%s: best-fit threshold %r is not the planted %r' % (
            tag, row['fss_params'][0], p_th))
    if not (row['p_th_fss_se'] > 0 and np.isfinite(row['p_th_fss_se'])):
        fail('%s: bad standard error %r' % (tag, row['p_th_fss_se']))
    return abs(est - p_th)/tol


def same_rows(tag, rows_1, rows_2):
    if set(rows_1) != set(rows_2):
        fail('%s: different parameter sets' % tag)
    for key in rows_1:
        for col in ['p_th_fss', 'p_th_fss_left', 'p_th_fss_right',
                    'p_th_fss_se', 'p_th_nearest', 'p_left', 'p_right']:
            a, b = rows_1[key][col], rows_2[key][col]
            if not np.isclose(a, b, rtol=1e-9, atol=1e-12):
                fail('%s: %s depends on the order/layout of the files: '
                     '%r vs %r for %r' % (tag, col, a, b, key))
        if not np.allclose(rows_1[key]['fss_params'],
                           rows_2[key]['fss_params'], rtol=1e-9, atol=1e-12):
            fail('%s: fss_params depend on the order/layout' % tag)
        if rows_1[key]['fit_status'] != rows_2[key]['fit_status']:
            fail('%s: fit_status depends on the order/layout' % tag)


SCENARIOS = [
    # (seed, [(code, em, dec, ds, n_p, n_trials), ...])
    (11, [
        ('Toric2DCode', 'depol', 'matching', [4, 6, 8], 7, 4000),
        ('Toric2DCode', 'z10_xzzx', 'matching', [4, 6, 8, 10], 9, 3000),
        ('Planar2DCode', 'zinf_xy', 'bposd', [3, 5, 7], 9, 5000),
    ]),
    (12, [
        ('Toric3DCode', 'x3', 'bposd', [4, 6, 8], 11, 2500),
        ('RotatedPlanar2DCode', 'y100_xy', 'matching', [5, 7, 9, 11], 7,
         4000),
        ('RotatedPlanar2DCode', 'depol', 'matching', [5, 9, 13], 8, 6000),
    ]),
    (13, [
        ('Color666PlanarCode', 'depol', 'bposd', [3, 5, 7, 9, 11], 7, 3000),
        ('Planar2DCode', 'z10_xzzx', 'bposd', [6, 10, 14], 13, 2000),
    ]),
]


def label_key(s):
    from panqec.utils import get_label
    return (
        s['code'],
        get_label('PauliErrorModel', ERROR_MODELS[s['em']]),
        get_label(DECODERS[s['dec']]['name'], DECODERS[s['dec']]['parameters'])
    )


def run_end_to_end(root):
    worst = 0
    for seed, spec in SCENARIOS:
        rng = np.random.default_rng(seed)
        sets = []
        for code, em, dec, ds, n_p, n_trials in spec:
            th, ps, step = plant(rng, ds, n_p)
            sets.append(dict(code=code, em=em, dec=dec, ds=ds, ps=ps, th=th,
                             step=step, n_trials=n_trials))
        scen_root = os.path.join(root, 'scen%d' % seed)
        dir_a, dir_b = build_layouts(scen_root, sets, rng)

        files_a = list_files(dir_a)
        shuffled = [files_a[i] for i in rng.permutation(len(files_a))]
        files_b = list_files(dir_b)
        shuffled_b = [files_b[i] for i in rng.permutation(len(files_b))]

        variants = {
            'dirA': Analysis(dir_a),
            'listA-shuffled': Analysis(shuffled),
            'listA-reversed': Analysis(files_a[::-1]),
            'dirB-split': Analysis(dir_b),
            'listB-shuffled': Analysis(shuffled_b),
        }
        reference = None
        for name, analysis in variants.items():
            for sector in ['total', 'X', 'Z']:
                rows = threshold_rows(analysis, sector)
                if len(rows) != len(sets):
                    fail('%s: %d threshold rows for %d parameter sets' % (
                        name, len(rows), len(sets)))
                for s in sets:
                    tag = 'scenario %d %s sector %s %s/%s' % (
                        seed, name, sector, s['code'], s['em'])
                    row = rows[label_key(s)]
                    worst = max(worst, check_row(tag, row, s, s['step']))
                    if not np.isclose(row['p_left'], s['ps'].min()):
                        fail(tag + ': p_left is not the smallest rate')
                    if not np.isclose(row['p_right'], s['ps'].max()):
                        fail(tag + ': p_right is not the largest rate')
                if reference is None:
                    reference = {}
                if sector not in reference:
                    reference[sector] = rows
                else:
                    same_rows('scenario %d %s vs dirA sector %s' % (
                        seed, name, sector), reference[sector], rows)

        # Repeated use of the same object: recomputing changes nothing.
        analysis = variants['dirA']
        before = threshold_rows(analysis)
        analysis.calculate_thresholds()
        same_rows('scenario %d recomputed' % seed, before,
                  threshold_rows(analysis))
        trunc = analysis.trunc_results['total']
        n_points = sum(len(s['ds'])*len(s['ps']) for s in sets)
        if trunc.shape[0] != n_points:
            fail('scenario %d: %d truncated rows for %d points' % (
                seed, trunc.shape[0], n_points))

        # The aggregated counts are the planted ones.
        res = analysis.get_results()
        for s in sets:
            sub = res[(res['code'] == s['code'])
                      & (res['error_model_label'] == label_key(s)[1])]
            for d, p, n_trials, n_fail in s['table']:
                hit = sub[(sub['d'] == d) & (sub['error_rate'] == p)]
                if hit.shape[0] != 1 or int(hit['n_trials'].iloc[0]) != \
                        n_trials or int(hit['n_fail'].iloc[0]) != n_fail:
                    fail('scenario %d: aggregation lost trials' % seed)

        if seed == 11:
            rows = threshold_rows(analysis)
            for s in sets:
                row = rows[label_key(s)]
                digest('e2e', s['code'], s['em'],
                       'p_th_fss=%r' % float(row['p_th_fss']),
                       'left=%r' % float(row['p_th_fss_left']),
                       'right=%r' % float(row['p_th_fss_right']),
                       'se=%r' % float(row['p_th_fss_se']),
                       'fss_params=%r' % [float(v) for v in
                                          row['fss_params']])
                digest('e2e params_bs sha', hashlib.sha256(
                    np.round(row['params_bs'], 10).tobytes()
                ).hexdigest()[:16])
    print('CHECK end-to-end worst |err|/tol = %.3f' % worst)


def make_df(ds, ps, th, n_trials, exact=False):
    rows = []
    for d in ds:
        for p in ps:
            f = ansatz(p, d, th)
            n_fail = int(round(f*n_trials))
            rows.append({
                'd': d, 'error_rate': p,
                'p_est': f if exact else n_fail/n_trials,
                'n_trials': n_trials, 'n_fail': n_fail,
            })
    return pd.DataFrame(rows)


def run_direct():
    rng = np.random.default_rng(2024)
    d_sets = [[4, 6, 8], [5, 7, 9, 11], [3, 5, 7], [6, 10, 14, 18],
              [8, 12, 16], [3, 4, 5, 6, 7]]
    worst = worst_opt = worst_exact = worst_order = 0
    for trial in range(48):
        ds = d_sets[trial % len(d_sets)]
        n_p = [7, 8, 9, 11, 15][trial % 5]
        # Edge values of the box every so often.
        p_th = [None, 0.05, 0.3][trial % 3] if trial % 4 == 0 else None
        nu = [None, 0.7, 1.6][trial % 3] if trial % 5 == 0 else None
        th, ps, step = plant(rng, ds, n_p, p_th=p_th, nu=nu)
        n_trials = int([2000, 5000, 10000, 50000][trial % 4])

        # Exact data on the ansatz: the best fit is the planted threshold.
        df_exact = make_df(ds, ps, th, n_trials, exact=True)
        popt = get_fit_params(
            df_exact['error_rate'].values, df_exact['d'].values,
            df_exact['p_est'].values,
            params_0=[ps.min(), 2, df_exact['p_est'].mean(), 1, 1]
        )
        err = abs(popt[0] - th[0])/step
        worst_exact = max(worst_exact, err)
        if not err <= 1e-2:
            fail('direct %d: exact data, best fit %r, planted %r' % (
                trial, popt[0], th[0]))
        if not np.allclose(fit_function(
            (df_exact['error_rate'].values, df_exact['d'].values), *popt
        ), df_exact['p_est'].values, atol=1e-4):
            fail('direct %d: exact data not reproduced by the fit' % trial)

        # Counted data, in three row orders.
        df = make_df(ds, ps, th, n_trials)
        orders = [
            np.arange(df.shape[0]),
            np.arange(df.shape[0])[::-1],
            rng.permutation(df.shape[0]),
        ]
        estimates = []
        for order in orders:
            df_o = df.iloc[order].reset_index(drop=True)
            popt, pbs, df_trunc = fit_fss_params(
                df_o, ps.min(), ps.max(), ps.min()
            )
            if df_trunc.shape[0] != df.shape[0]:
                fail('direct %d: rows dropped' % trial)
            if pbs.shape[0] < 90 or np.isnan(pbs).any():
                fail('direct %d: bootstrap fits failed' % trial)
            entry = {
                'fss_params': popt,
                'p_th_fss': np.median(pbs[:, 0]),
                'p_th_fss_left': np.quantile(pbs[:, 0], 0.16),
                'p_th_fss_right': np.quantile(pbs[:, 0], 0.84),
                'p_th_fss_se': pbs[:, 0].std(),
                'p_left': ps.min(), 'p_right': ps.max(),
            }
            status = Analysis.get_fit_status(None, entry)
            if status != 'success':
                fail('direct %d: status %r' % (trial, status))
            est = entry['p_th_fss']
            left, right = entry['p_th_fss_left'], entry['p_th_fss_right']
            if not left <= est <= right:
                fail('direct %d: estimate outside CI' % trial)
            if not ps.min() <= est <= ps.max():
                fail('direct %d: estimate outside data range' % trial)
            tol = 0.5*(right - left) + 0.1*step
            worst = max(worst, abs(est - th[0])/tol)
            if not abs(est - th[0]) <= tol:
                fail('direct %d: estimate %r, planted %r, tol %r' % (
                    trial, est, th[0], tol))
            worst_opt = max(worst_opt, abs(popt[0] - th[0])/step)
            if not abs(popt[0] - th[0]) <= 0.05*step:
                fail('direct %d: best fit %r, planted %r' % (
                    trial, popt[0], th[0]))
            if not np.allclose(
                df_trunc['rescaled_p'].values,
                rescale_prob([df_o['error_rate'].values, df_o['d'].values],
                             *popt)
            ):
                fail('direct %d: rescaled_p wrong' % trial)
            estimates.append((popt[0], est, right - left))
        for popt0, est, width in estimates[1:]:
            worst_order = max(worst_order, abs(popt0 - estimates[0][0])/step)
            if not abs(popt0 - estimates[0][0]) <= 1e-3*step:
                fail('direct %d: best fit depends on row order' % trial)
            if not abs(est - estimates[0][1]) <= 0.5*max(
                width, estimates[0][2]
            ) + 0.1*step:
                fail('direct %d: estimate depends on row order beyond the '
                     'fit tolerance' % trial)
    print('CHECK direct worst: exact %.2e step, counted best-fit %.2e step, '
          'bootstrap |err|/tol %.3f, row order %.2e step' % (
              worst_exact, worst_opt, worst, worst_order))


def run_digest(root):
    # Order in which result files are listed.
    rng = np.random.default_rng(5)
    th = (0.1, 1.0, 0.3, 1.2, 0.5)
    ps = np.round(0.1 + 0.004*np.arange(-4, 5), 6)
    ddir = os.path.join(root, 'digest')
    for d, name in [(4, 'b_d4.json.gz'), (6, 'a_d6.json'),
                    (8, 'c_d8.json.gz')]:
        write_json([
            make_entry('Toric2DCode', d, 'depol', 'matching', p, 3000,
                       int(round(ansatz(p, d, th)*3000)), rng)
            for p in ps
        ], os.path.join(ddir, name))
    # A second copy of the d=6 data, to see the order of results_file lists.
    shutil.copy(os.path.join(ddir, 'a_d6.json'),
                os.path.join(ddir, 'd_d6_again.json'))
    analysis = Analysis(ddir)
    digest('file_locations', [
        os.path.basename(str(f)) for f in analysis.file_locations
    ])
    res = analysis.get_results()
    digest('results_file[d=6]', [
        os.path.basename(f)
        for f in res[res['d'] == 6]['results_file'].iloc[0]
    ])
    digest('raw d order', [int(v) for v in pd.unique(
        analysis.raw['code'].apply(lambda c: c['d']))])
    row = analysis.thresholds.iloc[0]
    if not (row['fit_found'] and row['p_th_fss_left'] <= row['p_th_fss']
            <= row['p_th_fss_right']
            and abs(row['p_th_fss'] - 0.1) < 0.002):
        fail('digest data set: threshold not recovered')
    digest('thresholds', 'p_th_fss=%r left=%r right=%r se=%r' % (
        float(row['p_th_fss']), float(row['p_th_fss_left']),
        float(row['p_th_fss_right']), float(row['p_th_fss_se'])))

    # Fitting routines on fixed data.
    ds = [5, 7, 9]
    df = make_df(ds, ps, th, 8000)
    popt, pbs, df_trunc = fit_fss_params(df, ps.min(), ps.max(), ps.min())
    digest('fit_fss_params popt', [float(v) for v in popt])
    digest('fit_fss_params bs[0]', [float(v) for v in pbs[0]])
    digest('fit_fss_params bs median/q16/q84 %r %r %r' % (
        float(np.median(pbs[:, 0])), float(np.quantile(pbs[:, 0], .16)),
        float(np.quantile(pbs[:, 0], .84))))
    popt = get_fit_params(df['error_rate'].values, df['d'].values,
                          df['p_est'].values, params_0=[0.09, 2, 0.3, 1, 1])
    digest('get_fit_params', [float(v) for v in popt])
    xs = np.linspace(-0.7, 0.7, 29)
    digest('quadratic sha', hashlib.sha256(
        np.asarray(quadratic(xs, *th)).tobytes()).hexdigest()[:16])
    digest('fit_function sha', hashlib.sha256(np.asarray(fit_function(
        (df['error_rate'].values, df['d'].values), 0.1013, 1.07, 0.31, 1.3,
        0.45)).tobytes()).hexdigest()[:16])


def main():
    root = tempfile.mkdtemp(prefix='c16_holds_')
    try:
        run_direct()
        run_end_to_end(root)
        run_digest(root)
    finally:
        shutil.rmtree(root, ignore_errors=True)
    print('DIGEST-SHA256 ' + hashlib.sha256(
        '\n'.join(DIGEST).encode()).hexdigest())
    print('PROPERTY HOLDS')


if __name__ == '__main__':
    main()
