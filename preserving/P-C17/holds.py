import os, sys; sys.path.insert(0, os.getcwd())
"""C17: the distance d a code reports equals the true code distance.

(a) For a varied set of (code class, size, deformation) the true distance is
    recomputed here, independently of the library's logical operators, from
    the stabilizer matrix alone: exhaustive enumeration by increasing weight
    where cheap, integer programming (scipy.optimize.milp) otherwise.  It is
    compared to code.d, to the d stored in the simulation inputs and to the d
    that ends up in a results file.
(b) A digest of concrete outputs of the changed functions is printed.

exit status 0: property holds on every input checked; 1 otherwise.
"""
import hashlib
import itertools
import json
import tempfile
import time
from math import comb

import numpy as np
from scipy.optimize import milp, LinearConstraint, Bounds
from scipy.sparse import csr_matrix, hstack, vstack, identity

import panqec.codes as C

FAILURES = []


def fail(msg):
    FAILURES.append(msg)
    print('PROPERTY FAILURE:', msg, flush=True)


# ---------------------------------------------------------------- GF(2) tools
def gf2_rref(A):
    A = (np.array(A, dtype=np.uint8) % 2).copy()
    m, n = A.shape
    pivots = []
    r = 0
    for c in range(n):
        if r >= m:
            break
        rows = np.nonzero(A[r:, c])[0]
        if rows.size == 0:
            continue
        p = r + rows[0]
        if p != r:
            A[[r, p]] = A[[p, r]]
        others = np.nonzero(A[:, c])[0]
        others = others[others != r]
        A[others] ^= A[r]
        pivots.append(c)
        r += 1
    return A[:r], pivots


def gf2_rank(A):
    if A.shape[0] == 0:
        return 0
    return len(gf2_rref(A)[1])


def gf2_nullspace(A):
    A = np.array(A, dtype=np.uint8) % 2
    n = A.shape[1]
    R, piv = gf2_rref(A)
    pset = set(piv)
    free = [c for c in range(n) if c not in pset]
    basis = np.zeros((len(free), n), dtype=np.uint8)
    for i, f in enumerate(free):
        basis[i, f] = 1
        for r, p in enumerate(piv):
            if R[r, f]:
                basis[i, p] = 1
    return basis


def coset_reps(S, N):
    """Rows of N extending the row space of S to the row space of S + N."""
    width = N.shape[1]
    cur = gf2_rref(S)[0] if S.shape[0] else np.zeros((0, width), np.uint8)
    rank = cur.shape[0]
    reps = []
    for v in N:
        R, piv = gf2_rref(np.vstack([cur, v[None, :]]))
        if len(piv) > rank:
            cur, rank = R, len(piv)
            reps.append(v)
    return np.array(reps, dtype=np.uint8).reshape(len(reps), width)


def swap_xz(M, n):
    return np.hstack([M[:, n:], M[:, :n]])


# ------------------------------------------------- exact minimum-weight search
def milp_parity(Hc, t, n, lower):
    """min |x| s.t. Hc x = 0 (mod 2), t.x = 1 (mod 2), |x| >= lower."""
    m = Hc.shape[0]
    A_top = hstack([csr_matrix(Hc.astype(float)),
                    -2*identity(m, format='csr'), csr_matrix((m, 1))])
    A_bot = hstack([csr_matrix(t.astype(float)[None, :]),
                    csr_matrix((1, m)), csr_matrix(np.array([[-2.0]]))])
    A = vstack([A_top, A_bot]).tocsr()
    rhs = np.concatenate([np.zeros(m), [1]])
    cons = [
        LinearConstraint(A, rhs, rhs),
        LinearConstraint(
            hstack([csr_matrix(np.ones((1, n))),
                    csr_matrix((1, m+1))]).tocsr(), lower, np.inf),
    ]
    c = np.concatenate([np.ones(n), np.zeros(m+1)])
    ub = np.concatenate([np.ones(n), np.full(m+1, n)])
    res = milp(c, constraints=cons, integrality=np.ones(n+m+1),
               bounds=Bounds(np.zeros(n+m+1), ub))
    if res.status == 2:
        return None
    assert res.status == 0, res.message
    x = np.round(res.x[:n]).astype(int)
    assert not ((Hc.astype(int) @ x) % 2).any() and (t.astype(int) @ x) % 2
    return int(x.sum())


def min_weight_css_side(Hother, tests, n, limit_enum=1_500_000):
    """min weight of a binary x with Hother x = 0 and tests x != 0."""
    Hother = np.asarray(Hother, dtype=np.uint8)
    tests = np.asarray(tests, dtype=np.uint8)
    if tests.shape[0] == 0:
        return None
    HT = Hother.T.astype(np.int64)
    TT = tests.T.astype(np.int64)
    total = 0
    w = 0
    while True:
        w += 1
        if w > n:
            return None
        total += comb(n, w)
        if total > limit_enum:
            break
        idx = np.array(list(itertools.combinations(range(n), w)),
                       dtype=np.int64)
        for start in range(0, len(idx), 200000):
            ch = idx[start:start+200000]
            syn = np.zeros((len(ch), HT.shape[1]), dtype=np.int64)
            lg = np.zeros((len(ch), TT.shape[1]), dtype=np.int64)
            for j in range(w):
                syn += HT[ch[:, j]]
                lg += TT[ch[:, j]]
            ok = np.all(syn % 2 == 0, axis=1) & np.any(lg % 2 == 1, axis=1)
            if ok.any():
                return w
    best = None
    for t in tests:
        val = milp_parity(Hother, t, n, lower=w)
        if val is not None and (best is None or val < best):
            best = val
    return best


def true_distance_css(Hx, Hz, n):
    # a Pauli of a CSS code is a non-trivial logical iff its X part or its Z
    # part is, and its weight is at least that of either part
    tz = coset_reps(Hz, gf2_nullspace(Hx))   # detect non-trivial X-type ops
    tx = coset_reps(Hx, gf2_nullspace(Hz))   # detect non-trivial Z-type ops
    dX = min_weight_css_side(Hz, tz, n)
    dZ = min_weight_css_side(Hx, tx, n)
    cands = [v for v in (dX, dZ) if v is not None]
    return (min(cands) if cands else None), len(tz)


def true_distance_generic(H, n, limit_enum=120_000):
    H = np.asarray(H, dtype=np.uint8) % 2
    Nn = gf2_nullspace(swap_xz(H, n))        # everything commuting with S
    T = coset_reps(H, Nn)                    # 2k representatives of N(S)/S
    if len(T) == 0:
        return None, 0
    HL = swap_xz(H, n).T.astype(np.int64)
    TL = swap_xz(T, n).T.astype(np.int64)
    total = 0
    w = 0
    while True:
        w += 1
        total += comb(n, w) * 3**w
        if total > limit_enum:
            break
        for support in itertools.combinations(range(n), w):
            sup = np.array(support)
            for paulis in itertools.product((1, 2, 3), repeat=w):
                p = np.array(paulis)
                cols = np.concatenate([sup[(p & 1) > 0], n + sup[(p & 2) > 0]])
                if (HL[cols].sum(axis=0) % 2).any():
                    continue
                if (TL[cols].sum(axis=0) % 2).any():
                    return w, len(T)//2
    best = None
    m = H.shape[0]
    HLs = csr_matrix(swap_xz(H, n).astype(float))
    Id = identity(n, format='csr')
    Zn = csr_matrix((n, n))
    Zs = csr_matrix((n, m+1))
    for t in swap_xz(T, n):
        nv = 3*n + m + 1                     # x, z, support, slacks
        A1 = hstack([HLs, csr_matrix((m, n)), -2*identity(m, format='csr'),
                     csr_matrix((m, 1))])
        A2 = hstack([csr_matrix(t.astype(float)[None, :]),
                     csr_matrix((1, n)), csr_matrix((1, m)),
                     csr_matrix(np.array([[-2.0]]))])
        rhs = np.concatenate([np.zeros(m), [1]])
        cons = [
            LinearConstraint(vstack([A1, A2]).tocsr(), rhs, rhs),
            LinearConstraint(hstack([-Id, Zn, Id, Zs]).tocsr(), 0, np.inf),
            LinearConstraint(hstack([Zn, -Id, Id, Zs]).tocsr(), 0, np.inf),
            LinearConstraint(
                hstack([csr_matrix((1, 2*n)), csr_matrix(np.ones((1, n))),
                        csr_matrix((1, m+1))]).tocsr(), w, np.inf),
        ]
        c = np.concatenate([np.zeros(2*n), np.ones(n), np.zeros(m+1)])
        ub = np.concatenate([np.ones(3*n), np.full(m+1, 2*n)])
        res = milp(c, constraints=cons, integrality=np.ones(nv),
                   bounds=Bounds(np.zeros(nv), ub))
        if res.status == 2:
            continue
        assert res.status == 0, res.message
        v = int(round(res.fun))
        if best is None or v < best:
            best = v
    return best, len(T)//2


def true_distance(code):
    n = code.n
    H = code.stabilizer_matrix.toarray() % 2
    hx, hz = H[:, :n], H[:, n:]
    xrows = hx.any(axis=1)
    zrows = hz.any(axis=1)
    if not np.any(xrows & zrows):
        return true_distance_css(hx[xrows], hz[zrows], n)
    return true_distance_generic(H, n)


def symp(a, b, n):
    a = np.asarray(a, dtype=np.int64)
    b = np.asarray(b, dtype=np.int64)
    return int((a[:n] @ b[n:] + a[n:] @ b[:n]) % 2)


# ------------------------------------------------------------- the inputs
# (class name, size, deformation or None)
INPUTS = []
for size in [(2, 2), (3, 3), (4, 4), (2, 3), (3, 2), (3, 4), (4, 2), (5, 3),
             (5, 5), (2, 6)]:
    INPUTS.append(('Toric2DCode', size, None))
    INPUTS.append(('Planar2DCode', size, None))
    INPUTS.append(('RotatedPlanar2DCode', size, None))
for cls in ['Toric2DCode', 'Planar2DCode', 'RotatedPlanar2DCode']:
    for size in [(2, 2), (3, 3), (2, 3), (3, 2), (4, 3)]:
        for deformation in ['XZZX', 'XY']:
            INPUTS.append((cls, size, deformation))
INPUTS.append(('Planar2DCode', (4, 4), 'XY'))
INPUTS.append(('Planar2DCode', (4, 4), 'XZZX'))
INPUTS.append(('RotatedPlanar2DCode', (4, 4), 'XY'))
INPUTS.append(('RotatedPlanar2DCode', (5, 4), 'XZZX'))
for cls in ['Toric3DCode', 'Planar3DCode', 'RotatedPlanar3DCode',
            'HollowPlanar3DCode', 'XCubeCode']:
    for size in [(2, 2, 2), (2, 3, 2), (3, 2, 2), (2, 2, 3), (3, 3, 2)]:
        INPUTS.append((cls, size, None))
INPUTS += [
    ('XCubeCode', (3, 3, 3), None),
    ('Toric3DCode', (3, 3, 3), None),
    ('Planar3DCode', (2, 2, 2), 'XZZX'),
    ('RotatedPlanar3DCode', (2, 2, 2), 'XZZX'),
    ('RotatedPlanar3DCode', (3, 2, 2), 'XZZX'),
    ('XCubeCode', (2, 2, 2), 'XZZX'),
    ('RhombicPlanarCode', (2, 2, 2), None),
    ('RhombicPlanarCode', (2, 2, 3), None),
    ('RhombicPlanarCode', (2, 3, 2), None),
    ('RhombicPlanarCode', (2, 2, 2), 'Checkerboard XZZX'),
    ('RhombicToricCode', (2, 2, 2), None),
    ('HollowRhombicCode', (2, 2, 3), None),
    ('RotatedToric3DCode', (2, 2, 2), None),
    ('RotatedToric3DCode', (2, 3, 2), None),
    ('RotatedToric3DCode', (2, 2, 3), None),
    ('Color488Code', (2, 2), None),
    ('Color488Code', (2, 3), None),
    ('Color488Code', (3, 2), None),
    ('Color488Code', (2, 2), 'XXZZ'),
    ('Color666PlanarCode', (2, 2), None),
    ('Color666PlanarCode', (3, 3), None),
    ('Color666ToricCode', (2, 2), None),
]


def build(cls_name, size, deformation):
    code = getattr(C, cls_name)(*size)
    if deformation is not None:
        code.deform(deformation)
    return code


def check_property():
    n_checked = 0
    t_start = time.time()
    for cls_name, size, deformation in INPUTS:
        tag = f'{cls_name}{size}' + (f'[{deformation}]' if deformation else '')
        t0 = time.time()
        code = build(cls_name, size, deformation)
        d = code.d
        td, k_indep = true_distance(code)
        n_checked += 1
        if td is None or int(d) != td:
            fail(f'{tag}: reported d={d}, true distance={td}')
            continue
        if not (d == td and td == d and int(d) == d):
            fail(f'{tag}: d={d!r} does not compare equal to the integer {td}')
        # d is stable under repeated use of the same object and equals the
        # value of a fresh object
        if code.d != d or build(cls_name, size, deformation).d != d:
            fail(f'{tag}: d not reproducible')
        # d is the value a JSON results file receives
        from panqec.utils import NumpyEncoder
        if json.loads(json.dumps({'d': d}, cls=NumpyEncoder))['d'] != td:
            fail(f'{tag}: d serialises to something else than {td}')
        # number of logical qubits agrees with the independent count
        if code.k != k_indep:
            print(f'  note: {tag}: k={code.k}, independent count {k_indep}')
        # witness: the library's own logical operators of weight d really
        # are non-trivial logical operators of the code
        n = code.n
        H = code.stabilizer_matrix.toarray() % 2
        logs = np.vstack([code.logicals_x, code.logicals_z])
        wts = ((logs[:, :n] != 0) | (logs[:, n:] != 0)).sum(axis=1)
        rank = gf2_rank(H)
        found = False
        for row, wt in zip(logs, wts):
            if wt != td:
                continue
            if any(symp(h, row, n) for h in H):
                continue
            if gf2_rank(np.vstack([H, row[None, :] % 2])) == rank:
                continue
            found = True
        if not found:
            fail(f'{tag}: no logical representative of weight d={td} that '
                 'commutes with the stabilizers and is non-trivial')
        # deforming an already used object: d of the deformed code must still
        # be the true distance (single-qubit Cliffords preserve weights)
        if deformation is None:
            for name in type(code).deformation_names:
                code2 = build(cls_name, size, None)
                _ = code2.d                       # fill the cache first
                code2.deform(name)
                if code2.d != td:
                    fail(f'{tag}: d={code2.d} after deform({name!r}) on a '
                         f'used object, expected {td}')
        print(f'  ok {tag}: n={code.n} k={code.k} d={int(d)} true={td} '
              f'({time.time()-t0:.1f}s)', flush=True)
    print(f'{n_checked} codes checked in {time.time()-t_start:.0f}s')


def check_results_files():
    """d in the simulation inputs / in a written results file."""
    from panqec.error_models import PauliErrorModel
    from panqec.decoders import MatchingDecoder, BeliefPropagationOSDDecoder
    from panqec.simulation import DirectSimulation
    from panqec.utils import save_json, load_json
    for cls_name, size, deformation, bias in [
        ('Toric2DCode', (3, 4), None, (1/3, 1/3, 1/3)),
        ('Toric2DCode', (4, 3), 'XZZX', (0.01, 0.01, 0.98)),
        ('Planar2DCode', (3, 5), None, (0.98, 0.01, 0.01)),
        ('Planar2DCode', (4, 3), 'XY', (0, 0, 1)),
        ('RotatedPlanar2DCode', (3, 3), None, (1, 0, 0)),
    ]:
        tag = f'{cls_name}{size}[{deformation}]'
        code = build(cls_name, size, deformation)
        td, _ = true_distance(build(cls_name, size, None))
        em = PauliErrorModel(*bias)
        if code.is_css:
            dec = MatchingDecoder(code, em, 0.05)
        else:
            dec = BeliefPropagationOSDDecoder(code, em, 0.05, max_bp_iter=20,
                                              osd_order=0)
        sim = DirectSimulation(code, em, dec, 0.05, compress=False,
                               verbose=False, rng=np.random.default_rng(5))
        sim.run(20)
        if sim._inputs['code']['d'] != td:
            fail(f"{tag}: simulation inputs carry d="
                 f"{sim._inputs['code']['d']}, true {td}")
        with tempfile.TemporaryDirectory() as tmp:
            path = os.path.join(tmp, 'res.json')
            save_json([sim.get_results_to_save()], path)
            back = load_json(path)
            d_file = back[0]['inputs']['code']['d']
            if d_file != td or isinstance(d_file, bool) \
                    or not isinstance(d_file, int):
                fail(f'{tag}: results file has d={d_file!r}, true {td}')
            if sim._find_current_simulation(back) == {}:
                fail(f'{tag}: saved simulation not found again by inputs')
        # decoding a minimum-weight logical operator's syndrome (= trivial
        # syndrome): the logical must be seen as a logical error
        for row in np.vstack([code.logicals_x, code.logicals_z]):
            if not code.in_codespace(row) or not code.is_logical_error(row):
                fail(f'{tag}: logical operator not recognised as such')
        print(f'  ok results file {tag}: d={d_file}')


# ---------------------------------------------------------------- digest
def digest():
    lines = []

    def op_str(code, row):
        op = code.from_bsf(np.asarray(row))
        return ' '.join(f'{loc}{p}' for loc, p in sorted(op.items()))

    for cls_name, size, deformation in [
        ('Toric2DCode', (3, 4), None), ('Toric2DCode', (2, 2), 'XZZX'),
        ('Toric2DCode', (4, 3), 'XY'),
        ('Planar2DCode', (3, 3), None), ('Planar2DCode', (4, 5), 'XZZX'),
        ('Planar2DCode', (5, 3), 'XY'),
        ('RotatedPlanar2DCode', (3, 3), None), ('Toric3DCode', (2, 2, 2), None),
        ('XCubeCode', (2, 2, 2), None), ('Color488Code', (2, 2), None),
    ]:
        code = build(cls_name, size, deformation)
        d = code.d
        lines.append(f'{cls_name}{size}[{deformation}] d={d} '
                     f'type(d)={type(d).__name__}')
        for i, row in enumerate(code.logicals_x):
            lines.append(f'  X{i}: {op_str(code, row)}')
        for i, row in enumerate(code.logicals_z):
            lines.append(f'  Z{i}: {op_str(code, row)}')
    for args in [(0,), (-2,), (3, 0), (2.0,), (3, '3'), (1,), (np.int64(3),)]:
        try:
            code = C.Toric2DCode(*args)
            lines.append(f'Toric2DCode{args!r}: n={code.n} d={code.d}')
        except Exception as err:
            lines.append(f'Toric2DCode{args!r}: {type(err).__name__}: {err}')
    for args in [(2, 2, 0), (2, 2, -1)]:
        try:
            code = C.Toric3DCode(*args)
            lines.append(f'Toric3DCode{args!r}: n={code.n} d={code.d}')
        except Exception as err:
            lines.append(f'Toric3DCode{args!r}: {type(err).__name__}: {err}')
    try:
        lines.append('plain json of d: ' + json.dumps(C.Planar2DCode(3).d))
    except Exception as err:
        lines.append(f'plain json of d: {type(err).__name__}: {err}')
    text = '\n'.join(lines)
    print(text)
    print('DIGEST', hashlib.sha256(text.encode()).hexdigest())


if __name__ == '__main__':
    check_property()
    check_results_files()
    digest()
    if FAILURES:
        print(f'{len(FAILURES)} property failure(s):')
        for f in FAILURES:
            print('  ', f)
        sys.exit(1)
    print('C17 holds on all inputs checked')
    sys.exit(0)
