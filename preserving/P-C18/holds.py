import os, sys; sys.path.insert(0, os.getcwd())
"""C18: error probabilities multiply per qubit and normalise.

(a) checks the property directly, exits 1 with a message when it fails
(b) prints a digest of concrete outputs of the functions under study
"""
import hashlib
import itertools
import math
import warnings

import numpy as np

warnings.filterwarnings('ignore')

from panqec.codes import (  # noqa: E402
    Toric2DCode, Planar2DCode, RotatedPlanar2DCode, Toric3DCode,
    RotatedPlanar3DCode, RhombicToricCode, XCubeCode, Color666PlanarCode,
    Planar3DCode,
)
from panqec.error_models import PauliErrorModel  # noqa: E402
from panqec.simulation import SplittingSimulation  # noqa: E402

FAILURES = []
DIGEST = []
N_CHECKS = [0]


def fail(msg):
    FAILURES.append(msg)
    print('PROPERTY VIOLATION:', msg)


def check(cond, msg):
    N_CHECKS[0] += 1
    if not cond:
        fail(msg)


def digest(line):
    DIGEST.append(line)


def close(a, b, rtol=1e-9, atol=1e-300):
    a = float(a)
    b = float(b)
    if a == b:
        return True
    if math.isinf(a) or math.isinf(b) or math.isnan(a) or math.isnan(b):
        return False
    return abs(a - b) <= atol + rtol * max(abs(a), abs(b))


# ---------------------------------------------------------------------------
# Independent reference of the channel: per qubit probabilities of I, X, Y, Z
# ---------------------------------------------------------------------------

def reference_channel(code, direction, name, kwargs, error_rate):
    """n x 4 array, columns I, X, Y, Z."""
    r_x, r_y, r_z = direction
    base = {'X': r_x * error_rate, 'Y': r_y * error_rate,
            'Z': r_z * error_rate}
    ref = np.zeros((code.n, 4))
    for i in range(code.n):
        if name is None:
            d = {'X': 'X', 'Y': 'Y', 'Z': 'Z'}
        else:
            d = code.get_deformation(code.qubit_coordinates[i], name,
                                     **kwargs)
        ref[i, 0] = 1 - error_rate
        for j, pauli in enumerate('XYZ'):
            ref[i, j + 1] = base[d[pauli]]
    return ref


def pauli_index(error, n):
    """0=I, 1=X, 2=Y, 3=Z per qubit."""
    x = np.asarray(error[:n]) != 0
    z = np.asarray(error[n:]) != 0
    return np.where(x & z, 2, np.where(x, 1, np.where(z, 3, 0)))


def reference_probability(ref, error):
    n = ref.shape[0]
    idx = pauli_index(error, n)
    prob = 1.0
    for i in range(n):
        prob *= ref[i, idx[i]]
    return prob


def reference_log_probability(ref, error):
    n = ref.shape[0]
    idx = pauli_index(error, n)
    vals = [ref[i, idx[i]] for i in range(n)]
    if any(v == 0 for v in vals):
        return -math.inf
    return math.fsum(math.log(v) for v in vals)


DIRECTIONS = [
    (1/3, 1/3, 1/3),
    (0.2, 0.3, 0.5),
    (0.05, 0.05, 0.9),
    (0.0, 1.0, 0.0),
    (1.0, 0.0, 0.0),
    (0.0, 0.0, 1.0),
    (0.5, 0.5, 0.0),
    (0.1, 0.2, 0.7),
    (0.0, 0.25, 0.75),
]
ERROR_RATES = [0.0, 1e-9, 0.013, 0.1, 0.25, 0.5, 0.77, 1.0]


def describe(code, direction, name, kwargs, error_rate):
    return (f'{type(code).__name__}{tuple(code.size)} r={direction} '
            f'deformation={name}{kwargs or ""} p={error_rate}')


# ---------------------------------------------------------------------------
# 1. small codes: all 4^n errors
# ---------------------------------------------------------------------------

def all_errors(n):
    for paulis in itertools.product(range(4), repeat=n):
        p = np.array(paulis)
        x = ((p == 1) | (p == 2)).astype('uint8')
        z = ((p == 3) | (p == 2)).astype('uint8')
        yield np.concatenate([x, z])


def check_small_codes():
    small = [
        (Toric2DCode, (1, 1)), (Toric2DCode, (1, 2)), (Toric2DCode, (2, 1)),
        (Toric2DCode, (1, 3)), (Toric2DCode, (3, 1)),
        (Planar2DCode, (1, 1)), (Planar2DCode, (1, 3)),
        (Planar2DCode, (2, 2)),
        (RotatedPlanar2DCode, (2, 2)), (RotatedPlanar2DCode, (1, 3)),
        (RotatedPlanar2DCode, (2, 3)), (RotatedPlanar2DCode, (3, 2)),
    ]
    for cls, size in small:
        code = cls(*size)
        assert code.n <= 6
        errors = list(all_errors(code.n))
        for k, direction in enumerate(DIRECTIONS):
            # not every combination, to keep the runtime reasonable
            if code.n == 6 and k % 3 != (size[0] % 3):
                continue
            for name in [None, 'XZZX', 'XY']:
                model = PauliErrorModel(*direction, deformation_name=name)
                for error_rate in ERROR_RATES:
                    if code.n >= 5 and error_rate in (1e-9, 0.25, 0.77):
                        continue
                    what = describe(code, direction, name, {}, error_rate)
                    ref = reference_channel(code, direction, name, {},
                                            error_rate)
                    total = 0.0
                    total_from_logs = 0.0
                    for error in errors:
                        prob = model.error_probability(error, code,
                                                       error_rate)
                        logp = model.error_probability(
                            error, code, error_rate, log_output=True)
                        expected = reference_probability(ref, error)
                        check(close(prob, expected),
                              f'{what}: P({error})={prob!r}, product over '
                              f'qubits is {expected!r}')
                        check(prob >= 0, f'{what}: negative probability')
                        if expected == 0:
                            check(logp == -math.inf,
                                  f'{what}: log P({error})={logp!r} but '
                                  f'P=0')
                        else:
                            check(close(logp, math.log(expected),
                                        rtol=1e-9, atol=1e-12),
                                  f'{what}: log P({error})={logp!r}, '
                                  f'log of product is '
                                  f'{math.log(expected)!r}')
                            check(close(math.exp(logp), prob, rtol=1e-9),
                                  f'{what}: exp(log form)={math.exp(logp)!r}'
                                  f' differs from P={prob!r}')
                        total += float(prob)
                        total_from_logs += math.exp(float(logp))
                    check(abs(total - 1) < 1e-9,
                          f'{what}: probabilities of all 4^{code.n} errors '
                          f'sum to {total!r}')
                    check(abs(total_from_logs - 1) < 1e-9,
                          f'{what}: exp(log P) of all 4^{code.n} errors '
                          f'sum to {total_from_logs!r}')


# ---------------------------------------------------------------------------
# 2. larger codes: channel and random errors
# ---------------------------------------------------------------------------

LARGE = [
    (Toric2DCode, (3, 4), [(None, {}), ('XZZX', {}), ('XY', {})]),
    (Planar2DCode, (2, 5), [(None, {}), ('XZZX', {}), ('XY', {})]),
    (RotatedPlanar2DCode, (3, 4), [(None, {}), ('XZZX', {}), ('XY', {})]),
    (Toric3DCode, (2, 3, 2), [(None, {}), ('XZZX', {})]),
    (Planar3DCode, (2, 2, 3), [(None, {}), ('XZZX', {})]),
    (RotatedPlanar3DCode, (2, 3, 2), [
        (None, {}), ('XZZX', {}),
        ('XZZX', {'deformation_axis': 'z'}),
        ('XZZX', {'deformation_axis': 'x'})]),
    (RhombicToricCode, (2, 2, 2), [(None, {}), ('Checkerboard XZZX', {})]),
    (XCubeCode, (2, 2, 2), [(None, {}), ('XZZX', {})]),
    (Color666PlanarCode, (2, 2), [(None, {})]),
]


def build(cls, size):
    return cls(*size)


def check_large_codes():
    rng = np.random.default_rng(12345)
    for cls, size, deformations in LARGE:
        code = build(cls, size)
        for name, kwargs in deformations:
            for direction in DIRECTIONS:
                try:
                    model = PauliErrorModel(*direction,
                                            deformation_name=name,
                                            deformation_kwargs=kwargs)
                    model.probability_distribution(code, 0.1)
                except TypeError:
                    # this code does not take these deformation kwargs
                    continue
                for error_rate in ERROR_RATES:
                    what = describe(code, direction, name, kwargs,
                                    error_rate)
                    ref = reference_channel(code, direction, name, kwargs,
                                            error_rate)
                    # repeated use of the same objects
                    for rep in range(2):
                        dist = model.probability_distribution(code,
                                                              error_rate)
                        check(len(dist) == 4, f'{what}: not 4 arrays')
                        pi, px, py, pz = [np.asarray(a, dtype=float)
                                          for a in dist]
                        got = np.stack([pi, px, py, pz], axis=1)
                        check(got.shape == (code.n, 4),
                              f'{what}: wrong shape {got.shape}')
                        check(np.allclose(got, ref, rtol=1e-12, atol=1e-15),
                              f'{what}: channel differs from reference')
                        check(np.allclose(got.sum(axis=1), 1, atol=1e-12),
                              f'{what}: channel does not sum to one on '
                              f'every qubit')
                        check(np.all(got >= 0), f'{what}: negative rate')

                    errors = [
                        np.zeros(2 * code.n, dtype='uint8'),
                        np.ones(2 * code.n, dtype='uint8'),
                        np.asarray(code.logicals_x[0]),
                        np.asarray(code.logicals_z[0]),
                    ]
                    for _ in range(4):
                        errors.append(
                            rng.integers(0, 2, 2 * code.n).astype('uint8'))
                    errors.append(
                        (rng.random(2 * code.n) < 0.1).astype(int))
                    errors.append(
                        (rng.random(2 * code.n) < 0.1).astype(float))
                    errors.append(rng.random(2 * code.n) < 0.2)
                    for error in errors:
                        prob = model.error_probability(error, code,
                                                       error_rate)
                        logp = model.error_probability(
                            error, code, error_rate, log_output=True)
                        expected = reference_probability(ref, error)
                        expected_log = reference_log_probability(ref, error)
                        check(close(prob, expected),
                              f'{what}: P={prob!r} expected {expected!r}')
                        if expected_log == -math.inf:
                            check(logp == -math.inf,
                                  f'{what}: log P={logp!r} expected -inf')
                        else:
                            check(close(logp, expected_log, rtol=1e-9,
                                        atol=1e-12),
                                  f'{what}: log P={logp!r} expected '
                                  f'{expected_log!r}')

                    # the probability factorises over a bipartition
                    error = rng.integers(0, 2, 2 * code.n).astype('uint8')
                    mask = rng.random(code.n) < 0.5
                    part_a = error * np.tile(mask, 2)
                    part_b = error * np.tile(~mask, 2)
                    identity = np.zeros(2 * code.n, dtype='uint8')
                    p_ab = model.error_probability(error, code, error_rate)
                    p_a = model.error_probability(part_a, code, error_rate)
                    p_b = model.error_probability(part_b, code, error_rate)
                    p_0 = model.error_probability(identity, code,
                                                  error_rate)
                    check(close(p_ab * p_0, p_a * p_b),
                          f'{what}: P(ab)P(1) != P(a)P(b) on disjoint '
                          f'supports')


# ---------------------------------------------------------------------------
# 3. consistency with the sampling distribution
# ---------------------------------------------------------------------------

def tolerance(n_samples, p):
    return 6 * math.sqrt(max(p * (1 - p), 0) / n_samples) + 1e-12


def check_sampling():
    n_samples = 3000
    configs = [
        (Toric2DCode, (2, 3), None, {}, (0.2, 0.3, 0.5), 0.3),
        (Toric2DCode, (2, 3), 'XZZX', {}, (0.05, 0.05, 0.9), 0.4),
        (Toric2DCode, (3, 2), 'XY', {}, (0.1, 0.2, 0.7), 0.25),
        (RotatedPlanar2DCode, (3, 4), 'XZZX', {}, (0.0, 0.25, 0.75), 0.5),
        (Planar2DCode, (2, 3), 'XY', {}, (0.5, 0.5, 0.0), 0.6),
        (RotatedPlanar3DCode, (2, 3, 2), 'XZZX', {'deformation_axis': 'z'},
         (0.05, 0.05, 0.9), 0.2),
        (RhombicToricCode, (2, 2, 2), 'Checkerboard XZZX', {},
         (0.2, 0.1, 0.7), 0.3),
        (Toric2DCode, (2, 2), 'XZZX', {}, (0.1, 0.2, 0.7), 1.0),
        (Toric2DCode, (2, 2), None, {}, (0.0, 1.0, 0.0), 0.35),
        (Toric2DCode, (2, 2), 'XY', {}, (0.0, 1.0, 0.0), 1.0),
        (Toric2DCode, (2, 2), 'XY', {}, (1/3, 1/3, 1/3), 0.0),
    ]
    for k, (cls, size, name, kwargs, direction, error_rate) in \
            enumerate(configs):
        code = build(cls, size)
        model = PauliErrorModel(*direction, deformation_name=name,
                                deformation_kwargs=kwargs)
        what = describe(code, direction, name, kwargs, error_rate)
        ref = reference_channel(code, direction, name, kwargs, error_rate)
        rng = np.random.default_rng(1000 + k)
        counts = np.zeros((code.n, 4))
        for s in range(n_samples):
            error = np.asarray(model.generate(code, error_rate, rng=rng))
            check(error.shape == (2 * code.n,),
                  f'{what}: sample of shape {error.shape}')
            check(set(np.unique(error)) <= {0, 1},
                  f'{what}: sample is not binary')
            idx = pauli_index(error, code.n)
            counts[np.arange(code.n), idx] += 1
            if s < 20:
                prob = model.error_probability(error, code, error_rate)
                check(prob > 0, f'{what}: sampled an error of probability '
                                f'{prob!r}')
        freq = counts / n_samples
        for i in range(code.n):
            for j in range(4):
                p = ref[i, j]
                if p == 0:
                    check(counts[i, j] == 0,
                          f'{what}: qubit {i} drew Pauli {"IXYZ"[j]} of '
                          f'probability zero')
                else:
                    check(abs(freq[i, j] - p) <= tolerance(n_samples, p),
                          f'{what}: qubit {i} Pauli {"IXYZ"[j]} frequency '
                          f'{freq[i, j]} vs probability {p}')

    # joint distribution on a 2-qubit code: all 16 errors
    code = Toric2DCode(1, 1)
    for k, (name, direction, error_rate) in enumerate([
        (None, (0.2, 0.3, 0.5), 0.4),
        ('XZZX', (0.05, 0.15, 0.8), 0.5),
        ('XY', (0.1, 0.2, 0.7), 0.6),
    ]):
        model = PauliErrorModel(*direction, deformation_name=name)
        what = describe(code, direction, name, {}, error_rate)
        n_joint = 12000
        seen = {}
        for source in ['generator', 'module', 'none']:
            if source == 'generator':
                rng = np.random.default_rng(77 + k)
            elif source == 'module':
                np.random.seed(78 + k)
                rng = np.random
            else:
                rng = None
            for _ in range(n_joint // 3):
                error = np.asarray(model.generate(code, error_rate, rng=rng))
                key = tuple(int(v) for v in error)
                seen[key] = seen.get(key, 0) + 1
        total = 0.0
        for error in all_errors(code.n):
            key = tuple(int(v) for v in error)
            p = float(model.error_probability(error, code, error_rate))
            total += p
            f = seen.get(key, 0) / n_joint
            check(abs(f - p) <= tolerance(n_joint, p),
                  f'{what}: joint frequency of {key} is {f}, '
                  f'error_probability says {p}')
        check(abs(total - 1) < 1e-9, f'{what}: joint does not sum to 1')


# ---------------------------------------------------------------------------
# 4. Metropolis step of the splitting method
# ---------------------------------------------------------------------------

class NoCorrectionDecoder:
    """Decoder stub: never corrects anything."""
    label = 'No correction'
    id = 'NoCorrectionDecoder'
    params: dict = {}

    def __init__(self, code):
        self.code = code

    def decode(self, syndrome, **kwargs):
        return np.zeros(2 * self.code.n, dtype='uint8')


def check_metropolis():
    configs = [
        (Toric2DCode, (2, 3), 'XZZX', {}, (0.05, 0.05, 0.9), 0.2),
        (Toric2DCode, (2, 2), 'XY', {}, (0.2, 0.3, 0.5), 0.08),
        (RotatedPlanar2DCode, (3, 3), None, {}, (0.5, 0.5, 0.0), 0.3),
        (Planar2DCode, (2, 3), 'XZZX', {}, (0.1, 0.2, 0.7), 0.6),
    ]
    n_steps = 4000
    for k, (cls, size, name, kwargs, direction, error_rate) in \
            enumerate(configs):
        code = build(cls, size)
        n = code.n
        model = PauliErrorModel(*direction, deformation_name=name,
                                deformation_kwargs=kwargs)
        what = 'Metropolis ' + describe(code, direction, name, kwargs,
                                        error_rate)
        decoder = NoCorrectionDecoder(code)
        sim = SplittingSimulation(
            code, model, [decoder, decoder], [error_rate, error_rate / 2],
            n_init_runs=10, verbose=False
        )
        ref = reference_channel(code, direction, name, kwargs, error_rate)

        # a previous error of nonzero probability
        rng = np.random.default_rng(500 + k)
        previous = np.asarray(
            model.generate(code, 0.5, rng=rng)).astype('uint8')
        if not np.any(previous):
            previous = np.asarray(code.logicals_x[0]).astype('uint8')
        p_prev = reference_probability(ref, previous)
        assert p_prev > 0
        log_prev = reference_log_probability(ref, previous)

        # exact transition probabilities with true likelihood ratios
        expected = {}
        for i in range(n):
            paulis = [j for j in (1, 2, 3) if ref[i, j] != 0]
            for j in paulis:
                edge = np.zeros(2 * n, dtype='uint8')
                if j in (1, 2):
                    edge[i] = 1
                if j in (3, 2):
                    edge[n + i] = 1
                new = (previous + edge) % 2
                p_new = reference_probability(ref, new)
                accept = min(1.0, p_new / p_prev)
                fails = bool(code.is_logical_error(new)
                             or not code.in_codespace(new))
                key = tuple(int(v) for v in new)
                expected[key] = expected.get(key, 0.0) + (
                    (1 / n) * (1 / len(paulis)) * accept * (1 if fails
                                                            else 0))
        p_stay = 1 - sum(expected.values())

        np.random.seed(900 + k)
        moves = {}
        stays = 0
        prev_copy = previous.copy()
        for _ in range(n_steps):
            nxt, logp = sim.get_next_error(decoder, error_rate, previous)
            nxt = np.asarray(nxt)
            check(np.array_equal(previous, prev_copy),
                  f'{what}: previous error modified in place')
            key = tuple(int(v) for v in nxt)
            if np.array_equal(nxt % 2, previous):
                stays += 1
                check(close(logp, log_prev, rtol=1e-9, atol=1e-12),
                      f'{what}: log P of kept error {logp!r} vs '
                      f'{log_prev!r}')
            else:
                check(key in expected and expected[key] > 0,
                      f'{what}: moved to an error that is not an allowed '
                      f'proposal')
                moves[key] = moves.get(key, 0) + 1
                want = reference_log_probability(ref, nxt)
                check(close(logp, want, rtol=1e-9, atol=1e-12),
                      f'{what}: log P of new error {logp!r} vs {want!r}')
        f_stay = stays / n_steps
        check(abs(f_stay - p_stay) <= tolerance(n_steps, p_stay),
              f'{what}: stays with frequency {f_stay}, true likelihood '
              f'ratios give {p_stay}')
        for key, p in expected.items():
            f = moves.get(key, 0) / n_steps
            check(abs(f - p) <= tolerance(n_steps, p),
                  f'{what}: transition frequency {f} vs {p} from true '
                  f'likelihood ratio')

        # a short chain through the public entry point
        np.random.seed(950 + k)
        sim._run(15)
        for i_p, rate in enumerate(sim.error_rates):
            logs = sim._results['log_p_errors'][i_p]
            check(len(logs) == 15, f'{what}: chain length {len(logs)}')
            ref_rate = reference_channel(code, direction, name, kwargs,
                                         rate)
            want = reference_log_probability(ref_rate,
                                             sim.current_error[i_p])
            check(close(logs[-1], want, rtol=1e-9, atol=1e-12),
                  f'{what}: chain log P {logs[-1]!r} vs {want!r}')
            current = sim.current_error[i_p]
            check(bool(code.is_logical_error(current)
                       or not code.in_codespace(current)),
                  f'{what}: chain left the failing set')


# ---------------------------------------------------------------------------
# (b) digest of concrete outputs
# ---------------------------------------------------------------------------

def hexdigest(array):
    array = np.ascontiguousarray(np.asarray(array))
    return hashlib.sha256(array.tobytes()).hexdigest()[:16]


def make_digest():
    code = Toric2DCode(3, 4)
    code3 = RotatedPlanar3DCode(2, 3, 2)
    model = PauliErrorModel(0.2, 0.3, 0.5, deformation_name='XZZX')
    model_xy = PauliErrorModel(0.1, 0.2, 0.7, deformation_name='XY')
    model3 = PauliErrorModel(0.05, 0.05, 0.9, deformation_name='XZZX',
                             deformation_kwargs={'deformation_axis': 'z'})

    # probability_distribution
    for label, m, c in [('xzzx', model, code), ('xy', model_xy, code),
                        ('3d', model3, code3)]:
        dist = m.probability_distribution(c, 0.1)
        digest(f'distribution {label}: '
               + ' '.join(hexdigest(np.round(a, 12)) for a in dist)
               + ' writeable=' + str([bool(np.asarray(a).flags.writeable)
                                      for a in dist])
               + ' same_object_on_reuse='
               + str(m.probability_distribution(c, 0.1)[0] is dist[0]))

    # generate with fixed seeds
    for label, m, c, p in [('xzzx', model, code, 0.3),
                           ('xy', model_xy, code, 0.3),
                           ('3d', model3, code3, 0.45)]:
        rng = np.random.default_rng(2024)
        samples = [np.asarray(m.generate(c, p, rng=rng)) for _ in range(5)]
        digest(f'generate {label} seed 2024: '
               + ''.join(str(int(v)) for v in samples[0]) + ' '
               + hexdigest(np.concatenate(samples)) + ' dtype='
               + str(samples[0].dtype))
        np.random.seed(7)
        digest(f'generate {label} np.random seed 7: '
               + hexdigest(m.generate(c, p, rng=np.random)))

    # error_probability, plain and log form
    rng = np.random.default_rng(99)
    plain = []
    logs = []
    for _ in range(200):
        error = rng.integers(0, 2, 2 * code.n).astype('uint8')
        for m in (model, model_xy):
            plain.append(float(m.error_probability(error, code, 0.137)))
            logs.append(float(m.error_probability(error, code, 0.137,
                                                  log_output=True)))
    digest('error_probability plain: ' + hexdigest(np.array(plain))
           + ' first=' + repr(plain[0]))
    digest('error_probability log: ' + hexdigest(np.array(logs))
           + ' first=' + repr(logs[0]))
    value = model.error_probability(
        np.zeros(2 * code.n, dtype='uint8'), code, 0.1, log_output=True)
    digest('error_probability return type: ' + type(value).__name__)

    # inputs that were never valid
    for bad in [np.zeros(2 * code.n + 1, dtype='uint8'),
                np.zeros(code.n, dtype='uint8'),
                np.zeros((1, 2 * code.n), dtype='uint8')]:
        try:
            out = model.error_probability(bad, code, 0.1)
            digest(f'error_probability shape {bad.shape}: returned '
                   f'{out!r}')
        except Exception as exc:
            digest(f'error_probability shape {bad.shape}: '
                   f'{type(exc).__name__}: {exc}')

    # Metropolis chain with the global seed
    small = Toric2DCode(2, 3)
    chain_model = PauliErrorModel(0.05, 0.05, 0.9, deformation_name='XZZX')
    decoder = NoCorrectionDecoder(small)
    sim = SplittingSimulation(small, chain_model, [decoder, decoder],
                              [0.2, 0.1], n_init_runs=10, verbose=False)
    np.random.seed(31337)
    sim._run(40)
    digest('splitting chain errors: '
           + ' '.join(hexdigest(e) for e in sim.current_error))
    digest('splitting chain log_p: '
           + hexdigest(np.array(sim._results['log_p_errors'], dtype=float))
           + ' last=' + repr([float(v[-1]) for v in
                              sim._results['log_p_errors']]))
    digest('global rng state after chain: '
           + hexdigest(np.random.get_state()[1])
           + ' pos=' + str(np.random.get_state()[2]))


def main():
    check_small_codes()
    check_large_codes()
    check_sampling()
    check_metropolis()
    make_digest()

    print(f'checks evaluated: {N_CHECKS[0]}')
    print('---- digest ----')
    for line in DIGEST:
        print(line)
    print('DIGEST', hashlib.sha256(
        '\n'.join(DIGEST).encode()).hexdigest())

    if FAILURES:
        print(f'C18 FAILS: {len(FAILURES)} violation(s); first: '
              f'{FAILURES[0]}')
        sys.exit(1)
    print('C18 holds')
    sys.exit(0)


if __name__ == '__main__':
    main()
