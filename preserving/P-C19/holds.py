import os, sys; sys.path.insert(0, os.getcwd())
"""C19: generated input files cover exactly the requested parameter grid.

(a) checks the property on a varied set of generate-input invocations, by
    reading the generated files back through the simulator
    (read_input_json) and comparing the simulations with an independently
    computed grid (exact decimal/fraction arithmetic);
(b) prints a digest of concrete outputs of the changed functions.

Exits 1 with a message if the property fails.
"""
import glob
import hashlib
import io
import json
import contextlib
import itertools
import shutil
import tempfile
from collections import Counter
from decimal import Decimal
from fractions import Fraction

import numpy as np
from click.testing import CliRunner

from panqec.cli import cli, read_range_input, read_bias_ratios
from panqec.utils import get_direction_from_bias_ratio
from panqec.simulation import read_input_json, expand_input_ranges
from panqec.config import CODES

TOL = 1e-9
FAILURES = []


def fail(msg):
    FAILURES.append(msg)
    print('PROPERTY FAILURE:', msg)


# ---------------------------------------------------------------- expectation

def expected_rates(spec):
    """Independent (exact rational) model of the probability spec."""
    if ':' in spec:
        parts = spec.split(':')
        lo = Fraction(Decimal(parts[0]))
        hi = Fraction(Decimal(parts[1]))
        step = Fraction(Decimal(parts[2])) if len(parts) == 3 \
            else Fraction(5, 1000)
        out = []
        i = 0
        while lo + i * step <= hi:
            out.append(lo + i * step)
            i += 1
        return out, hi
    if ',' in spec:
        vals = [Fraction(Decimal(s)) for s in spec.split(',')]
    else:
        vals = [Fraction(Decimal(spec))]
    return vals, max(vals)


def expected_sizes(sizes, dim):
    out = []
    for s in sizes.split(','):
        L = [int(x) for x in s.split('x')]
        if len(L) == 1:
            L = L * dim
        out.append(tuple(L[:dim]))
    return out


def expected_etas(eta):
    return [np.inf if s.strip() == 'inf' else float(s) for s in eta.split(',')]


def expected_direction(bias, eta):
    if eta == np.inf:
        rb, ro = 1.0, 0.0
    else:
        rb = float(Fraction(eta) / (1 + Fraction(eta)))
        ro = float(1 / (2 * (1 + Fraction(eta))))
    d = {'X': ro, 'Y': ro, 'Z': ro}
    d[bias] = rb
    return (d['X'], d['Y'], d['Z'])


def close(a, b):
    return abs(float(a) - float(b)) <= TOL


# --------------------------------------------------------------- range checks

def check_range(spec):
    values = read_range_input(spec)
    exp, hi = expected_rates(spec)
    if len(values) != len(exp):
        fail(f'range {spec}: {len(values)} values, expected {len(exp)}')
        return values
    for v, e in zip(values, exp):
        if not isinstance(v, float):
            fail(f'range {spec}: value {v!r} is not a float')
        if not close(v, e):
            fail(f'range {spec}: value {v!r} differs from {float(e)!r}')
    if ':' in spec:
        if any(v > float(hi) for v in values):
            fail(f'range {spec}: a value exceeds max {float(hi)}: {values}')
        for a, b in zip(values, values[1:]):
            if not b > a:
                fail(f'range {spec}: not increasing: {values}')
        # inclusive max when max is on the grid
        lo = Fraction(Decimal(spec.split(":")[0]))
        parts = spec.split(':')
        step = Fraction(Decimal(parts[2])) if len(parts) == 3 \
            else Fraction(5, 1000)
        if hi >= lo and (hi - lo) % step == 0:
            if not values or not close(values[-1], hi):
                fail(f'range {spec}: max {float(hi)} not included: {values}')
    return values


RANGE_SPECS = [
    '0:0.6:0.005', '0:0.5:0.005', '0:0.6', '0.1:0.2', '0:0.3:0.1',
    '0.1:0.45:0.1', '0.05:0.5:0.05', '0.001:0.01:0.003', '0.2:0.2:0.1',
    '0.01:0.1:0.01', '0.02:0.3:0.02', '0.1:0.7:0.3', '0.005:0.05:0.0025',
    '0.3:0.31:0.001', '1e-3:1e-2:1e-3', '0.07:0.49:0.07', '0.15:0.95:0.2',
    '0.0:1.0:0.125', '0.33:0.34:0.1', '0.12:0.5:0.19',
    '0.1,0.2,0.3', '0.3,0.1', '13.21', '1e-2', '0', '0.5',
]


def check_all_ranges():
    digest = {}
    for spec in RANGE_SPECS:
        digest[spec] = check_range(spec)
    # systematic decimal grids: min = a/1000, step = s/1000, n steps,
    # max on grid or between grid points
    n_checked = 0
    for a in [0, 1, 5, 10, 37, 100, 250]:
        for s in [1, 2, 3, 5, 7, 10, 25, 50, 100, 125]:
            for n in [0, 1, 2, 3, 7, 10, 33]:
                for off in [0, 1]:
                    if off and s < 2:
                        continue
                    hi = a + n * s + (s // 2 if off else 0)
                    spec = f'{Decimal(a) / 1000}:{Decimal(hi) / 1000}' \
                           f':{Decimal(s) / 1000}'
                    vals = check_range(spec)
                    if len(vals) != n + 1:
                        fail(f'range {spec}: expected {n + 1} values')
                    n_checked += 1
    return digest, n_checked


# ----------------------------------------------------------- direction checks

def check_directions():
    digest = {}
    etas = [0, 0.5, 1, 2, 3, 7.5, 10, 30, 100, 300, 1000, 12345.678,
            10 ** 6, np.inf]
    for pauli, eta in itertools.product('XYZ', etas):
        d = get_direction_from_bias_ratio(pauli, eta)
        if set(d) != {'r_x', 'r_y', 'r_z'}:
            fail(f'direction {pauli},{eta}: keys {sorted(d)}')
            continue
        got = (d['r_x'], d['r_y'], d['r_z'])
        exp = expected_direction(pauli, eta)
        if not all(close(g, e) for g, e in zip(got, exp)):
            fail(f'direction {pauli},{eta}: {got} != {exp}')
        if not close(sum(got), 1):
            fail(f'direction {pauli},{eta}: does not sum to 1: {got}')
        if any(g < 0 for g in got):
            fail(f'direction {pauli},{eta}: negative component {got}')
        digest[f'{pauli},{eta}'] = got
    return digest


# ------------------------------------------------------------- CLI grid check

def run_generate(data_dir, **opts):
    args = ['generate-input', '-d', data_dir]
    for k, v in opts.items():
        if v is None:
            continue
        args += [('-' if len(k) == 1 else '--') + k, str(v)]
    result = CliRunner().invoke(cli, args)
    if result.exit_code != 0:
        fail(f'generate-input {opts} exited {result.exit_code}: '
             f'{result.output!r} {result.exception!r}')
    return result


def read_back(path, out_dir):
    with contextlib.redirect_stdout(io.StringIO()):
        return read_input_json(path, os.path.join(out_dir, 'results.json'),
                               )


def sim_key(sim):
    return (
        type(sim.code).__name__,
        tuple(int(x) for x in sim.code.size),
        round(float(sim.error_rate), 9),
        tuple(round(float(r), 9) for r in sim.error_model.direction),
    )


def check_case(name, dim, sizes, bias, eta, prob, code_class,
               decoder_class='MatchingDecoder', deformation_name=None,
               label=None, noise_class='PauliErrorModel', method='direct',
               read_with_simulator=True, data_dir=None):
    own_dir = data_dir is None
    if own_dir:
        data_dir = tempfile.mkdtemp(prefix='c19_')
    digest = {}
    try:
        run_generate(
            data_dir, s=sizes, bias=bias, eta=eta, prob=prob,
            code_class=code_class, decoder_class=decoder_class,
            deformation_name=deformation_name, l=label,
            noise_class=noise_class, m=method,
        )
        etas = expected_etas(eta)
        files = sorted(glob.glob(os.path.join(data_dir, 'inputs', '*')))
        if len(files) != len(etas):
            fail(f'{name}: {len(files)} files for {len(etas)} bias ratios: '
                 f'{[os.path.basename(f) for f in files]}')
        if any(not f.endswith('.json') for f in files):
            fail(f'{name}: stray files {files}')
        rates, _ = expected_rates(prob)
        sizes_exp = expected_sizes(sizes, dim)
        exp_label = label if label is not None else 'experiment'

        unmatched = list(etas)
        for path in files:
            with open(path) as f:
                raw = f.read()
            data = json.loads(raw)
            ranges = data['ranges']
            # ---- specification-level checks
            if ranges['label'] != exp_label:
                fail(f'{name}: label {ranges["label"]!r}')
            if ranges['code']['name'] != code_class:
                fail(f'{name}: code name {ranges["code"]["name"]!r}')
            if ranges['decoder']['name'] != decoder_class:
                fail(f'{name}: decoder name {ranges["decoder"]["name"]!r}')
            if ranges['error_model']['name'] != noise_class:
                fail(f'{name}: noise name')
            if ranges['method']['name'] != method:
                fail(f'{name}: method {ranges["method"]!r}')
            np_ = ranges['error_model']['parameters']
            if np_.get('deformation_name') != deformation_name:
                fail(f'{name}: deformation {np_.get("deformation_name")!r}')
            direction = (np_['r_x'], np_['r_y'], np_['r_z'])
            if not close(sum(direction), 1):
                fail(f'{name}: direction {direction} does not sum to 1')
            # which bias ratio is this file for?
            found = None
            for e in unmatched:
                if all(close(g, x) for g, x in
                       zip(direction, expected_direction(bias, e))):
                    found = e
                    break
            if found is None:
                fail(f'{name}: {os.path.basename(path)} direction '
                     f'{direction} matches no remaining bias ratio '
                     f'{unmatched}')
                continue
            unmatched.remove(found)
            exp_dir = expected_direction(bias, found)

            # ---- expanded runs (as counted by the simulator)
            runs = expand_input_ranges(json.loads(raw)['ranges'])
            run_keys = Counter(
                (tuple(r['code']['parameters'][k]
                       for k in ['L_x', 'L_y', 'L_z'][:dim]),
                 round(r['error_rate'], 9))
                for r in runs
            )
            exp_run_keys = Counter(
                (s, round(float(p), 9))
                for s in sizes_exp for p in rates
            )
            if run_keys != exp_run_keys:
                fail(f'{name}: expanded runs differ from requested grid: '
                     f'{sorted(run_keys.items())[:5]}...')

            # ---- read back by the simulator
            if read_with_simulator:
                batch = read_back(path, data_dir)
                sims = list(batch._simulations)
                got = Counter(sim_key(s) for s in sims)
                exp = Counter(
                    (code_class, s, round(float(p), 9),
                     tuple(round(x, 9) for x in exp_dir))
                    for s in sizes_exp for p in rates
                )
                if got != exp:
                    fail(f'{name}: {os.path.basename(path)}: simulations '
                         f'differ from the requested grid\n  extra: '
                         f'{sorted((got - exp).items())[:6]}\n  missing: '
                         f'{sorted((exp - got).items())[:6]}')
                if len(sims) != len(sizes_exp) * len(rates):
                    fail(f'{name}: {len(sims)} simulations')
                hi = float(expected_rates(prob)[1])
                for s in sims:
                    if s.error_rate > hi:
                        fail(f'{name}: error rate {s.error_rate} > {hi}')
                    if type(s.decoder).__name__ != decoder_class:
                        fail(f'{name}: decoder {type(s.decoder).__name__}')
                    dn = getattr(s.error_model, '_deformation_name', None)
                    if dn != deformation_name:
                        fail(f'{name}: deformation read back {dn!r}')
                    if not close(sum(s.error_model.direction), 1):
                        fail(f'{name}: direction read back not normalised')
                if batch.label != exp_label:
                    fail(f'{name}: batch label {batch.label!r}')
                digest[os.path.basename(path)] = {
                    'sha': hashlib.sha256(raw.encode()).hexdigest()[:16],
                    'sim_order': [
                        [list(map(int, s.code.size)), repr(s.error_rate)]
                        for s in sims[:6]
                    ],
                    'direction': [repr(x) for x in direction],
                }
            else:
                digest[os.path.basename(path)] = {
                    'sha': hashlib.sha256(raw.encode()).hexdigest()[:16],
                    'direction': [repr(x) for x in direction],
                }
        if unmatched:
            fail(f'{name}: no specification for bias ratios {unmatched}')
    finally:
        if own_dir:
            shutil.rmtree(data_dir, ignore_errors=True)
    return digest


def main():
    digest = {}

    digest['ranges'], n_ranges = check_all_ranges()
    digest['directions'] = check_directions()

    cases = [
        dict(name='toric2d-xzzx', dim=2, sizes='3x4,5', bias='X',
             eta='0.5,10,inf', prob='0:0.3:0.1', code_class='Toric2DCode',
             deformation_name='XZZX'),
        dict(name='toric2d-xy', dim=2, sizes='4x3,6x4,5x5', bias='Y',
             eta='1,3,30,100', prob='0.05:0.5:0.05',
             code_class='Toric2DCode', deformation_name='XY',
             label='myrun'),
        dict(name='planar2d-single', dim=2, sizes='3x3,5x4', bias='Z',
             eta='inf', prob='0.07', code_class='Planar2DCode',
             deformation_name='XY'),
        dict(name='rotplanar2d-list', dim=2, sizes='3x5,5x3,7', bias='Z',
             eta='0.5', prob='0.3,0.1,0.2',
             code_class='RotatedPlanar2DCode', label='lst',
             decoder_class='BeliefPropagationOSDDecoder'),
        dict(name='toric2d-default-range', dim=2, sizes='3x3', bias='Z',
             eta='2.5,inf', prob='0:0.6:0.005', code_class='Toric2DCode',
             decoder_class='BeliefPropagationOSDDecoder'),
        dict(name='toric3d', dim=3, sizes='3x3x3,2x3x4', bias='Z',
             eta='10,1000,inf', prob='0.001:0.01:0.003',
             code_class='Toric3DCode', deformation_name='XZZX',
             decoder_class='BeliefPropagationOSDDecoder'),
        dict(name='planar3d', dim=3, sizes='2x3x2,3', bias='X',
             eta='7.5,1', prob='0.1:0.45:0.1', code_class='Planar3DCode',
             decoder_class='SweepMatchDecoder'),
        dict(name='xcube', dim=3, sizes='3x3x3', bias='Y',
             eta='3', prob='0.2:0.2:0.1', code_class='XCubeCode',
             deformation_name='XZZX', decoder_class='UnionFindDecoder',
             label='xc'),
        dict(name='splitting-spec', dim=2, sizes='3x3,5x5', bias='Z',
             eta='1,inf', prob='0.01:0.05:0.01', code_class='Toric2DCode',
             method='splitting', read_with_simulator=False),
    ]
    digest['cases'] = {}
    for case in cases:
        digest['cases'][case['name']] = check_case(**case)

    # repeated use of the same data directory: regenerate with another grid,
    # the files must be replaced and nothing else may be left behind.
    shared = tempfile.mkdtemp(prefix='c19_shared_')
    try:
        check_case(name='reuse-1', dim=2, sizes='3x3,5x5,7x7', bias='Z',
                   eta='0.5,3', prob='0:0.2:0.05',
                   code_class='Toric2DCode', data_dir=shared)
        digest['cases']['reuse-2'] = check_case(
            name='reuse-2', dim=2, sizes='4x6', bias='Z',
            eta='0.5,3', prob='0.1:0.3:0.1',
            code_class='Toric2DCode', data_dir=shared)
    finally:
        shutil.rmtree(shared, ignore_errors=True)

    # bias ratio parsing
    etas = read_bias_ratios('0.5,1,3,10,30,100,inf')
    if etas != [0.5, 1, 3, 10, 30, 100, np.inf]:
        fail(f'bias ratios {etas}')

    blob = json.dumps(digest, sort_keys=True, default=repr)
    print('systematic range specs checked:', n_ranges)
    print('range 0:0.3:0.1 ->', digest['ranges']['0:0.3:0.1'])
    print('range 0.1:0.45:0.1 ->', digest['ranges']['0.1:0.45:0.1'])
    print('direction X,0.5 ->', digest['directions']['X,0.5'])
    print('direction Z,10 ->', digest['directions']['Z,10'])
    first = digest['cases']['toric2d-xzzx']
    for fname in sorted(first):
        print('toric2d-xzzx', fname, json.dumps(first[fname]))
    print('DIGEST', hashlib.sha256(blob.encode()).hexdigest())

    if FAILURES:
        print(f'{len(FAILURES)} property failure(s)')
        sys.exit(1)
    print('C19 holds on all checked inputs')
    sys.exit(0)


if __name__ == '__main__':
    main()
