import os, sys; sys.path.insert(0, os.getcwd())
"""C20: the visualizer backend serves every offered choice with faithful data.

(a) checks the property through the Flask test client against the library and
    against references computed independently in this script;
(b) prints a digest of concrete outputs of the functions that were changed.

Exit status 0: property holds on all inputs tried. Exit status 1: violated.
"""
import collections
import contextlib
import hashlib
import io
import json
import math
import warnings

import numpy as np

warnings.filterwarnings('ignore')

import panqec  # noqa: E402
from panqec.gui import GUI  # noqa: E402
from panqec.gui import _gui as gui_module  # noqa: E402
from panqec.error_models import PauliErrorModel  # noqa: E402

FAILURES = []
SKIPPED = collections.Counter()
COUNTS = {'code-data': 0, 'unsupported': 0, 'decode': 0, 'decode-skipped': 0,
          'new-errors': 0}


def fail(msg):
    FAILURES.append(msg)
    print('PROPERTY VIOLATED:', msg)
    if len(FAILURES) >= 20:
        finish()


def finish():
    if FAILURES:
        print(f'{len(FAILURES)} violation(s) of C20')
        sys.exit(1)


# --------------------------------------------------------------------------
# Deterministic stand-in for unseeded generators, so that a request to the
# backend and a direct call to the library consume identical random streams
# --------------------------------------------------------------------------
_original_default_rng = np.random.default_rng
_rng_state = {'counter': 0}


def _seeded_default_rng(seed=None, *args, **kwargs):
    if seed is None:
        _rng_state['counter'] += 1
        seed = 1000003 * _rng_state['counter'] + 17
    return _original_default_rng(seed, *args, **kwargs)


np.random.default_rng = _seeded_default_rng


def reset_randomness(tag):
    import random
    _rng_state['counter'] = tag
    np.random.seed(tag)
    random.seed(tag)


# --------------------------------------------------------------------------
CONFIG_PATH = os.path.join(os.path.dirname(panqec.__file__), 'codes',
                           'gui-config.json')
with open(CONFIG_PATH) as f:
    CONFIG = json.load(f)

gui = GUI()
gui.app.logger.disabled = True
client = gui.app.test_client()

CODES = dict(gui_module.codes)
DECODERS = dict(gui_module.decoders)
NOISE = dict(gui_module.noise_directions)


def post(url, body):
    response = client.post(url, json=body)
    if response.status_code != 200:
        return response.status_code, None
    return 200, json.loads(response.data)


def jsonify(x):
    """What a JSON round trip makes of a Python value"""
    return json.loads(json.dumps(x))


def size_of(code_class, L, coprime):
    if code_class.dimension == 2:
        return (L + 1, L) if coprime else (L, L)
    return (L + 1, L, L) if coprime else (L, L, L)


def request_body(name, size, deformation, **extra):
    body = {'Lx': size[0], 'Ly': size[1],
            'Lz': size[2] if len(size) == 3 else size[0],
            'code_name': name, 'code_deformation_name': deformation}
    # main.js always sends Lz (= L), also for 2D codes
    if len(size) == 2:
        body['Lz'] = size[1]
    body.update(extra)
    return body


def library_code(name, size, deformation):
    code = CODES[name](*size)
    if deformation != 'None':
        code.deform(deformation)
    return code


def reference_matrix(code):
    """Parity-check matrix straight from the stabilizer operators"""
    n = len(code.qubit_coordinates)
    index = {loc: i for i, loc in enumerate(code.qubit_coordinates)}
    H = np.zeros((len(code.stabilizer_coordinates), 2*n), dtype=int)
    for i_stab, location in enumerate(code.stabilizer_coordinates):
        for qubit, pauli in code.get_stabilizer(location).items():
            if pauli in 'XY':
                H[i_stab, index[qubit]] += 1
            if pauli in 'YZ':
                H[i_stab, n + index[qubit]] += 1
    return H % 2


def reference_logicals(code, operators):
    n = len(code.qubit_coordinates)
    index = {loc: i for i, loc in enumerate(code.qubit_coordinates)}
    out = np.zeros((len(operators), 2*n), dtype=int)
    for i, op in enumerate(operators):
        for qubit, pauli in op.items():
            if pauli in 'XY':
                out[i, index[qubit]] += 1
            if pauli in 'YZ':
                out[i, n + index[qubit]] += 1
    return out


def is_number(x):
    return (isinstance(x, (int, float)) and not isinstance(x, bool)
            and math.isfinite(x))


def check_drawable(desc, what, where, dim):
    for key in ('object', 'color', 'opacity', 'params', 'location'):
        if key not in desc:
            fail(f'{where}: {what} description lacks {key!r}')
            return False
    if not isinstance(desc['object'], str) or not desc['object']:
        fail(f'{where}: {what} object {desc["object"]!r}')
    if not isinstance(desc['params'], dict):
        fail(f'{where}: {what} params {desc["params"]!r}')
    loc = desc['location']
    if (not isinstance(loc, list) or len(loc) != dim
            or not all(is_number(x) for x in loc)):
        fail(f'{where}: {what} location {loc!r}')
    states = ('I', 'X', 'Y', 'Z') if what == 'qubit' else ('activated',
                                                            'deactivated')
    for state in states:
        colour = desc['color'].get(state)
        if not (isinstance(colour, str) and colour.startswith('0x')):
            fail(f'{where}: {what} colour for {state}: {colour!r}')
    for state in ('activated', 'deactivated'):
        op = desc['opacity'].get(state)
        if not (isinstance(op, dict) and is_number(op.get('min'))
                and is_number(op.get('max'))):
            fail(f'{where}: {what} opacity for {state}: {op!r}')
    return True


# Classes whose drawable descriptions come unchanged from the base class:
# for those the description is recomputed here from the configuration file
def base_representation_only(code_class):
    base = panqec.codes.StabilizerCode
    return (code_class.qubit_representation is base.qubit_representation,
            code_class.stabilizer_representation
            is base.stabilizer_representation)


def expected_qubit(code, location, picture):
    rep = json.loads(json.dumps(CONFIG[code.id]['qubits'][picture]))
    rep['params']['axis'] = code.qubit_axis(location)
    rep['location'] = list(location)
    for pauli in 'IXYZ':
        rep['color'][pauli] = code.colormap[rep['color'][pauli]]
    return jsonify(rep)


def expected_stabilizer(code, location, picture):
    stab_type = code.stabilizer_type(location)
    rep = json.loads(json.dumps(
        CONFIG[code.id]['stabilizers'][picture][stab_type]))
    rep['type'] = stab_type
    rep['location'] = list(location)
    for state in ('activated', 'deactivated'):
        rep['color'][state] = code.colormap[rep['color'][state]]
    return jsonify(rep)


def check_code_data(name, size, deformation, rotated):
    where = f'code-data {name} {size} {deformation} rotated={rotated}'
    code_class = CODES[name]
    picture = 'rotated' if rotated else 'kitaev'

    # Is the choice inside the family the library supports?
    try:
        lib = library_code(name, size, deformation)
        lib_H = lib.stabilizer_matrix.toarray()
        lib_lx = lib.logicals_x
        lib_lz = lib.logicals_z
        lib_qubits = [lib.qubit_representation(loc, rotated)
                      for loc in lib.qubit_coordinates]
        lib_stabs = [lib.stabilizer_representation(loc, rotated)
                     for loc in lib.stabilizer_coordinates]
    except Exception:
        COUNTS['unsupported'] += 1
        return None

    COUNTS['code-data'] += 1
    status, data = post('/code-data', request_body(
        name, size, deformation, rotated_picture=rotated))
    if status != 200:
        fail(f'{where}: request failed with status {status}')
        return None

    for key in ('H', 'qubits', 'stabilizers', 'logical_x', 'logical_z'):
        if key not in data:
            fail(f'{where}: {key} missing')
            return None

    n, m = lib.n, lib.n_stabilizers
    H = np.array(data['H'], dtype=int).reshape(len(data['H']), 2*n)
    # parity-check matrix: the library's, and the one of the operators
    ref = library_code(name, size, deformation)
    if H.shape != (m, 2*n) or not np.array_equal(H, lib_H):
        fail(f'{where}: H differs from the library')
    if not np.array_equal(H, reference_matrix(ref)):
        fail(f'{where}: H differs from the stabilizer operators')
    if not set(np.unique(H)) <= {0, 1}:
        fail(f'{where}: H not binary')
    for key, lib_l, getter in (('logical_x', lib_lx, ref.get_logicals_x),
                               ('logical_z', lib_lz, ref.get_logicals_z)):
        L = np.array(data[key], dtype=int).reshape(len(data[key]), 2*n)
        if L.shape != lib_l.shape or not np.array_equal(L, lib_l):
            fail(f'{where}: {key} differs from the library')
        if not np.array_equal(L, reference_logicals(ref, getter()) % 2):
            # to_bsf of the library does not reduce mod 2; compare as is too
            if not np.array_equal(L, reference_logicals(ref, getter())):
                fail(f'{where}: {key} differs from the logical operators')

    # one complete description per qubit / stabilizer, in index order
    if len(data['qubits']) != n:
        fail(f'{where}: {len(data["qubits"])} qubit descriptions, n={n}')
    if len(data['stabilizers']) != m:
        fail(f'{where}: {len(data["stabilizers"])} stabilizers, m={m}')
    dim = code_class.dimension
    base_q, base_s = base_representation_only(code_class)
    for i, desc in enumerate(data['qubits'][:n]):
        if not check_drawable(desc, 'qubit', where, dim):
            break
        if desc != jsonify(lib_qubits[i]):
            fail(f'{where}: qubit {i} description differs from the library')
            break
        if base_q and desc != expected_qubit(
                ref, ref.qubit_coordinates[i], picture):
            fail(f'{where}: qubit {i} description differs from config')
            break
        if desc['params'].get('axis') != ref.qubit_axis(
                ref.qubit_coordinates[i]):
            fail(f'{where}: qubit {i} axis')
            break
    for i, desc in enumerate(data['stabilizers'][:m]):
        if not check_drawable(desc, 'stabilizer', where, dim):
            break
        if desc != jsonify(lib_stabs[i]):
            fail(f'{where}: stabilizer {i} differs from the library')
            break
        location = ref.stabilizer_coordinates[i]
        if desc.get('type') != ref.stabilizer_type(location):
            fail(f'{where}: stabilizer {i} type')
            break
        if base_s and desc != expected_stabilizer(ref, location, picture):
            fail(f'{where}: stabilizer {i} description differs from config')
            break
    # index order: locations strictly follow the library coordinates whenever
    # the description keeps the lattice location
    if base_q and [d['location'] for d in data['qubits']] != jsonify(
            ref.qubit_coordinates):
        fail(f'{where}: qubits not in index order')
    if base_s and [d['location'] for d in data['stabilizers']] != jsonify(
            ref.stabilizer_coordinates):
        fail(f'{where}: stabilizers not in index order')
    return data


# --------------------------------------------------------------------------
# 1. Menus
# --------------------------------------------------------------------------
menu = {}
for dim in (2, 3):
    status, names = post('/code-names', {'dimension': dim})
    expected = [name for name, cls in CODES.items() if cls.dimension == dim]
    if status != 200 or names != expected:
        fail(f'code-names {dim}: {names} != {expected}')
    for name in expected:
        cls = CODES[name]
        status, deformations = post('/deformation-names', {'code_name': name})
        if status != 200 or deformations != list(cls.deformation_names):
            fail(f'deformation-names {name}: {deformations}')
        status, offered = post('/decoder-names', {'code_name': name})
        supporting = {
            dec_name for dec_name, dec in DECODERS.items()
            if dec.allowed_codes is None or cls.__name__ in dec.allowed_codes
        }
        if (status != 200 or set(offered) != supporting
                or len(offered) != len(set(offered))):
            fail(f'decoder-names {name}: offered {offered}, '
                 f'supporting {sorted(supporting)}')
        menu[name] = (list(cls.deformation_names), offered or [])

# --------------------------------------------------------------------------
# 2. Code data for menu choices
# --------------------------------------------------------------------------
SIZES = {2: [1, 2, 3, 4, 6], 3: [1, 2, 3]}
sample_data = {}
for name, (deformations, _) in menu.items():
    cls = CODES[name]
    for L in SIZES[cls.dimension]:
        for coprime in (False, True):
            size = size_of(cls, L, coprime)
            for deformation in ['None'] + deformations:
                for rotated in (False, True):
                    data = check_code_data(name, size, deformation, rotated)
                    if data is not None and L == 2:
                        sample_data[(name, size, deformation, rotated)] = data

# repeated requests (same GUI object) keep returning the same, faithful data
for repeat in range(2):
    for key in [('Toric 2D', (4, 3), 'XY', False),
                ('Planar 2D', (3, 3), 'XZZX', True),
                ('Toric 2D', (4, 3), 'None', False),
                ('Toric 2D', (4, 3), 'XY', True),
                ('XCube', (3, 2, 2), 'XZZX', False),
                ('Toric 2D', (4, 3), 'XY', False)]:
        check_code_data(*key)

# a second GUI object serves the same data
other = GUI()
other.app.logger.disabled = True
r = other.app.test_client().post('/code-data', json=request_body(
    'Rotated Planar 2D', (3, 2), 'XY', rotated_picture=True))
if r.status_code != 200 or json.loads(r.data) != sample_data.get(
        ('Rotated Planar 2D', (3, 2), 'XY', True)):
    fail('second GUI object serves different data')

# --------------------------------------------------------------------------
# 3. Decoding and new errors
# --------------------------------------------------------------------------
BP_ITER, ALPHA, BETA = 20, 0.4, 0


def library_decoder(name, code, error_model, p):
    kwargs = {}
    if name in ('BP-OSD', 'MBP'):
        kwargs['max_bp_iter'] = BP_ITER
    if name == 'BP-OSD':
        kwargs['osd_order'] = 0
    if name == 'MBP':
        kwargs['alpha'] = ALPHA
        kwargs['beta'] = BETA
    return DECODERS[name](code, error_model, p, **kwargs)


def check_decode(name, size, deformation, decoder_name, model_name,
                 noise_deformation, p, syndrome, tag):
    where = (f'decode {name} {size} {deformation} {decoder_name} '
             f'{model_name}/{noise_deformation} p={p} #{tag}')
    nd = None if noise_deformation == 'None' else noise_deformation
    try:
        reset_randomness(tag)
        lib = library_code(name, size, deformation)
        with contextlib.redirect_stdout(io.StringIO()):
            expected = library_decoder(
                decoder_name, lib, PauliErrorModel(*NOISE[model_name], nd), p
            ).decode(np.array(syndrome))
    except Exception as e:
        # the library decoder itself rejects this combination
        COUNTS['decode-skipped'] += 1
        SKIPPED[f'{decoder_name}: {type(e).__name__}: {str(e)[:60]}'] += 1
        return
    COUNTS['decode'] += 1
    reset_randomness(tag)
    with contextlib.redirect_stdout(io.StringIO()):
        status, data = post('/decode', request_body(
            name, size, deformation, p=p, max_bp_iter=BP_ITER, alpha=ALPHA,
            beta=BETA, channel_update=False,
            syndrome=list(map(int, syndrome)),
            noise_deformation_name=noise_deformation, decoder=decoder_name,
            error_model=model_name))
    if status != 200:
        fail(f'{where}: status {status}')
        return
    n = lib.n
    got = np.array(data['x'] + data['z'])
    if got.shape != (2*n,) or len(data['x']) != n:
        fail(f'{where}: correction of wrong size')
    elif not np.array_equal(got, np.asarray(expected).ravel()):
        fail(f'{where}: correction differs from the library decoder')


def check_new_errors(name, size, deformation, model_name, noise_deformation,
                     p, tag):
    where = (f'new-errors {name} {size} {deformation} '
             f'{model_name}/{noise_deformation} p={p} #{tag}')
    nd = None if noise_deformation == 'None' else noise_deformation
    try:
        reset_randomness(tag)
        lib = library_code(name, size, deformation)
        model = PauliErrorModel(*NOISE[model_name], nd)
        expected = model.generate(lib, p)
        probabilities = model.probability_distribution(lib, p)
    except Exception:
        return None
    COUNTS['new-errors'] += 1
    reset_randomness(tag)
    status, data = post('/new-errors', request_body(
        name, size, deformation, p=p, noise_deformation_name=noise_deformation,
        error_model=model_name))
    if status != 200:
        fail(f'{where}: status {status}')
        return None
    got = np.array(data)
    n = lib.n
    if got.shape != (2*n,) or not set(np.unique(got)) <= {0, 1}:
        fail(f'{where}: not a binary vector of length 2n')
        return None
    if not np.array_equal(got, expected):
        fail(f'{where}: differs from the library noise model')
    # support only where the library noise model puts weight
    p_i, p_x, p_y, p_z = probabilities
    for i in range(n):
        pauli = {(0, 0): p_i, (1, 0): p_x, (1, 1): p_y, (0, 1): p_z}[
            (int(got[i]), int(got[n + i]))]
        if pauli[i] <= 0:
            fail(f'{where}: impossible Pauli on qubit {i}')
            break
    if p == 0 and got.any():
        fail(f'{where}: errors at p=0')
    return got


DECODE_L = {2: 4, 3: 2}
tag = 0
for name, (deformations, offered) in menu.items():
    cls = CODES[name]
    L = DECODE_L[cls.dimension]
    for coprime in (False, True):
        size = size_of(cls, L, coprime)
        try:
            probe = library_code(name, size, 'None')
            probe.stabilizer_matrix, probe.logicals_x, probe.logicals_z
        except Exception:
            continue
        noise_options = [('Depolarizing', 'None'), ('Pure Z', 'None')]
        for d in deformations:
            noise_options += [('Pure Z', d), ('Pure X', d)]
        if 'XY' in deformations:
            noise_options.append(('Pure Y', 'XY'))
        code_deformations = ['None'] + deformations
        for i_noise, (model_name, noise_deformation) in enumerate(
                noise_options):
            deformation = code_deformations[i_noise % len(code_deformations)]
            # new errors, with several rates incl. the ends of the slider
            errors = None
            for p in (0.1, 0, 0.5, 0.27):
                tag += 1
                e = check_new_errors(name, size, deformation, model_name,
                                     noise_deformation, p, tag)
                if p == 0.1:
                    errors = e
            # and once more with the same request (same objects reused)
            tag += 1
            check_new_errors(name, size, deformation, model_name,
                             noise_deformation, 0.1, tag)
            if errors is None:
                continue
            lib = library_code(name, size, deformation)
            syndromes = [np.zeros(lib.n_stabilizers, dtype=int),
                         np.asarray(lib.measure_syndrome(errors)).ravel()]
            for decoder_name in sorted(offered):
                for syndrome in syndromes:
                    for p in ((0.1, 0.02) if coprime else (0.1,)):
                        tag += 1
                        check_decode(name, size, deformation, decoder_name,
                                     model_name, noise_deformation, p,
                                     syndrome, tag)
            # same request twice in a row
            for decoder_name in sorted(offered)[-2:]:
                tag += 1
                for repeat in range(2):
                    check_decode(name, size, deformation, decoder_name,
                                 model_name, noise_deformation, 0.1,
                                 syndromes[1], tag)

finish()
print('C20 holds:', COUNTS)
for reason, count in sorted(SKIPPED.items()):
    print('  library decoder not applicable:', count, 'x', reason)

# --------------------------------------------------------------------------
# (b) Digest of concrete outputs of the changed functions
# --------------------------------------------------------------------------
digest = {}

# GUI.send_decoder_names: menu content, in the order it is served
digest['decoder_menu'] = {name: offered for name, (_, offered) in menu.items()}

# StabilizerCode.stabilizer_matrix: internal CSR layout
layout = {}
for name, size, deformation in [('Toric 2D', (4, 3), 'XY'),
                                ('Rotated Planar 2D', (3, 3), 'XZZX'),
                                ('4.8.8 Color Code', (2, 2), 'None'),
                                ('Toric 3D', (3, 2, 2), 'XZZX'),
                                ('XCube', (2, 2, 2), 'None')]:
    H = library_code(name, size, deformation).stabilizer_matrix
    layout[f'{name} {size} {deformation}'] = {
        'type': type(H).__name__,
        'dtype': str(H.dtype),
        'nnz_stored': int(H.nnz),
        'rows_sorted': bool(all(
            np.all(np.diff(H.indices[H.indptr[i]:H.indptr[i+1]]) > 0)
            for i in range(H.shape[0]))),
        'indices_sha': hashlib.sha256(
            np.asarray(H.indices, dtype=np.int64).tobytes()).hexdigest()[:16],
        'dense_sha': hashlib.sha256(
            H.toarray().astype(np.int64).tobytes()).hexdigest()[:16],
    }
digest['stabilizer_matrix_layout'] = layout

# GUI._instantiate_code: object reuse and messages for invalid requests
body = request_body('Toric 2D', (4, 3), 'XY')
with gui.app.test_request_context():
    first = gui._instantiate_code(body)
    second = gui._instantiate_code(body)
digest['instantiate_same_object_twice'] = first is second
invalid = {}
for label, bad in [
    ('3d_without_Lz', {'Lx': 2, 'Ly': 2, 'code_name': 'Toric 3D',
                       'code_deformation_name': 'None'}),
    ('unknown_code', {'Lx': 2, 'Ly': 2, 'Lz': 2, 'code_name': 'Nope',
                      'code_deformation_name': 'None'}),
]:
    try:
        gui._instantiate_code(bad)
        invalid[label] = 'no error'
    except Exception as e:
        invalid[label] = f'{type(e).__name__}: {e}'
gui.app.config['PROPAGATE_EXCEPTIONS'] = True
for label, url, bad in [
    ('unknown_error_model', '/new-errors', request_body(
        'Toric 2D', (2, 2), 'None', p=0.1, noise_deformation_name='None',
        error_model='Pure W')),
    ('short_syndrome', '/decode', request_body(
        'Toric 2D', (2, 2), 'None', p=0.1, max_bp_iter=5, alpha=0.4, beta=0,
        syndrome=[0, 0, 0], noise_deformation_name='None', decoder='BP-OSD',
        error_model='Depolarizing')),
]:
    try:
        status = client.post(url, json=bad).status_code
        invalid[label] = f'status {status}'
    except Exception as e:
        invalid[label] = f'{type(e).__name__}: {str(e)[:70]}'
digest['invalid_requests'] = invalid

# qubit_representation / stabilizer_representation: how often the
# configuration file gets parsed while one code is being served
calls = {'n': 0}
_loads, _load = json.loads, json.load


def counting_loads(*a, **k):
    calls['n'] += 1
    return _loads(*a, **k)


def counting_load(fp, *a, **k):
    calls['n'] += 1
    return _load(fp, *a, **k)


json.loads, json.load = counting_loads, counting_load
try:
    code = library_code('Planar 2D', (3, 3), 'None')
    reps = [code.qubit_representation(loc) for loc in code.qubit_coordinates]
    reps += [code.stabilizer_representation(loc)
             for loc in code.stabilizer_coordinates]
finally:
    json.loads, json.load = _loads, _load
digest['config_parses_for_planar_3x3'] = calls['n']
digest['representations_sha'] = hashlib.sha256(
    json.dumps(reps, sort_keys=True).encode()).hexdigest()[:16]

text = json.dumps(digest, indent=1, sort_keys=True)
print('DIGEST-BEGIN')
print(text)
print('DIGEST-END')
print('DIGEST-SHA', hashlib.sha256(text.encode()).hexdigest())
sys.exit(0)
