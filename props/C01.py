"""C01 - every library code is a valid [[n,k]] stabilizer code.

Functions under contract, per lattice class: get_qubit_coordinates, get_stabilizer_coordinates (R-builder summaries),
stabilizer_type, get_stabilizer (symbolic execution with symbolic location and symbolic lattice size), get_logicals_x/z
(R-builder summaries), helpers unfolded at call sites (listed per run in the evidence).

Deductive obligations (no bound on L):
  comm[cls,(arA,arB)]  any two generators commute
  logcomm[cls,x|z]     every listed logical commutes with every generator
  pair[cls]            X_i / Z_j anticommute exactly when i = j; X-X and Z-Z commute   (empty / singleton intersections)
  wf[cls]              no raise, positive divisors, supports reachable (vacuity)
Bounded (never counted as proved): rank(H) = n-k and every clause above on the real objects, every deformation and axis.
"""
import itertools, random, time
import numpy as np
import z3
from contracts.lattices import *
from contracts.common import result, cover
from pyvc.values import E, eq
from pyvc.solve import check, minimise, mod_lemma, linearise_mod
from pyvc.runner import Ob, load_known

PROPERTY = 'C01'
LEVEL = 'proof'
EXPLANATION = ('linear-integer VCs with symbolic lattice size over the symbolically executed lattice classes (generator commutation, '
               'logical/generator commutation, logical pairing); GF(2) rank and all clauses on deformed codes by run-time contracts on real objects')
ASSUMPTIONS = [
    'R-builder: derived loop rule (pyvc/lattice.py) - coordinate lists and logical supports summarised by their comprehension semantics',
    'supported-size families are preconditions (contracts/lattices.py CLASSES)',
    'python ints unbounded; // and % with positive divisors (side obligation discharged under the size precondition)',
    'tuple equality of int and numpy.int64 coordinates coincide; np.add/np.mod on short tuples are elementwise',
    'M-sympl (textbook): pairing of the 2k listed logicals => they are independent modulo the stabilizer group and rank <= n-k',
    'NOT proved for unbounded L: rank(H) = n-k (bounded layer only); pairings whose intersection is neither empty nor a single qubit (bounded layer only)',
    'deformed codes: commutation/pairing follow from the undeformed VCs by the relabelling lemma of C08 (proved there)',
]
TRUSTED_BASE = ['z3 5.1.0 (linear integer arithmetic, qe tactic)', 'pyvc symbolic executor + R-builder', 'cvc5 / z3 4.8 as fall-back']

# classes whose generator commutation is attempted deductively; HollowRhombic's stabilizer set is defined through
# len(get_stabilizer(..)) and np.all over supports -> only an over-approximated set is available -> bounded only
P_COMM = ['Toric2DCode', 'Planar2DCode', 'RotatedPlanar2DCode', 'Toric3DCode', 'Planar3DCode', 'RotatedPlanar3DCode',
          'HollowPlanar3DCode', 'RotatedToric3DCode', 'RhombicToricCode', 'RhombicPlanarCode', 'XCubeCode', 'Color488Code',
          'Color666PlanarCode', 'Color666ToricCode', 'Color3DCode']
P_LOG = ['Toric2DCode', 'Planar2DCode', 'RotatedPlanar2DCode', 'Toric3DCode', 'Planar3DCode', 'RotatedPlanar3DCode',
         'HollowPlanar3DCode', 'RotatedToric3DCode', 'RhombicToricCode', 'RhombicPlanarCode', 'XCubeCode']
ARITIES = {'RhombicToricCode': (3, 4), 'RhombicPlanarCode': (3, 4), 'XCubeCode': (3, 4)}


def known_pred(lat, fid):
    """negated region of a parametric known finding, conjoined into the VC (the obligation is proved OUTSIDE the region)"""
    for f in load_known().get('findings', []):
        if f.get('id') == fid and f.get('region'):
            L = lat.L
            return z3.Not(eval(f['region'], {'z3': z3, 'L': L, 'And': z3.And, 'Or': z3.Or, 'Not': z3.Not}))
    return z3.BoolVal(True)


def _funcs(lat):
    return funcs_of(lat, ['get_qubit_coordinates', 'get_stabilizer_coordinates', 'stabilizer_type', 'get_stabilizer',
                          'get_logicals_x', 'get_logicals_z'])


def ob_comm(cls, arA, arB, timeout=120, types=None):
    lat, pre = lattice(cls)
    goal, (a, b, ma, mb, sa, sb) = comm_query(lat, pre, arA, arB)
    vac = None
    if types is not None:
        # one obligation per pair of stabilizer types (get_stabilizer is executed once for a location of ANY type; its symbolic support carries the entries
        # of every branch, 34 for Color3DCode, and the type hypothesis selects the live ones)
        ta, tb = lat.stab_type(a), lat.stab_type(b)
        hyp = goal[:-1] + [eq(ta, E.const(types[0])), eq(tb, E.const(types[1]))]
        vac = 'cover (two generators of types %s, %s exist): %s' % (types[0], types[1], check(hyp, 30, fallbacks=False)['verdict'])
        goal = hyp + [goal[-1]]
    goal, n_lin, n_left = linearise_mod(goal)       # same models (see pyvc.solve.linearise_mod); the counter-model search below uses the same assertions
    r = check(goal, timeout)
    r['linearised'] = (n_lin, n_left)
    extra = dict(detail='entries %dx%d; mod-by-period terms linearised/left: %s' % (len(ma.entries), len(mb.entries), r.get('linearised')), approx=lat.approx_sites)
    if r['verdict'] == 'sat':
        mdl = minimise(goal, [z3.Sum(list(lat.L))] + list(a) + list(b), timeout_s=20)
        if mdl is not None:
            r['model'] = {str(v): str(mdl.eval(v, model_completion=True)) for v in list(lat.L) + a + b}
    out = result('comm', r, _funcs(lat), None, goal, **extra)
    out['transparent'] = sorted(lat.transparent)
    out['cls'] = cls; out['ar'] = (arA, arB)
    out['vacuity'] = '%s: %smod-by-period terms linearised %d, left non-linear %d' % ('comm[%s,%s,%s]' % ((cls,) + tuple(types or (arA, arB))), vac + '; ' if vac else '', n_lin, n_left)
    return out


def ob_wf(cls, timeout=60):
    """well-formedness: under the size precondition and S(a): get_stabilizer raises nothing, divisors are positive,
    S is inhabited for every arity, and every entry of the symbolic support is reachable (no vacuous proof)"""
    lat, pre = lattice(cls)
    bad, covers, unreachable = [], [], []
    for ar in ARITIES.get(cls, (lat.stab_arities()[0],)) if cls in ARITIES else lat.stab_arities():
        a, m, st = sym_stab(lat, 'a', ar)
        hyp = [pre, lat.S(a)]
        r = check(hyp, timeout, fallbacks=False)
        covers.append((ar, r['verdict']))
        if r['verdict'] != 'sat':
            unreachable.append('S empty for arity %d' % ar)
        raises = [c for c, nm, ln in st.raises]
        g = hyp + [z3.Or(raises + side_conditions(st) + [z3.BoolVal(False)])]
        r2 = check(g, timeout)
        if r2['verdict'] != 'unsat':
            out = result('wf', r2, _funcs(lat), None, g, detail='raise/side condition reachable for arity %d: %s' % (ar, [(nm, ln) for _, nm, ln in st.raises]))
            out['transparent'] = sorted(lat.transparent); out['cls'] = cls
            return out
        nreach = 0
        for gd, k, v in m.entries:
            rr = check(hyp + [gd], 20, fallbacks=False)
            nreach += rr['verdict'] == 'sat'
        if nreach == 0:
            unreachable.append('no entry reachable for arity %d' % ar)
        covers.append(('entries reachable', ar, nreach, len(m.entries)))
    v = 'discharged' if not unreachable else 'refuted'
    return dict(verdict=v, model=None, backend='z3-' + z3.get_version_string(), seconds=0, detail=str(unreachable or covers),
                vacuity='covers %s' % covers, functions=[dict(function=f.ref, sha256_16=f.sha) for f in _funcs(lat)],
                transparent=sorted(lat.transparent), cls=cls, kind='state')


def ob_logcomm(cls, kind, timeout=120, only=None):
    lat, pre = lattice(cls)
    pre = z3.And(pre, known_pred(lat, 'F-C01-a')) if cls == 'RotatedToric3DCode' else pre
    logs = lat.logicals(kind)
    details, worst = [], None
    t0 = time.time()
    for ar in lat.stab_arities():
        a, m, st = sym_stab(lat, 'a', ar)
        me = effective(m)
        for li, (g, acc) in enumerate(logs):
            if only is not None and (ar, li) != tuple(only):
                continue
            goal, _, _ = linearise_mod([pre, lat.S(a), g.cond, logical_vs_stab_odd(lat, acc, me)])
            r = check(goal, timeout)
            details.append((ar, li, r['verdict'], round(r['seconds'], 2)))
            if r['verdict'] != 'unsat':
                if r['verdict'] == 'sat':
                    mdl = minimise(goal, [z3.Sum(list(lat.L))] + list(a), timeout_s=20)
                    if mdl is not None:
                        r['model'] = {str(v): str(mdl.eval(v, model_completion=True)) for v in list(lat.L) + a}
                        r['model']['logical'] = '%s[%d]' % (kind, li)
                out = result('logcomm', r, _funcs(lat), None, goal, detail=str(details))
                out['transparent'] = sorted(lat.transparent); out['cls'] = cls; out['lkind'] = kind
                return out
    return dict(verdict='discharged', model=None, backend='z3-' + z3.get_version_string(), seconds=time.time() - t0,
                detail='(arity, logical, verdict, s): %s' % details, functions=[dict(function=f.ref, sha256_16=f.sha) for f in _funcs(lat)],
                transparent=sorted(lat.transparent), cls=cls, lkind=kind)


def _inter(lat, accA, accB, q, anticommuting=True):
    """q lies in both supports (and the two Paulis there anticommute)"""
    va, vb = accA.value_at(q), accB.value_at(q)
    ina = z3.Or([c for c, _ in va.alts] + [z3.BoolVal(False)])
    inb = z3.Or([c for c, _ in vb.alts] + [z3.BoolVal(False)])
    return z3.And(ina, inb, anti(va, vb)) if anticommuting else z3.And(ina, inb)


def ob_pair(cls, timeout=60):
    """X_i vs Z_j: the anticommuting overlap is a single qubit when i=j (uniqueness + existence) and empty otherwise;
    X-X and Z-Z: never anticommute on any qubit.  Lists are aligned position by position (same guards / same families)."""
    lat, pre = lattice(cls)
    pre = z3.And(pre, known_pred(lat, 'F-C01-a')) if cls == 'RotatedToric3DCode' else pre
    LX, LZ = lat.logicals('x'), lat.logicals('z')
    t0 = time.time()
    details = []
    if len(LX) != len(LZ):
        # lists of different shape (e.g. parity-dependent): align the gens whose guards can hold together
        pass
    dim = lat.qubit_arities()[0]
    q = [z3.Int('q%d' % i) for i in range(dim)]
    q2 = [z3.Int('r%d' % i) for i in range(dim)]
    undecided = []

    def fail(r, goal, what):
        out = result('pair', r, _funcs(lat), None, goal, detail='%s; so far %s' % (what, details))
        out['transparent'] = sorted(lat.transparent); out['cls'] = cls
        return out
    # alignment: the k-th X gen and the k-th Z gen are appended under equivalent conditions, earlier gens likewise
    n = min(len(LX), len(LZ))
    if len(LX) != len(LZ):
        # allowed only if the surplus gens are mutually exclusive alternatives (parity cases); checked via guard counts below
        pass
    # index of a gen = number of earlier gens whose guard holds (non-family) -- compare index functions pairwise
    def idx(lst, k):
        return z3.Sum([z3.If(lst[j][0].cond, 1, 0) for j in range(k)] + [z3.IntVal(0)])
    fam = any(g.bound for g, _ in LX + LZ)
    for i, (gx, ax) in enumerate(LX):
        for j, (gz, az) in enumerate(LZ):
            # rename family parameters apart
            condx, px = rename(gx.cond, gx.bound, 'x')
            condz, pz = rename(gz.cond, gz.bound, 'z')
            def sub(f, g_, new):
                return z3.substitute(f, *zip(g_.bound, new)) if g_.bound else f
            in1 = sub(_inter(lat, ax, az, q), gx, px); in1 = sub(in1, gz, pz)
            in2 = z3.substitute(in1, *zip(q, q2))
            if fam:
                if len(LX) != len(LZ) or len(gx.bound) != len(LX[j][0].bound if j < len(LX) else gx.bound):
                    pass
                same = z3.And([z3.BoolVal(i == j)] + ([a_ == b_ for a_, b_ in zip(px, pz)] if i == j and len(px) == len(pz) else []))
            else:
                same = idx(LX, i) == idx(LZ, j)
            base = [pre, condx, condz]
            # (a) different index -> no anticommuting overlap at all
            g1 = base + [z3.Not(same), in1]
            r1 = check(g1, timeout)
            # (b) same index -> at most one anticommuting qubit ...
            g2 = base + [same, in1, in2, z3.Or([a_ != b_ for a_, b_ in zip(q, q2)])]
            r2 = check(g2, timeout)
            # (c) ... and at least one: forall L, params. pre & same -> exists q. in
            r3 = {'verdict': 'unsat', 'seconds': 0}
            g3 = None
            if i == j or not fam:
                g3 = [z3.And(base + [same]), z3.Not(z3.Exists(q, in1))]
                r3 = check(g3, timeout)
            details.append((i, j, r1['verdict'], r2['verdict'], r3['verdict']))
            # only (c) failing is a violation by itself: a same-index pair with NO anticommuting qubit commutes.
            # A non-empty overlap of a different-index pair may still be even -> undecided, left to the bounded layer.
            for r, g, what in ((r3, g3, 'X[%d] and Z[%d] (same index) share no anticommuting qubit' % (i, j)),):
                if r['verdict'] == 'sat':
                    mdl = minimise(g, [z3.Sum(list(lat.L))], timeout_s=20)
                    if mdl is not None:
                        r['model'] = {str(v): str(mdl.eval(v, model_completion=True)) for v in list(lat.L)}
                    r['model'] = dict(r.get('model') or {}, pair='x%d-z%d' % (i, j))
                    return fail(r, g, what)
            if r1['verdict'] == 'sat':
                # different index, overlap not empty: decide evenness for overlaps of size exactly 2
                #   exactly-one:   exists q1 in, forall q2 in -> q2 = q1          must be unsat
                #   three or more: three pairwise distinct members               must be unsat
                q3 = [z3.Int('s%d' % k_) for k_ in range(dim)]
                in3 = z3.substitute(in1, *zip(q, q3))
                ne = lambda u, v: z3.Or([a_ != b_ for a_, b_ in zip(u, v)])            # noqa
                one = base + [z3.Not(same), in1, z3.ForAll(q2, z3.Implies(in2, z3.And([a_ == b_ for a_, b_ in zip(q, q2)])))]
                three = base + [z3.Not(same), in1, in2, in3, ne(q, q2), ne(q, q3), ne(q2, q3)]
                ra, rb = check(one, timeout), check(three, timeout)
                details.append((i, j, 'size-1', ra['verdict'], 'size>=3', rb['verdict']))
                if ra['verdict'] == 'sat' and rb['verdict'] == 'unsat':
                    mdl = minimise(one, [z3.Sum(list(lat.L))], timeout_s=20)
                    ra['model'] = dict({str(v): str(mdl.eval(v, model_completion=True)) for v in list(lat.L)} if mdl is not None else {}, pair='x%d-z%d' % (i, j))
                    return fail(ra, one, 'X[%d] and Z[%d] (different index) anticommute on exactly one qubit' % (i, j))
                if not (ra['verdict'] == 'unsat' and rb['verdict'] == 'unsat'):
                    undecided.append((i, j, 'overlap', ra['verdict'], rb['verdict']))
            if r2['verdict'] == 'sat' or 'unknown' in (r1['verdict'], r2['verdict'], r3['verdict']):
                undecided.append((i, j, r1['verdict'], r2['verdict'], r3['verdict']))
    # X-X and Z-Z never anticommute anywhere
    for kind, lst in (('x', LX), ('z', LZ)):
        for i, (g1_, a1) in enumerate(lst):
            for j, (g2_, a2) in enumerate(lst):
                if j < i:
                    continue
                c1, p1 = rename(g1_.cond, g1_.bound, 'a'); c2, p2 = rename(g2_.cond, g2_.bound, 'b')
                inn = _inter(lat, a1, a2, q)
                inn = z3.substitute(inn, *zip(g1_.bound, p1)) if g1_.bound and i != j else inn
                if i == j and g1_.bound:
                    # two members of the same family: rename the second copy's parameters
                    va = a1.value_at(q); vb = a2.value_at(q)
                    ina = z3.Or([c for c, _ in va.alts] + [z3.BoolVal(False)])
                    vb2 = E([(z3.substitute(c, *zip(g2_.bound, p2)), s_) for c, s_ in vb.alts])
                    inb = z3.Or([c for c, _ in vb2.alts] + [z3.BoolVal(False)])
                    va1 = E([(z3.substitute(c, *zip(g1_.bound, p1)), s_) for c, s_ in va.alts])
                    inn = z3.And(z3.Or([c for c, _ in va1.alts] + [z3.BoolVal(False)]), inb, anti(va1, vb2))
                elif g2_.bound:
                    inn = z3.substitute(inn, *zip(g2_.bound, p2))
                g = [pre, c1, c2, inn]
                r = check(g, timeout)
                details.append((kind, i, j, r['verdict']))
                if r['verdict'] == 'sat':
                    undecided.append((kind, i, j, 'overlap with differing Paulis exists'))
                elif r['verdict'] != 'unsat':
                    undecided.append((kind, i, j, r['verdict']))
    # overlaps whose size grows with L (a whole line of qubits) have no size-independent parity argument here: the pair is
    # *not* claimed; it is named in the evidence and decided by the bounded layer only.  Anything else undecided = unknown.
    growing = [u for u in undecided if len(u) == 5 and u[2] == 'overlap' and u[3] == 'unsat' and u[4] == 'sat']
    other = [u for u in undecided if u not in growing]
    v = 'discharged' if not other else 'unknown'
    return dict(verdict=v, model=None, backend='z3-' + z3.get_version_string(), seconds=time.time() - t0,
                left_to_bounded=['X[%d]-Z[%d] overlap of L-dependent size' % (u[0], u[1]) for u in growing],
                detail=('undecided: %s; ' % other if other else '') + ('NOT claimed (bounded only): %s; ' % growing if growing else '')
                + 'per pair (i,j,distinct-empty,unique,exists): %s' % details,
                functions=[dict(function=f.ref, sha256_16=f.sha) for f in _funcs(lat)], transparent=sorted(lat.transparent), cls=cls)


TYPE_SPLIT = ['Color3DCode', 'Color666ToricCode']


def ob_mod_lemma(timeout=30):
    """the rewrite rule of pyvc.solve.linearise_mod, discharged on every run:  d > 0 and -d <= t < 2d  =>  t mod d = ite(t<0, t+d, ite(t>=d, t-d, t))"""
    goal = mod_lemma()
    return result('lemma', check(goal, timeout), [], None, goal, detail='rewrite rule used to linearise coordinates taken modulo a lattice period')


def ob_unplannable(cls, why):
    raise Unsupported('obligations of %s could not be generated: %s' % (cls, why))


def obligations(tier):
    to = 330 if tier == 'quick' else 900       # z3 time limit per query: ten times what the slowest obligation takes with 16 solvers running (~30 s);
    #                                            after a time-out the fall-back solvers get 40 s only
    obs = [Ob('C01.lemma[mod-linearisation]', ob_mod_lemma, dict(timeout=30), timeout=30)]
    for cls in P_COMM:
        try:
            lat, pre = lattice(cls)
            ars = lat.stab_arities()
            if cls in P_LOG:
                for k in 'xz':
                    lat.logicals(k)
        except Unsupported as e:
            # the class's lattice definition has left the subset the builder rule handles: its obligations are undecided (one `lost` entry), the others stay
            obs.append(Ob('C01.plan[%s]' % cls, ob_unplannable, dict(cls=cls, why=str(e)), timeout=30, kind='state'))
            continue
        for ra, rb in itertools.combinations_with_replacement(ars, 2):
            if cls in TYPE_SPLIT:
                a = [z3.Int('a%d' % i) for i in range(ra)]
                types = sorted({s_ for _, s_ in lat.stab_type(a).alts})
                for t1, t2 in itertools.combinations_with_replacement(types, 2):
                    obs.append(Ob('C01.comm[%s,%s,%s]' % (cls, t1, t2), ob_comm, dict(cls=cls, arA=ra, arB=rb, timeout=to, types=(t1, t2)), timeout=to))
            else:
                obs.append(Ob('C01.comm[%s,%d,%d]' % (cls, ra, rb), ob_comm, dict(cls=cls, arA=ra, arB=rb, timeout=to), timeout=to))
        obs.append(Ob('C01.wf[%s]' % cls, ob_wf, dict(cls=cls), timeout=to, kind='state'))
        if cls in P_LOG:
            for k in 'xz':
                nl = len(lat.logicals(k))
                for ar in ars:
                    for li in range(nl):
                        obs.append(Ob('C01.logcomm[%s,%s%d,arity%d]' % (cls, k, li, ar), ob_logcomm,
                                      dict(cls=cls, kind=k, timeout=to, only=(ar, li)), timeout=to))
            obs.append(Ob('C01.pair[%s]' % cls, ob_pair, dict(cls=cls, timeout=min(to, 60)), timeout=to * 4))
    # both tiers discharge the same obligations (with the xor / linearised encoding the slowest takes ~30 s); the tiers differ in time limits and in the bounded layer
    # slowest first so the pool stays busy
    heavy = ('Color3DCode', 'Color666ToricCode', 'Toric3DCode', 'RotatedToric3DCode', 'RhombicToricCode', 'XCubeCode')
    obs.sort(key=lambda o: 0 if any(h in o.name for h in heavy) else 1)
    return obs


def ob_comm_auto(cls, timeout=120):
    lat, pre = lattice(cls)
    ar = lat.stab_arities()
    if len(ar) != 1:
        raise Unsupported('mixed arities need an explicit split')
    return ob_comm(cls, ar[0], ar[0], timeout)


# ------------------------------------------------------------------------------------------------ native layer
from bounded import codes as BC    # noqa
from bounded.util import toint, supported, all_code_classes    # noqa


REPLAY_MAX_CELLS = 1500


def _model_size(m, dim):
    return tuple(max(1, toint(m.get('L' + c), 2)) for c in 'xyz'[:dim])


def replay(r):
    m = r.get('model') or {}
    cls = r.get('cls') or r['name'].split('[')[1].split(',')[0].rstrip(']')
    import panqec.codes as C
    dim = getattr(C, cls).dimension
    size = _model_size(m, dim)
    if 'Lx' not in m:
        return dict(confirmed=None, detail='no lattice size in the counter-model')
    if int(np.prod(size)) > REPLAY_MAX_CELLS:
        # a counter-model that could not be shrunk: building the real lattice would take minutes to hours.  Not replayed (the runner then reports the
        # refuted obligation with whatever failing input the bounded layer found, or as no-failing-input-found)
        return dict(confirmed=None, input=dict(code=cls, size=size), detail='counter-model lattice %s too large to build natively (limit %d cells)' % (size, REPLAY_MAX_CELLS))
    try:
        code = BC.make(cls, size)
        what = r['name'].split('.')[1].split('[')[0]
        if what == 'comm':
            ars = r.get('ar') or (dim, dim)
            a = tuple(toint(m.get('a%d' % i)) for i in range(ars[0])); b = tuple(toint(m.get('b%d' % i)) for i in range(ars[1]))
            if a in code.stabilizer_index and b in code.stabilizer_index:
                bad = BC.op_anticommute(code.get_stabilizer(a), code.get_stabilizer(b))
                return dict(confirmed=bool(bad), input=dict(code=cls, size=size, a=a, b=b),
                            detail='generators at %s and %s %s on %s%s' % (a, b, 'anticommute' if bad else 'commute', cls, size))
            return dict(confirmed=False, input=dict(code=cls, size=size, a=a, b=b), detail='model locations are not stabilizers of the real lattice')
        fails = BC.c01_contract(code, rank=False)
        rel = [f for f in fails if f[0] == {'logcomm': 'logcomm', 'pair': 'pair', 'wf': 'comm'}.get(what, what)] or fails
        return dict(confirmed=bool(rel), input=dict(code=cls, size=size), detail='; '.join(d for _, d in rel[:3]) or 'all clauses hold natively on %s%s' % (cls, size))
    except Exception as e:      # noqa
        return dict(confirmed=True if r['name'].startswith('C01.wf') else None, input=dict(code=cls, size=size), detail='raises %s: %s' % (type(e).__name__, e))


def replay_file(data):
    inp = data.get('input') or {}
    if inp.get('history'):
        code = BC.make(inp['code'], tuple(inp['size']))
        _ = (code.logicals_x, code.logicals_z, code.k, code.d, code.stabilizer_matrix, code.x_indices, code.is_css)
        code.deform(inp.get('deformation'), **(inp.get('kwargs') or {}))
    else:
        code = BC.make(inp['code'], tuple(inp['size']), inp.get('deformation'), inp.get('kwargs'))
    fails = BC.c01_contract(code)
    return dict(confirmed=bool(fails), detail='; '.join(d for _, d in fails[:4]) or 'all clauses hold', input=inp)


def bounded(tier, seed):
    rnd = random.Random(seed)
    maxn, maxL, per = (400, 4, 8) if tier == 'quick' else (2500, 6, 16)
    ev, nt, viol, samples = 0, set(), [], []
    t0 = time.time()
    budget = 150 if tier == 'quick' else 1500
    # witnesses of listed known findings are always visited (so that KNOWN-FINDING is printed while they persist)
    extra = [('RotatedToric3DCode', (3, 3, 1), None, {}), ('Color488Code', (1, 2), None, {}), ('Color666ToricCode', (1, 2), None, {})]
    cases = [(n, s, d, k) for n, c, s, d, k in BC.sweep(tier, maxn, maxL, rnd, per)] + extra
    for name, size, defo, kw in cases:
        if time.time() - t0 > budget:
            break
        inp = dict(code=name, size=list(size), deformation=defo, kwargs=kw)
        try:
            code = BC.make(name, size, defo, kw)
            fails = BC.c01_contract(code, rank=True)
        except Exception as e:      # noqa
            fails = [('raises', '%s: %s' % (type(e).__name__, e))]
        ev += 1
        if defo is not None or len(set(size)) > 1:
            nt.add((name, tuple(size), defo, tuple(sorted(kw.items()))))
        if len(samples) < 4 and defo:
            samples.append(dict(inp, n=code.n, k=code.k, ok=not fails))
        if fails:
            viol.append(dict(obligation='C01.bounded[%s]' % name, input=inp, detail='; '.join('%s: %s' % f for f in fails[:3])))
        elif defo is not None and code.n <= 120:
            # the same clauses on an object that was USED undeformed (logicals, k, d, masks, matrix cached) and deformed in place afterwards
            try:
                used = BC.make(name, size)
                _ = (used.logicals_x, used.logicals_z, used.k, used.d, used.stabilizer_matrix, used.x_indices, used.is_css)
                used.deform(defo, **kw)
                fails = BC.c01_contract(used, rank=True)
            except Exception as e:      # noqa
                fails = [('raises', '%s: %s' % (type(e).__name__, e))]
            ev += 1; nt.add((name, tuple(size), defo, tuple(sorted(kw.items())), 'used-then-deformed'))
            if fails:
                viol.append(dict(obligation='C01.bounded.history[%s]' % name, input=dict(inp, history='used, then deformed in place'), detail='; '.join('%s: %s' % f for f in fails[:3])))
    # one replay file per class, but every distinct (class, known/unknown) still reported: keep first unknown per class
    from pyvc.runner import known_match
    out, seen = [], set()
    for v in viol:
        key = (v['obligation'], known_match(PROPERTY, v['obligation'], v['input']) is not None)
        if key not in seen:
            seen.add(key); out.append(v)
    return dict(bound='every class, supported sizes with L <= %d and n <= %d (at most %d sizes per class, seeded choice), every deformation name and axis, each deformed case also on an object used before being deformed; '
                      'rank(H)=n-k by independent GF(2) elimination; %d s budget' % (maxL, maxn, per, budget),
                evaluations=ev, distinct_nontrivial=len(nt),
                rule='real objects through the coordinate API (dict operators); non-trivial iff deformed or non-cubic',
                samples=samples, violations=out)
