"""C02 - parity-check matrix is the faithful image of the lattice definition.

Deductive (no bound): per class - coordinate lists have no duplicates, qubit and stabilizer coordinates are disjoint, every
support entry of get_stabilizer is a qubit and supports are never empty (symbolic lattice size);
for ANY code (qubit index an arbitrary bijection onto [0,n), operator an arbitrary map into {X,Y,Z}) - StabilizerCode.to_bsf and
from_bsf satisfy their pointwise contracts and are mutually inverse (quantified loop invariants over a ghost 'visited' set; the
loop bodies are taken from the real AST by symbolic execution of one generic iteration); hash-order independence (taint scan).
H assembly (C02.H.*: dictionary counting loop, dok copy, csr, data mod 2) and the CSS clauses (C02.css.*: x_indices / z_indices are "row has an entry in the
X / Z column block", is_css, Hx / Hz are exactly the mask-selected blocks and raise iff not CSS, extract_*_syndrome, the partition lemma and the sector
lemma) for ANY code over an uninterpreted parity-check matrix.
Bounded: H rows = to_bsf(get_stabilizer) mod 2, CSS masks/blocks, syndrome sector dependence, random user-defined subclasses,
indices identical across PYTHONHASHSEED values.
"""
import ast, itertools, os, random, subprocess, sys, time, json
import numpy as np
import z3
from contracts.lattices import *
from contracts.common import result, cover
from pyvc.source import Module, FuncSrc, Unsupported, get_class
from pyvc.symex import X, St
from pyvc.values import T, E, D, M, Obj, Opaque, NONE, Z, B, eq, conc, Alt, Arr, ite
from pyvc.solve import check, minimise
from pyvc.lattice import Acc
from pyvc.runner import Ob

PROPERTY = 'C02'
LEVEL = 'proof'
EXPLANATION = ('lattice clauses as linear-integer VCs with symbolic L (builder summaries); to_bsf / from_bsf by quantified inductive invariants whose step '
               'relation is the symbolically executed loop body of the real method; H assembly, CSS clauses and hash-order independence as run-time contracts')
ASSUMPTIONS = [
    'R-builder summaries of the coordinate lists',
    'any-code model for to_bsf/from_bsf: locations are an uninterpreted sort, qubit_index/qubit_coordinates are mutually inverse between locations carrying a qubit and [0,n) '
    '(this is what the `qubit_index` property constructs from a duplicate-free coordinate list: C02.distinct)',
    'A-numpy: np.zeros gives zeros; a[i] += 1 updates one element; nonzero() lists exactly the non-zero column indices (their order no longer matters: from_bsf sorts them)',
    'dict semantics: a store overwrites, keys() iterates each key once (insertion order irrelevant for the to_bsf result)',
    'Python ints / numpy uint do not overflow for counts <= 1 per position (each key visited once)',
    'A-scipy (CSS clauses): csr.getnnz(1)[i] > 0 <=> row i of that block has a non-zero entry (stored entries are all ones by C02.H.final, so stored = non-zero); '
    'a[mask] keeps, in order, exactly the rows whose mask entry is True; column slicing [:, :n] / [:, n:] is the sub-block',
    'congruence of finite sums (sector lemma): equal summands give equal symplectic products',
]
TRUSTED_BASE = ['z3 5.1.0 (LIA, arrays, quantifiers via MBQI/E-matching)', 'pyvc executor + R-builder']
SC = 'panqec/codes/base/_stabilizer_code.py'
ALL = list(CLASSES)
NO_Q = ['Color488Code', 'Color666PlanarCode', 'Color666ToricCode', 'Color3DCode', 'HollowRhombicCode']    # Q / S defined through supports: bounded


def _gens(acc, ar):
    return [g for g in acc.gens if isinstance(g.elem, T) and len(g.elem.items) == ar]


def ob_distinct(cls, which, timeout=90):
    """two different iterations of the builder loops never append the same tuple"""
    lat, pre = lattice(cls)
    acc = lat.acc(which)
    funcs = funcs_of(lat, [which])
    if acc.dedup:
        return dict(verdict='discharged', model=None, backend='pyvc-structural', seconds=0, kind='state',
                    detail='list is built under `if c not in list` (de-duplicated by construction)',
                    functions=[dict(function=f.ref, sha256_16=f.sha) for f in funcs], transparent=sorted(lat.transparent))
    t0 = time.time()
    for ar in acc.arities():
        gs = _gens(acc, ar)
        for i, g1 in enumerate(gs):
            for j, g2 in enumerate(gs):
                if j < i:
                    continue
                b2 = [z3.Int('%s_c' % v) for v in g2.bound]
                sub = lambda f: z3.substitute(f, *zip(g2.bound, b2)) if g2.bound else f      # noqa
                same = z3.And([Z(a) == sub(Z(b)) for a, b in zip(g1.elem.items, g2.elem.items)])
                goal = [pre, g1.cond, sub(g2.cond), same]
                if i == j:
                    if not g1.bound:
                        continue
                    goal.append(z3.Or([a != b for a, b in zip(g1.bound, b2)]))
                r = check(goal, timeout)
                if r['verdict'] != 'unsat':
                    if r['verdict'] == 'sat':
                        mdl = minimise(goal, [z3.Sum(list(lat.L))], timeout_s=10)
                        if mdl is not None:
                            r['model'] = dict({str(v): str(mdl.eval(v, model_completion=True)) for v in lat.L},
                                              dup=str([mdl.eval(Z(a), model_completion=True) for a in g1.elem.items]))
                    out = result('distinct', r, funcs, None, goal, cls=cls, which=which, detail='append sites %d and %d' % (i, j))
                    out['transparent'] = sorted(lat.transparent)
                    return out
    return dict(verdict='discharged', model=None, backend='z3-' + z3.get_version_string(), seconds=time.time() - t0,
                detail='%d append sites, all pairs disjoint' % len(acc.gens), cls=cls,
                functions=[dict(function=f.ref, sha256_16=f.sha) for f in funcs], transparent=sorted(lat.transparent))


def ob_disjoint(cls, timeout=90):
    lat, pre = lattice(cls)
    funcs = funcs_of(lat, ['get_qubit_coordinates', 'get_stabilizer_coordinates'])
    qa, sa = lat.qubit_arities(), lat.stab_arities()
    common = sorted(set(qa) & set(sa))
    r = None
    for ar in common:
        x_ = [z3.Int('x%d' % i) for i in range(ar)]
        goal = [pre, lat.Q_hyp(x_), lat.S_hyp(x_)]
        r = check(goal, timeout)
        if r['verdict'] != 'unsat':
            if r['verdict'] == 'sat':
                r['model'] = {k: v for k, v in r['model'].items() if k.startswith(('L', 'x'))}
            out = result('disjoint', r, funcs, None, goal, cls=cls); out['transparent'] = sorted(lat.transparent)
            return out
    if r is None:
        return dict(verdict='discharged', model=None, backend='pyvc-structural', seconds=0, detail='qubit and stabilizer tuples have different arities %s/%s' % (qa, sa),
                    functions=[dict(function=f.ref, sha256_16=f.sha) for f in funcs], transparent=sorted(lat.transparent))
    out = result('disjoint', r, funcs, None, goal, cls=cls); out['transparent'] = sorted(lat.transparent)
    return out


def ob_support(cls, timeout=120):
    """for S(a): every effective entry key of get_stabilizer(a) is a qubit; at least one entry is present"""
    lat, pre = lattice(cls)
    funcs = funcs_of(lat, ['get_stabilizer', 'get_qubit_coordinates', 'get_stabilizer_coordinates', 'stabilizer_type'])
    t0 = time.time()
    for ar in lat.stab_arities():
        a, m, st = sym_stab(lat, 'a', ar)
        hyp = [pre, lat.S_hyp(a)]
        notq = [z3.And(g, z3.Not(lat.Q(k.items))) for g, k, v in m.entries if v is not None]
        empty = z3.Not(z3.Or([g for g, k, v in m.entries if v is not None] + [z3.BoolVal(False)]))
        goal = hyp + [z3.Or(notq + [empty])]
        r = check(goal, timeout)
        if r['verdict'] != 'unsat':
            if r['verdict'] == 'sat':
                mdl = minimise(goal, [z3.Sum(list(lat.L))] + a, timeout_s=15)
                if mdl is not None:
                    r['model'] = {str(v): str(mdl.eval(v, model_completion=True)) for v in list(lat.L) + a}
            out = result('support', r, funcs, None, goal, cls=cls, ar=ar); out['transparent'] = sorted(lat.transparent)
            return out
    return dict(verdict='discharged', model=None, backend='z3-' + z3.get_version_string(), seconds=time.time() - t0, cls=cls,
                detail='arities %s' % lat.stab_arities(), functions=[dict(function=f.ref, sha256_16=f.sha) for f in funcs], transparent=sorted(lat.transparent))


# ------------------------------------------------------------------------------------------ any-code model for to_bsf / from_bsf
Loc = z3.DeclareSort('Loc')
qidx = z3.Function('qidx', Loc, z3.IntSort())
coord = z3.Function('coord', z3.IntSort(), Loc)
n_ = z3.Int('n')


class LocV:
    def __init__(self, t):
        self.t = t


def _bij(op):
    l, j = z3.Const('l', Loc), z3.Int('j')
    return z3.And(z3.ForAll([l], z3.Implies(op(l) != 0, z3.And(qidx(l) >= 0, qidx(l) < n_, coord(qidx(l)) == l))),
                  z3.ForAll([j], z3.Implies(z3.And(j >= 0, j < n_), qidx(coord(j)) == j)))


def _pauli_E(code_term):
    return E([(code_term == k, 'IXYZ'[k]) for k in (1, 2, 3)])


def sym_to_bsf_body():
    """one generic iteration of the loop in StabilizerCode.to_bsf: (pre-state array, post-state Arr, key, executor)"""
    m = Module.load(SC)
    cls = m.classes['StabilizerCode']
    f = cls.methods['to_bsf']
    op = z3.Function('op', Loc, z3.IntSort())            # 0 absent, 1 X, 2 Y, 3 Z
    loc = z3.Const('loc', Loc)
    A0 = z3.Array('bsf0', z3.IntSort(), z3.IntSort())
    state = {}

    class OpMap:
        def acc_attr(s_, x, st, name):
            if name in ('keys', 'items'):
                return ('accmethod', s_, name)
            raise Unsupported('operator.%s' % name)

        def acc_loop(s_, x, st, s, env):
            # generic iteration: the array built so far is replaced by an arbitrary array A0 (the invariant describes it)
            state['init'] = env['bsf_operator']
            state['loops'] = state.get('loops', 0) + 1
            env['bsf_operator'] = Arr(state['init'].shape, lambda j: A0[Z(j)], 'int', 'fresh')
            if getattr(s_, 'iter_kind', 'keys') == 'items':
                x.assign(s.target, T([LocV(loc), _pauli_E(op(loc))]), env, st)
            elif isinstance(s.target, ast.Name):
                env[s.target.id] = LocV(loc)
            else:
                raise Unsupported('loop target of the operator loop')
            x.block(s.body, env, st)
            state['post'] = env['bsf_operator']

        def acc_index(s_, x, st, key):
            return _pauli_E(op(key.t))

    class QIdx:
        def acc_index(s_, x, st, key):
            return qidx(key.t)
    selfo = Obj(cls, {'n': n_, 'qubit_index': QIdx()}, 'code')
    x = X(m, {})
    st, ret = x.run(f, [OpMap()], {}, selfo)
    if state.get('loops') != 1 or ret is not state['post']:
        raise Unsupported('to_bsf is not: init; one loop over operator.keys(); return the array')
    return dict(f=f, x=x, st=st, op=op, loc=loc, A0=A0, init=state['init'], post=state['post'])


def _inv_to_bsf(arr_f, Vf, op):
    j = z3.Int('j')
    c = coord(j)
    return z3.ForAll([j], z3.Implies(z3.And(j >= 0, j < n_), z3.And(
        Z(arr_f(j)) == z3.If(z3.And(Vf(c), z3.Or(op(c) == 1, op(c) == 2)), 1, 0),
        Z(arr_f(n_ + j)) == z3.If(z3.And(Vf(c), z3.Or(op(c) == 2, op(c) == 3)), 1, 0))))


def ob_to_bsf(which, timeout=60):
    s = sym_to_bsf_body()
    op, loc, A0 = s['op'], s['loc'], s['A0']
    V = z3.Function('V', Loc, z3.BoolSort()); V2 = z3.Function('V2', Loc, z3.BoolSort())
    l = z3.Const('l', Loc)
    dom = z3.ForAll([l], z3.And(op(l) >= 0, op(l) <= 3))
    base = [n_ >= 0, _bij(op), dom]
    if which == 'init':
        # zeros satisfy the invariant for the empty visited set; shape is 2n
        shape_ok = z3.BoolVal(len(s['init'].shape) == 1) if True else None
        goal = base + [z3.ForAll([l], z3.Not(V(l))), z3.Or(z3.Not(_inv_to_bsf(s['init'].f, V, op)), Z(s['init'].shape[0]) != 2 * n_)]
    elif which == 'step':
        goal = base + [_inv_to_bsf(lambda j: A0[j], V, op), op(loc) != 0, z3.Not(V(loc)),
                       z3.ForAll([l], V2(l) == z3.Or(V(l), l == loc)),
                       z3.Or(z3.Not(_inv_to_bsf(s['post'].f, V2, op)), z3.Or([c for c, _, _ in s['st'].raises] + [z3.BoolVal(False)]))]
    elif which == 'final':
        # all keys visited  =>  the documented image: x_j = [op(q_j) in {X,Y}], z_j = [op(q_j) in {Y,Z}]; binary
        j = z3.Int('jj')
        goal = base + [_inv_to_bsf(lambda k: A0[k], V, op), z3.ForAll([l], V(l) == (op(l) != 0)), j >= 0, j < n_,
                       z3.Or(A0[j] != z3.If(z3.Or(op(coord(j)) == 1, op(coord(j)) == 2), 1, 0),
                             A0[n_ + j] != z3.If(z3.Or(op(coord(j)) == 2, op(coord(j)) == 3), 1, 0))]
    r = check(goal, timeout)
    return result('to_bsf.' + which, r, [s['f']], s['x'], goal, kind_='inductive')


def sym_from_bsf_body():
    """generic iteration of the loop in StabilizerCode.from_bsf over the ascending non-zero columns (dense 1-D input)"""
    m = Module.load(SC)
    cls = m.classes['StabilizerCode']
    f = cls.methods['from_bsf']
    opv = z3.Function('opv', Loc, z3.IntSort())          # operator built so far (0 absent)
    col = z3.Int('col')
    state = {}

    class FMap:
        """functional model of a dict Loc -> Pauli"""
        def __init__(s_, fn):
            s_.fn = fn

        def acc_attr(s_, x, st, name):
            if name == 'keys':
                return ('accmethod', s_, 'keys')
            raise Unsupported('dict.%s' % name)

        def acc_contains(s_, x, st, item):
            return s_.fn(item.t) != 0

        def acc_store(s_, x, st, key, val):
            code = z3.IntVal(0)
            v = val if isinstance(val, E) else E.const(val)
            term = z3.IntVal(-1)
            for c, ch in reversed(v.alts):
                term = z3.If(c, 'IXYZ'.index(ch), term)
            old, live = s_.fn, st.live
            s_.fn = lambda l, old=old, k=key.t, term=term, live=live: z3.If(z3.And(live, l == k), term, old(l))

    class Cols:
        def acc_loop(s_, x, st, s, env):
            state['loops'] = state.get('loops', 0) + 1
            state['init'] = env['operator']
            fm = FMap(lambda l: opv(l))
            env['operator'] = fm
            env[s.target.id] = col
            x.block(s.body, env, st)
            state['post'] = env['operator']

    class Coords:
        def acc_index(s_, x, st, key):
            return LocV(coord(Z(key)))
    bsf = z3.Function('bsf', z3.IntSort(), z3.IntSort())
    arr = Arr((2 * n_,), lambda j: bsf(Z(j)), 'int', 'param:bsf_operator')
    selfo = Obj(cls, {'n': n_, 'qubit_coordinates': Coords()}, 'code')
    def sorted_(x, st, a, k):
        # sorted(<non-zero columns>) IS the ascending iteration the invariant speaks about; recorded so that the evidence can say whether the ascending order is
        # a fact of the code or the assumption about canonical CSR storage
        if len(a) == 1 and isinstance(a[0], Cols) and not k:
            state['sorted'] = True
            return a[0]
        raise Unsupported('sorted of something other than the non-zero columns')
    intr = {'new:dict': lambda x, st: FMap(lambda l: z3.IntVal(0)),
            'arr.nonzero': lambda x, st, a, args, kw: T([Cols()]), 'sorted': sorted_}
    x = X(m, intr)
    st, ret = x.run(f, [arr], {}, selfo)
    if state.get('loops') != 1 or ret is not state['post']:
        raise Unsupported('from_bsf is not: operator = dict(); one loop over the non-zero columns; return operator')
    return dict(f=f, x=x, st=st, opv=opv, col=col, bsf=bsf, init=state['init'], post=state['post'], ascending_by_code=bool(state.get('sorted')))


def _inv_from_bsf(fn, cur, bsf):
    """operator built from the non-zero columns < cur:  coord(j) -> X if only x-bit seen, Z if only z-bit, Y if both"""
    j = z3.Int('j')
    xs = z3.And(bsf(j) != 0, j < cur)
    zs = z3.And(bsf(n_ + j) != 0, n_ + j < cur)
    want = z3.If(z3.And(xs, zs), 2, z3.If(xs, 1, z3.If(zs, 3, 0)))
    return z3.ForAll([j], z3.Implies(z3.And(j >= 0, j < n_), fn(coord(j)) == want))


def ob_from_bsf(which, timeout=60):
    s = sym_from_bsf_body()
    opv, col, bsf = s['opv'], s['col'], s['bsf']
    j = z3.Int('j'); l = z3.Const('l', Loc)
    inj = z3.ForAll([j], z3.Implies(z3.And(j >= 0, j < n_), qidx(coord(j)) == j))
    onto = z3.ForAll([l], z3.Implies(opv(l) != 0, z3.And(qidx(l) >= 0, qidx(l) < n_, coord(qidx(l)) == l)))
    base = [n_ >= 0, inj]
    cur = z3.Int('cur')
    if which == 'init':
        goal = base + [z3.Not(_inv_from_bsf(s['init'].fn, z3.IntVal(0), bsf))]
    elif which == 'step':
        # ascending iteration: col is a non-zero column, every non-zero column < col has been processed (cur = col), next cur = col+1
        goal = base + [onto, _inv_from_bsf(lambda t: opv(t), col, bsf), col >= 0, col < 2 * n_, bsf(col) != 0,
                       z3.Or(z3.Not(_inv_from_bsf(s['post'].fn, col + 1, bsf)), z3.Or([c for c, _, _ in s['st'].raises] + [z3.BoolVal(False)]))]
    elif which == 'final':
        # all columns processed (cur = 2n) and input binary => from_bsf inverts to_bsf: key present iff a bit is set; Pauli per bit pattern
        jj = z3.Int('jj')
        goal = base + [_inv_from_bsf(lambda t: opv(t), 2 * n_, bsf), jj >= 0, jj < n_,
                       opv(coord(jj)) != z3.If(z3.And(bsf(jj) != 0, bsf(n_ + jj) != 0), 2, z3.If(bsf(jj) != 0, 1, z3.If(bsf(n_ + jj) != 0, 3, 0)))]
    r = check(goal, timeout)
    return result('from_bsf.' + which, r, [s['f']], s['x'], goal,
                  detail='columns visited in ascending order: ' + ('by the code itself (sorted)' if s['ascending_by_code'] else 'ASSUMED (canonical CSR / dense nonzero())'))


def ob_roundtrip(timeout=30):
    """lemma over the two contracts: from_bsf(to_bsf(op)) = op on qubit locations and to_bsf(from_bsf(b)) = b for binary b"""
    op = z3.Function('op', Loc, z3.IntSort()); j = z3.Int('j')
    xb = z3.If(z3.Or(op(coord(j)) == 1, op(coord(j)) == 2), 1, 0); zb = z3.If(z3.Or(op(coord(j)) == 2, op(coord(j)) == 3), 1, 0)
    back = z3.If(z3.And(xb != 0, zb != 0), 2, z3.If(xb != 0, 1, z3.If(zb != 0, 3, 0)))
    g1 = [op(coord(j)) >= 0, op(coord(j)) <= 3, back != op(coord(j))]
    bx, bz = z3.Ints('bx bz')
    p = z3.If(z3.And(bx != 0, bz != 0), 2, z3.If(bx != 0, 1, z3.If(bz != 0, 3, 0)))
    g2 = [z3.Or(bx == 0, bx == 1), z3.Or(bz == 0, bz == 1),
          z3.Or(z3.If(z3.Or(p == 1, p == 2), 1, 0) != bx, z3.If(z3.Or(p == 2, p == 3), 1, 0) != bz)]
    r1, r2 = check(g1, timeout), check(g2, timeout)
    m = Module.load(SC); cls = m.classes['StabilizerCode']
    r = r1 if r1['verdict'] != 'unsat' else r2
    return result('roundtrip', r, [cls.methods['to_bsf'], cls.methods['from_bsf']], None, g1 + g2)


def ob_order(timeout=10):
    """taint scan: no set/frozenset iteration, hash(), id() or list(set(..)) flows into coordinate lists, index dicts, logical lists
    or the parity-check matrix.  Allowed and reported: stabilizer_types (not used for indexing)."""
    t0 = time.time()
    bad, noted, funcs = [], [], []
    files = [SC] + [p for p, _ in CLASSES.values()]
    index_funcs = {'get_qubit_coordinates', 'get_stabilizer_coordinates', 'qubit_coordinates', 'stabilizer_coordinates', 'qubit_index',
                   'stabilizer_index', 'get_logicals_x', 'get_logicals_z', 'logicals_x', 'logicals_z', 'stabilizer_matrix', 'get_stabilizer',
                   'to_bsf', 'from_bsf', 'x_indices', 'z_indices', 'Hx', 'Hz', 'type_index', 'stabilizer_type', '_deform_operator', 'deform'}
    for rel in files:
        m = Module.load(rel)
        for cname, c in m.classes.items():
            for fname, f in c.methods.items():
                def is_set(e):
                    return isinstance(e, (ast.Set, ast.SetComp)) or (isinstance(e, ast.Call) and ast.unparse(e.func) in ('set', 'frozenset'))
                for node in ast.walk(f.node):
                    hit = None
                    # order-revealing uses only: iterating a set, turning it into a sequence, hash(), id()   (membership tests are order-free)
                    if isinstance(node, ast.Call):
                        fn = ast.unparse(node.func)
                        if fn in ('hash', 'id'):
                            hit = fn
                        if fn in ('list', 'tuple', 'enumerate', 'np.array', 'iter', 'next') and node.args and is_set(node.args[0]):
                            hit = '%s(set(...))' % fn
                    if isinstance(node, (ast.For, ast.comprehension)) and is_set(node.iter):
                        hit = 'iteration over a set'
                    if hit:
                        (bad if fname in index_funcs else noted).append('%s.%s line %d: %s' % (cname, fname, node.lineno, hit))
                if fname in index_funcs:
                    funcs.append(f)
    return dict(verdict='refuted' if bad else 'discharged', model=None, backend='pyvc-taint', seconds=time.time() - t0, kind='state',
                detail=('hash-ordered construct in an indexing function: %s' % bad) if bad else 'no hash-ordered construct in %d indexing functions; elsewhere (reported, not flowing into indices): %s' % (len(funcs), noted),
                functions=[dict(function=f.ref, sha256_16=f.sha) for f in funcs[:40]], transparent=[])


# ------------------------------------------------------------------------------------------------ CSS clauses (any code)
def _css_setup():
    INT = z3.IntSort()
    m = Module.load(SC); c = m.classes['StabilizerCode']
    Mr, Nq = z3.Int('m_rows'), z3.Int('n_q')
    Hf = z3.Function('Hcss', INT, INT, INT)
    H = Arr((Mr, 2 * Nq), lambda r, c_: Hf(Z(r), Z(c_)), 'uint8', 'cache:stabilizer_matrix', True)
    rec = dict(nnz=[], sel=[])

    def getnnz(x_, st, a, args, kwargs):
        # A-scipy: getnnz(axis=1)[i] = number of stored entries of row i; = number of NON-ZERO entries because the assembled matrix stores only ones (C02.H.final)
        ax = conc(args[0]) if args else conc(kwargs.get('axis'))
        if ax != 1:
            raise Unsupported('getnnz(axis=%s)' % ax)
        F = z3.Function('NNZ_%d' % len(rec['nnz']), INT, INT)
        rec['nnz'].append((F, a))
        return Arr((a.shape[0],), lambda i: F(Z(i)), 'int', 'fresh')

    def adv(x_, st, a, specs):
        # A-numpy/A-scipy: a[mask] keeps, in order, exactly the rows whose mask entry is True
        if specs[0][0] != 'mask' or any(s_[0] != 'slice' or conc(s_[1]) != 0 or s_[2] is not None for s_ in specs[1:]):
            raise Unsupported('unexpected advanced index')
        cnt = z3.Int('rows_sel_%d' % len(rec['sel']))
        out = Arr((cnt,) + tuple(a.shape[1:]), lambda *i: z3.Function('SEL_%d' % len(rec['sel']), *([INT] * (a.rank + 1)))(*[Z(t) for t in i]), a.dtype, 'fresh', a.sparse)
        rec['sel'].append((a, specs[0][1], out))
        return out
    return m, c, Mr, Nq, Hf, H, rec, {'arr.getnnz': getnnz, 'arr:advanced_index': adv}


def ob_css(which, timeout=60):
    m, c, Mr, Nq, Hf, H, rec, intr = _css_setup()
    INT = z3.IntSort()
    i, col = z3.Ints('i c')
    pre = [Mr >= 1, Nq >= 1, i >= 0, i < Mr, col >= 0, col < Nq]
    XM = z3.Function('xmask', INT, z3.BoolSort()); ZM = z3.Function('zmask', INT, z3.BoolSort())
    xm = Arr((Mr,), lambda r: XM(Z(r)), 'bool', 'cache:x_indices'); zm = Arr((Mr,), lambda r: ZM(Z(r)), 'bool', 'cache:z_indices')
    if which in ('x_indices', 'z_indices'):
        f = c.methods[which]
        off = 0 if which == 'x_indices' else Nq
        selfo = Obj(c, {'stabilizer_matrix': H, 'n': Nq, '_' + which: NONE}, 'code')
        x = X(m, intr)
        st, ret = x.run(f, [], {}, selfo)
        if isinstance(ret, Alt):
            ret = x._collapse(ret)
        stored = selfo.fields.get('_' + which)
        if len(rec['nnz']) != 1 or not isinstance(ret, Arr) or ret.rank != 1:
            return dict(verdict='refuted', model=None, backend='pyvc-symex', seconds=0, kind='plain', detail='%s is not one getnnz(1) > 0 over a column block of the parity-check matrix' % which,
                        functions=[dict(function=f.ref, sha256_16=f.sha)], transparent=sorted(x.transparent))
        F, a = rec['nnz'][0]
        bad = z3.Or(Z(a.shape[0]) != Mr, Z(a.shape[1]) != Nq, Z(a.f(i, col)) != Hf(i, off + col), B(ret.f(i)) != (F(i) > 0), Z(ret.shape[0]) != Mr,
                    z3.BoolVal(stored is not ret and not (isinstance(stored, Arr) and stored.f is ret.f)))
        goal = pre + [bad]
        return result('css.' + which, check(goal, timeout), [f], x, goal,
                      detail='%s[i] <=> row i has a stored (= non-zero) entry in columns [%s, %s+n); the mask is cached as computed' % (which, '0' if which == 'x_indices' else 'n', '0' if which == 'x_indices' else 'n'))
    if which == 'is_css':
        f = c.methods['is_css']
        selfo = Obj(c, {'x_indices': xm, 'z_indices': zm, '_is_css': NONE}, 'code')
        x = X(m, intr)
        st, ret = x.run(f, [], {}, selfo)
        r_ = z3.Int('r')
        want = z3.Not(z3.Exists([r_], z3.And(r_ >= 0, r_ < Mr, XM(r_), ZM(r_))))
        goal = [Mr >= 0, B(ret) != want]
        return result('css.is_css', check(goal, timeout), [f], x, goal, detail='is_css <=> no row has both an X block entry and a Z block entry')
    if which in ('Hx', 'Hz'):
        f = c.methods[which]
        off = 0 if which == 'Hx' else Nq
        mask = xm if which == 'Hx' else zm
        css = z3.Bool('is_css')
        empty = Arr((0, 0), lambda r, c_: 0, 'uint8', 'fresh', True)
        selfo = Obj(c, {'stabilizer_matrix': H, 'n': Nq, 'x_indices': xm, 'z_indices': zm, 'is_css': css, '_' + which: empty}, 'code')
        x = X(m, intr)
        st, ret = x.run(f, [], {}, selfo)
        if isinstance(ret, Alt):
            ret = x._collapse(ret)
        problems = []
        if len(rec['sel']) != 1:
            problems.append('%s is not one boolean-mask row selection' % which)
        else:
            a, mk, out = rec['sel'][0]
            if mk is not mask:
                problems.append('%s selects rows with %s' % (which, 'the other mask' if mk in (xm, zm) else 'something that is not the %s row mask' % which[1].lower()))
            if not (isinstance(ret, Arr) and ret.rank == 2):
                problems.append('%s does not return a matrix' % which)
        if problems:
            return dict(verdict='refuted', model=dict(problems=problems), backend='pyvc-symex', seconds=0, kind='plain', detail='; '.join(problems),
                        functions=[dict(function=f.ref, sha256_16=f.sha)], transparent=sorted(x.transparent))
        raised = z3.Or([c_ for c_, _, _ in st.raises] + [z3.BoolVal(False)])
        i2 = z3.Int('i2')
        bad = z3.Or(raised != z3.Not(css), z3.And(css, z3.Or(Z(a.shape[0]) != Mr, Z(a.shape[1]) != Nq, Z(a.f(i, col)) != Hf(i, off + col),
                                                               Z(ret.shape[0]) != Z(out.shape[0]), Z(ret.shape[1]) != Nq, Z(ret.f(i2, col)) != Z(out.f(i2, col)))))
        goal = pre + [i2 >= 0, i2 < Z(out.shape[0]), bad]
        return result('css.' + which, check(goal, timeout), [f], x, goal,
                      detail='%s raises iff the code is not CSS; otherwise it is the rows of H[:, %s:%s] selected by %s_indices' % (which, '0' if which == 'Hx' else 'n', 'n' if which == 'Hx' else '2n', which[1].lower()))
    if which in ('extract_x_syndrome', 'extract_z_syndrome'):
        f = c.methods[which]
        mask = xm if 'x_' in which else zm
        syn = Arr((Mr,), lambda r: z3.Function('syn', INT, INT)(Z(r)), 'uint8', 'param:syndrome')
        selfo = Obj(c, {'x_indices': xm, 'z_indices': zm}, 'code')
        x = X(m, intr)
        st, ret = x.run(f, [syn], {}, selfo)
        ok = len(rec['sel']) == 1 and rec['sel'][0][0] is syn and rec['sel'][0][1] is mask and (ret is rec['sel'][0][2])
        return dict(verdict='discharged' if ok else 'refuted', model=None, backend='pyvc-symex', seconds=0, kind='plain',
                    detail=('%s(s) = s[%s_indices]' % (which, which[8])) if ok else '%s is not the selection of the syndrome by its own row mask' % which,
                    functions=[dict(function=f.ref, sha256_16=f.sha)], transparent=sorted(x.transparent))
    if which == 'partition':
        # lemma over the contracts above + C02.support (no empty row): on a CSS code every row is in exactly one of the two masks
        NX = z3.Function('NNZx', INT, INT); NZ = z3.Function('NNZz', INT, INT); w = z3.Function('w', INT, INT)
        cc = z3.Int('cc')
        ax = [z3.ForAll([i], (NX(i) > 0) == z3.Exists([cc], z3.And(cc >= 0, cc < Nq, Hf(i, cc) != 0))),
              z3.ForAll([i], (NZ(i) > 0) == z3.Exists([cc], z3.And(cc >= 0, cc < Nq, Hf(i, Nq + cc) != 0))),
              z3.ForAll([i], XM(i) == (NX(i) > 0)), z3.ForAll([i], ZM(i) == (NZ(i) > 0)),
              z3.ForAll([i], z3.Implies(z3.And(i >= 0, i < Mr), z3.And(w(i) >= 0, w(i) < 2 * Nq, Hf(i, w(i)) != 0))),        # C02.support + C02.H.final
              z3.Not(z3.Exists([i], z3.And(i >= 0, i < Mr, XM(i), ZM(i))))]                                                  # is_css
        r0 = z3.Int('r0')
        goal = [Nq >= 1, Mr >= 1, r0 >= 0, r0 < Mr] + ax + [XM(r0) == ZM(r0)]
        f = c.methods['is_css']
        return result('css.partition', check(goal, timeout), [f, c.methods['x_indices'], c.methods['z_indices']], None, goal,
                      detail='CSS and no empty row => x_indices xor z_indices on every row')
    if which == 'sector':
        # lemma: on a row of the X mask of a CSS code (Z block of the row is zero) every summand of the symplectic form reads only the Z half of the error
        ef = z3.Function('e1', INT, INT); eg = z3.Function('e2', INT, INT); cc = z3.Int('cc')
        r0 = z3.Int('r0')
        zero_z = z3.ForAll([cc], z3.Implies(z3.And(cc >= 0, cc < Nq), Hf(r0, Nq + cc) == 0))
        same_z = z3.ForAll([cc], z3.Implies(z3.And(cc >= 0, cc < Nq), ef(Nq + cc) == eg(Nq + cc)))
        summand = lambda e_: Hf(r0, col) * e_(Nq + col) + Hf(r0, Nq + col) * e_(col)      # noqa
        goal = [Nq >= 1, col >= 0, col < Nq, zero_z, same_z, summand(ef) != summand(eg)]
        f = c.methods['measure_syndrome']
        return result('css.sector', check(goal, timeout), [f], None, goal,
                      detail='row with zero Z block: summand k of <H_r, e> is H[r,k] e[n+k], so errors with equal Z halves give equal summands (hence equal sums: congruence of the finite sum)')
    raise Unsupported(which)


def obligations(tier):
    to = 120 if tier == 'quick' else 600
    obs = []
    for w in ('init', 'step', 'final'):
        obs.append(Ob('C02.to_bsf.' + w, ob_to_bsf, dict(which=w), timeout=60, kind='state'))
        obs.append(Ob('C02.from_bsf.' + w, ob_from_bsf, dict(which=w), timeout=60, kind='state'))
    obs.append(Ob('C02.roundtrip', ob_roundtrip, {}, timeout=30))
    for w in ('inner.init', 'inner.step', 'copy', 'final'):
        obs.append(Ob('C02.H.' + w, ob_H, dict(which=w), timeout=60, kind='state'))
    obs.append(Ob('C02.order', ob_order, {}, timeout=30, kind='state'))
    for w in ('x_indices', 'z_indices', 'is_css', 'Hx', 'Hz', 'extract_x_syndrome', 'extract_z_syndrome', 'partition', 'sector'):
        obs.append(Ob('C02.css.' + w, ob_css, dict(which=w), timeout=60))
    for cls in ALL:
        for which in ('get_qubit_coordinates', 'get_stabilizer_coordinates'):
            if cls == 'HollowRhombicCode' and which == 'get_stabilizer_coordinates':
                continue        # summarised only as a superset (guards outside the subset): duplicates cannot be decided on it
            obs.append(Ob('C02.distinct[%s,%s]' % (cls, which.replace('get_', '').replace('_coordinates', '')), ob_distinct,
                          dict(cls=cls, which=which, timeout=to), timeout=to))
        if cls not in NO_Q:
            obs.append(Ob('C02.disjoint[%s]' % cls, ob_disjoint, dict(cls=cls, timeout=to), timeout=to))
            obs.append(Ob('C02.support[%s]' % cls, ob_support, dict(cls=cls, timeout=to), timeout=to))
    return obs


# ------------------------------------------------------------------------------------------------ native layer
from bounded import codes as BC    # noqa
from bounded.util import toint, deformation_variants, all_code_classes, small_sizes    # noqa


def native_matrix_contract(code, rnd):
    """run-time contract of C02 on one real code object (library or user-defined)"""
    qc, sc = code.qubit_coordinates, code.stabilizer_coordinates
    n = code.n
    if len(set(qc)) != len(qc):
        return 'duplicate qubit coordinates'
    if len(set(sc)) != len(sc):
        return 'duplicate stabilizer coordinates'
    if set(qc) & set(sc):
        return 'qubit and stabilizer coordinates overlap at %s' % sorted(set(qc) & set(sc))[:2]
    if [code.qubit_index[q] for q in qc] != list(range(n)) or [code.stabilizer_index[s_] for s_ in sc] != list(range(len(sc))):
        return 'index dictionaries are not the positions in the coordinate lists'
    H = code.stabilizer_matrix
    if H.shape != (len(sc), 2 * n):
        return 'H has shape %r, expected %r' % (H.shape, (len(sc), 2 * n))
    if H.nnz and not np.all(H.data == 1):
        return 'H stores values other than 1 (explicit zeros or counts)'
    Hd = H.toarray()
    for i, loc in enumerate(sc):
        op = code.get_stabilizer(loc)
        if not op:
            return 'stabilizer at %s has empty support' % (loc,)
        if any(k not in code.qubit_index for k in op):
            return 'stabilizer at %s acts outside the qubit set' % (loc,)
        want = np.zeros(2 * n, dtype=int)
        for k, p in op.items():
            if p in 'XY':
                want[code.qubit_index[k]] = 1
            if p in 'YZ':
                want[n + code.qubit_index[k]] = 1
        if not np.array_equal(Hd[i], want):
            return 'row %d of H is not the BSF image of get_stabilizer(%s)' % (i, loc)
        b = code.to_bsf(op)
        if not np.array_equal(np.asarray(b) % 2, want) or np.asarray(b).max() > 1:
            return 'to_bsf(get_stabilizer(%s)) is not the 0/1 image' % (loc,)
        if code.from_bsf(np.asarray(b)) != op:
            return 'from_bsf(to_bsf(op)) != op at %s' % (loc,)
        from scipy.sparse import csr_matrix
        if code.from_bsf(csr_matrix(np.asarray(b).reshape(1, -1))) != op:
            return 'from_bsf(sparse row) != op at %s' % (loc,)
    for _ in range(3):
        opd = {q: rnd.choice('XYZ') for q in rnd.sample(qc, min(len(qc), rnd.randint(0, 6)))}
        if code.from_bsf(code.to_bsf(opd)) != opd:
            return 'from_bsf(to_bsf(op)) != op for op=%r' % (opd,)
        # the same operator as a sparse row whose stored indices are in descending order (a valid sparse representation, e.g. a row assembled entry by entry)
        bb = np.asarray(code.to_bsf(opd)).astype('uint8') % 2
        nz = np.nonzero(bb)[0][::-1].astype(np.int32)
        if len(nz) >= 2:
            from scipy.sparse import csr_matrix as _csr
            row = _csr((np.ones(len(nz), dtype='uint8'), nz, np.array([0, len(nz)], dtype=np.int32)), shape=(1, 2 * n))
            if np.array_equal(row.toarray()[0], bb) and code.from_bsf(row) != opd:
                return 'from_bsf of a sparse row with stored indices in descending order gives %r for the operator %r' % (code.from_bsf(row), opd)
    xi, zi = np.asarray(code.x_indices), np.asarray(code.z_indices)
    hx, hz = Hd[:, :n].any(axis=1), Hd[:, n:].any(axis=1)
    if not (np.array_equal(xi, hx) and np.array_equal(zi, hz)):
        return 'x_indices/z_indices are not "row has an X / Z component"'
    if code.is_css != (not np.any(hx & hz)):
        return 'is_css wrong'
    if code.is_css:
        if np.any(xi & zi) or not np.all(xi | zi):
            return 'CSS row masks do not partition the rows'
        if not (np.array_equal(code.Hx.toarray(), Hd[xi][:, :n]) and np.array_equal(code.Hz.toarray(), Hd[zi][:, n:])):
            return 'Hx/Hz are not the X / Z blocks of the masked rows'
        for _ in range(3):
            e = np.array([rnd.randint(0, 1) for _ in range(2 * n)], dtype=np.uint8)
            e2 = e.copy(); e2[:n] = [rnd.randint(0, 1) for _ in range(n)]      # same Z part, different X part
            s1, s2 = code.measure_syndrome(e), code.measure_syndrome(e2)
            if not np.array_equal(code.extract_x_syndrome(s1), code.extract_x_syndrome(s2)):
                return 'X-part of the syndrome depends on the X-part of the error'
            e3 = e.copy(); e3[n:] = [rnd.randint(0, 1) for _ in range(n)]
            if not np.array_equal(code.extract_z_syndrome(s1), code.extract_z_syndrome(code.measure_syndrome(e3))):
                return 'Z-part of the syndrome depends on the Z-part of the error'
    return None


def random_user_code(rnd):
    """a user-defined subclass through the coordinate API: random coordinates, random X/Y/Z supports"""
    from panqec.codes import StabilizerCode
    nq, ns = rnd.randint(2, 9), rnd.randint(1, 6)
    pts = rnd.sample([(x, y) for x in range(6) for y in range(6)], nq + ns)
    qs, ss = pts[:nq], pts[nq:]
    sup = {s_: {q: rnd.choice('XYZ') for q in rnd.sample(qs, rnd.randint(1, min(4, nq)))} for s_ in ss}

    class U(StabilizerCode):
        dimension = 2
        label = 'user'

        def get_qubit_coordinates(self):
            return list(qs)

        def get_stabilizer_coordinates(self):
            return list(ss)

        def qubit_axis(self, location):
            return 'x'

        def stabilizer_type(self, location):
            return 'vertex'

        def get_stabilizer(self, location):
            return dict(sup[location])

        def get_logicals_x(self):
            return []

        def get_logicals_z(self):
            return []
    return U(1, 1)


HASH_SCRIPT = r'''
import sys, json, hashlib, warnings
warnings.filterwarnings('ignore')
import panqec.codes as C
out = {}
for name, size in json.loads(sys.argv[1]):
    c = getattr(C, name)(*size)
    h = hashlib.sha256()
    h.update(repr(c.qubit_coordinates).encode()); h.update(repr(c.stabilizer_coordinates).encode())
    h.update(repr(sorted(c.qubit_index.items())).encode())
    h.update(c.stabilizer_matrix.toarray().tobytes()); h.update(c.logicals_x.tobytes()); h.update(c.logicals_z.tobytes())
    out[name + str(size)] = h.hexdigest()
print(json.dumps(out))
'''


def native_hash_contract(cases):
    outs = []
    for seed in ('0', '1', '2', 'random'):
        env = dict(os.environ, PYTHONHASHSEED=seed, PYTHONWARNINGS='ignore')
        p = subprocess.run([sys.executable, '-c', HASH_SCRIPT, json.dumps(cases)], capture_output=True, text=True, env=env, timeout=600)
        if p.returncode != 0:
            return 'subprocess failed: %s' % p.stderr[-300:]
        outs.append(json.loads(p.stdout.strip().splitlines()[-1]))
    for k in outs[0]:
        if len({o[k] for o in outs}) != 1:
            return 'indexing of %s differs between PYTHONHASHSEED values' % k
    return None


def replay(r):
    m = r.get('model') or {}
    cls = r.get('cls')
    if cls is None or 'Lx' not in m:
        # any-code obligations: look for a failing real object
        rnd = random.Random(1)
        for _ in range(60):
            code = random_user_code(rnd)
            why = native_matrix_contract(code, rnd)
            if why:
                return dict(confirmed=True, input=dict(code='random user-defined subclass', qubits=code.qubit_coordinates, stabilizers=code.stabilizer_coordinates), detail=why)
        from panqec.codes import Toric2DCode
        why = native_matrix_contract(Toric2DCode(2, 3), rnd)
        if why:
            return dict(confirmed=True, input=dict(code='Toric2DCode', size=[2, 3]), detail=why)
        return dict(confirmed=None, detail='no failing real object found among 60 random user-defined codes')
    import panqec.codes as C
    dim = getattr(C, cls).dimension
    size = tuple(max(1, toint(m.get('L' + c), 2)) for c in 'xyz'[:dim])
    try:
        why = native_matrix_contract(BC.make(cls, size), random.Random(0))
    except Exception as e:      # noqa
        why = 'raises %s: %s' % (type(e).__name__, e)
    return dict(confirmed=bool(why), input=dict(code=cls, size=size), detail=why or 'contract holds natively on %s%s' % (cls, size))


def replay_file(data):
    inp = data.get('input') or {}
    if 'size' in inp:
        why = native_matrix_contract(BC.make(inp['code'], tuple(inp['size']), inp.get('deformation'), inp.get('kwargs')), random.Random(0))
        return dict(confirmed=bool(why), detail=why or 'holds', input=inp)
    return replay({'name': data.get('obligation', ''), 'model': {}})


def bounded(tier, seed):
    rnd = random.Random(seed)
    maxn, maxL, per = (300, 4, 3) if tier == 'quick' else (2000, 6, 10)
    ev, nt, viol, samples = 0, set(), [], []
    t0 = time.time()
    hcases = []
    for name, cls, size, defo, kw in BC.sweep(tier, maxn, maxL, rnd, per):
        if time.time() - t0 > (100 if tier == 'quick' else 1200):
            break
        inp = dict(code=name, size=list(size), deformation=defo, kwargs=kw)
        try:
            why = native_matrix_contract(BC.make(name, size, defo, kw), rnd)
            if why is None and defo:
                # the same contract on an object that was USED before being deformed in place (cached data computed beforehand)
                used = BC.make(name, size)
                for attr in ('stabilizer_matrix', 'x_indices', 'z_indices', 'is_css', 'logicals_x', 'd'):
                    getattr(used, attr)
                used.deform(defo, **kw)
                why = native_matrix_contract(used, rnd)
                if why:
                    why = 'after use-then-deform: ' + why
        except Exception as e:      # noqa
            why = 'raises %s: %s' % (type(e).__name__, e)
        ev += 1; nt.add((name, tuple(size), defo, tuple(sorted(kw.items()))))
        if defo is None and len(hcases) < (16 if tier == 'quick' else 48):
            hcases.append([name, list(size)])
        if why:
            viol.append(dict(obligation='C02.bounded[%s]' % name, input=inp, detail=why))
    nuser = 200 if tier == 'quick' else 2000
    for k in range(nuser):
        code = random_user_code(rnd)
        why = native_matrix_contract(code, rnd)
        ev += 1; nt.add(('user', k))
        if k < 2:
            samples.append(dict(code='user-defined', qubits=code.qubit_coordinates, stabilizers=code.stabilizer_coordinates, ok=why is None))
        if why:
            viol.append(dict(obligation='C02.bounded[user-defined]', input=dict(code='user', qubits=code.qubit_coordinates, stabilizers=code.stabilizer_coordinates,
                                                                               supports={str(s_): code.get_stabilizer(s_) for s_ in code.stabilizer_coordinates}), detail=why))
    why = native_hash_contract(hcases)
    ev += 1
    if why:
        viol.append(dict(obligation='C02.bounded[hashseed]', input=dict(cases=hcases), detail=why))
    samples.append(dict(hash_cases=hcases[:3], seeds=['0', '1', '2', 'random']))
    return dict(bound='library classes x sizes (L <= %d, n <= %d, <= %d per class) x deformations; %d random user-defined subclasses; %d classes hashed under 4 PYTHONHASHSEED values' % (maxL, maxn, per, nuser, len(hcases)),
                evaluations=ev, distinct_nontrivial=len(nt),
                rule='run-time contract native_matrix_contract on real objects (rows of H = BSF image, stored values 1, converters inverse incl. sparse rows, CSS masks/blocks, sector dependence); hash-seed subprocess comparison',
                samples=samples, violations=viol)


# ------------------------------------------------------------------------------------------ H assembly (any code): two-level invariant
def sym_H_assembly():
    """symbolic execution of the `stabilizer_matrix` property: one generic outer iteration (row i) containing one generic inner iteration (key loc);
    the dictionary built so far / the dok matrix are functional maps (r, c) -> int"""
    m = Module.load(SC)
    cls = m.classes['StabilizerCode']
    f = cls.methods['stabilizer_matrix']
    OP = z3.Function('oprow', z3.IntSort(), Loc, z3.IntSort())        # Pauli of generator i at location: 0 absent, 1 X, 2 Y, 3 Z
    Dpre = z3.Function('Dpre', z3.IntSort(), z3.IntSort(), z3.IntSort())      # entries counted so far (0 = key absent)
    i_row, loc = z3.Int('i_row'), z3.Const('hloc', Loc)
    m_rows = z3.Int('m_rows')
    state = {'dict': None, 'dok': None, 'loops': [], 'copy': None}

    class FMap2:
        def __init__(s_, fn):
            s_.fn = fn; s_.writes = 0

        def _key(s_, key):
            if not (isinstance(key, T) and len(key.items) == 2):
                raise Unsupported('dictionary key is not a pair')
            return Z(key.items[0]), Z(key.items[1])

        def acc_attr(s_, x, st, name):
            if name in ('keys', 'items', 'get'):
                return ('accmethod', s_, name)
            raise Unsupported('dict.%s' % name)

        def acc_call(s_, x, st, name, args, kwargs):
            if name == 'get' and len(args) == 2:        # absent keys are the zero entries of the functional map
                r, c = s_._key(args[0])
                return z3.If(s_.fn(r, c) != 0, s_.fn(r, c), Z(args[1]))
            raise Unsupported('dict.%s' % name)

        def acc_contains(s_, x, st, item):
            r, c = s_._key(item)
            return s_.fn(r, c) != 0

        def acc_index(s_, x, st, key):
            r, c = s_._key(key)
            return s_.fn(r, c)

        def acc_store(s_, x, st, key, val):
            r, c = s_._key(key)
            old, live, v = s_.fn, st.live, Z(val)
            s_.fn = lambda a, b, old=old, r=r, c=c, v=v, live=live: z3.If(z3.And(live, a == r, b == c), v, old(a, b))
            s_.writes += 1

        def acc_loop(s_, x, st, s, env):
            # `for key, value in sparse_dict.items(): M[key[0], key[1]] = value`  - generic present key
            kr, kc = z3.Int('key_r'), z3.Int('key_c')
            state['copy'] = dict(kr=kr, kc=kc, pre=env.get('self').fields['_stabilizer_matrix'], dict_fn=s_.fn)
            x.assign(s.target, T([T([kr, kc]), s_.fn(kr, kc)]), env, st)
            live0 = st.live
            st.live = z3.And(live0, s_.fn(kr, kc) != 0)
            x.block(s.body, env, st)
            st.live = live0
            state['copy']['post'] = env.get('self').fields['_stabilizer_matrix']

    class Dok(FMap2):
        def acc_attr(s_, x, st, name):
            if name == 'tocsr':
                return ('dokmethod', s_, name)
            raise Unsupported('dok.%s' % name)

    class OpMap:
        def __init__(s_, row):
            s_.row = row

        def acc_attr(s_, x, st, name):
            if name in ('keys', 'items'):
                return ('accmethod', s_, name)
            raise Unsupported('operator.%s' % name)

        def acc_loop(s_, x, st, s, env):
            # inner generic iteration: the dictionary built so far is an arbitrary Dpre (described by the invariant)
            d = env['sparse_dict']
            state['inner_init'] = d.fn
            d.fn = lambda a, b: Dpre(a, b)
            if getattr(s_, 'iter_kind', 'keys') == 'items':
                x.assign(s.target, T([LocV(loc), _pauli_E(OP(s_.row, loc))]), env, st)
            else:
                x.assign(s.target, LocV(loc), env, st)
            x.block(s.body, env, st)
            state['inner_post'] = env['sparse_dict'].fn

        def acc_index(s_, x, st, key):
            return _pauli_E(OP(s_.row, key.t))

    class Enum:
        def acc_loop(s_, x, st, s, env):
            if not (isinstance(s.target, ast.Tuple) and len(s.target.elts) == 2):
                raise Unsupported('enumerate target')
            env[s.target.elts[0].id] = i_row
            env[s.target.elts[1].id] = ('sloc', i_row)
            live0 = st.live
            st.live = z3.And(live0, i_row >= 0, i_row < m_rows)
            state['loops'].append('outer')
            x.block(s.body, env, st)
            st.live = live0

    class QIdx:
        def acc_index(s_, x, st, key):
            return qidx(key.t)

    def new_dict(x, st):
        state['dict'] = FMap2(lambda a, b: z3.IntVal(0)); return state['dict']

    def dok_matrix(x, st, a, k):
        state['dok_shape'] = a[0]
        state['dok'] = Dok(lambda a_, b_: z3.IntVal(0)); return state['dok']

    def get_stab(x, st, a, k):
        if not (isinstance(a[0], tuple) and a[0][0] == 'sloc'):
            raise Unsupported('get_stabilizer is not called on the enumerated location')
        return OpMap(a[0][1])
    selfo = Obj(cls, {'n': n_, 'n_stabilizers': m_rows, 'qubit_index': QIdx(), 'stabilizer_coordinates': Opaque('coords'), '_stabilizer_matrix': Opaque('empty')}, 'code')
    tocsr = []

    class HX(X):
        def apply(s_, fv, args, kwargs, st, node=None):
            if isinstance(fv, tuple) and fv and fv[0] == 'dokmethod':
                tocsr.append(fv[1]); return ('csr', fv[1])
            return X.apply(s_, fv, args, kwargs, st, node)

        def st_AugAssign(s_, s, env, st):
            if isinstance(s.target, ast.Attribute) and s.target.attr == 'data' and isinstance(s.op, ast.Mod):
                base = s_.ev(s.target.value, env, st)
                if isinstance(base, tuple) and base[0] == 'csr':
                    state['mod'] = conc(s_.ev(s.value, env, st)); return
            return X.st_AugAssign(s_, s, env, st)
    x = HX(m, {'bsparse.is_empty': lambda x_, st, a, k: True, 'new:dict': new_dict, 'dok_matrix': dok_matrix,
               'enumerate': lambda x_, st, a, k: Enum(), 'self.get_stabilizer': get_stab})
    st, ret = x.run(f, [], {}, selfo)
    return dict(f=f, x=x, st=st, ret=ret, state=state, OP=OP, Dpre=Dpre, i=i_row, loc=loc, m=m_rows, tocsr=tocsr, selfo=selfo)


def ob_H(which, timeout=60):
    s = sym_H_assembly()
    stt, OP, Dpre, i, loc, mr = s['state'], s['OP'], s['Dpre'], s['i'], s['loc'], s['m']
    problems = []
    if stt.get('loops') != ['outer'] or 'inner_post' not in stt or stt.get('copy') is None or stt.get('mod') != 2 or len(s['tocsr']) != 1:
        problems.append('stabilizer_matrix is not: dict; for i, loc in enumerate(coords): for key in get_stabilizer(loc).keys(): count; copy into a dok matrix; tocsr; data %= 2')
    if not (isinstance(s['ret'], tuple) and s['ret'][0] == 'csr'):
        problems.append('the property does not return the csr matrix it built')
    shp = stt.get('dok_shape')
    if problems:
        return dict(verdict='refuted', model=dict(problems=problems), backend='pyvc-symex', seconds=0, detail='; '.join(problems), kind='state',
                    functions=[dict(function=s['f'].ref, sha256_16=s['f'].sha)], transparent=[])
    V = z3.Function('Vh', Loc, z3.BoolSort()); V2 = z3.Function('Vh2', Loc, z3.BoolSort())
    l = z3.Const('l', Loc); j = z3.Int('j'); r_, c_ = z3.Ints('r c')
    op_i = lambda t: OP(i, t)      # noqa
    dom = z3.ForAll([r_, l], z3.And(OP(r_, l) >= 0, OP(r_, l) <= 3))
    bij = z3.And(z3.ForAll([l], z3.Implies(op_i(l) != 0, z3.And(qidx(l) >= 0, qidx(l) < n_, coord(qidx(l)) == l))),
                 z3.ForAll([j], z3.Implies(z3.And(j >= 0, j < n_), qidx(coord(j)) == j)))

    def inv_row(fn, Vf):
        """row i of the dictionary counts 1 exactly at the BSF positions of the visited keys"""
        cj = coord(j)
        return z3.ForAll([j], z3.Implies(z3.And(j >= 0, j < n_), z3.And(
            fn(i, j) == z3.If(z3.And(Vf(cj), z3.Or(op_i(cj) == 1, op_i(cj) == 2)), 1, 0),
            fn(i, n_ + j) == z3.If(z3.And(Vf(cj), z3.Or(op_i(cj) == 2, op_i(cj) == 3)), 1, 0))))
    post = stt['inner_post']
    base = [n_ >= 0, mr >= 1, i >= 0, i < mr, dom, bij]
    if which == 'inner.step':
        frame = z3.And(r_ != i, post(r_, c_) != Dpre(r_, c_))            # other rows untouched
        goal = base + [inv_row(lambda a, b: Dpre(a, b), V), op_i(loc) != 0, z3.Not(V(loc)), z3.ForAll([l], V2(l) == z3.Or(V(l), l == loc)),
                       z3.Or(z3.Not(inv_row(post, V2)), frame, z3.Or([c for c, _, _ in s['st'].raises] + [z3.BoolVal(False)]))]
    elif which == 'inner.init':
        # before the first key of row i the row is empty (rows are only written in their own outer iteration: frame clause of inner.step)
        goal = base + [z3.ForAll([c_], Dpre(i, c_) == 0), z3.ForAll([l], z3.Not(V(l))), z3.Not(inv_row(lambda a, b: Dpre(a, b), V))]
    elif which == 'copy':
        cp = stt['copy']
        kr, kc = cp['kr'], cp['kc']
        pre_fn, post_fn, dfn = cp['pre'].fn, cp['post'].fn, cp['dict_fn']
        # one generic present key: the dok entry at that key becomes the dictionary value, every other entry is unchanged
        goal = [z3.Or(post_fn(kr, kc) != dfn(kr, kc), z3.And(z3.Or(r_ != kr, c_ != kc), post_fn(r_, c_) != pre_fn(r_, c_)))]
        goal = [dfn(kr, kc) != 0] + goal
    elif which == 'final':
        # all keys of row i visited, then copy, tocsr, data %= 2:  H[i, j] = x-bit, H[i, n+j] = z-bit, stored values are exactly 1, shape (m, 2n)
        D = Dpre
        jj = z3.Int('jj')
        xb = z3.If(z3.Or(op_i(coord(jj)) == 1, op_i(coord(jj)) == 2), 1, 0); zb = z3.If(z3.Or(op_i(coord(jj)) == 2, op_i(coord(jj)) == 3), 1, 0)
        shape_ok = isinstance(shp, T) and len(shp.items) == 2
        goal = base + [inv_row(lambda a, b: D(a, b), V), z3.ForAll([l], V(l) == (op_i(l) != 0)), jj >= 0, jj < n_,
                       z3.Or(D(i, jj) % 2 != xb, D(i, n_ + jj) % 2 != zb, z3.And(D(i, jj) != 0, D(i, jj) % 2 != 1), z3.And(D(i, n_ + jj) != 0, D(i, n_ + jj) % 2 != 1),
                             z3.BoolVal(not shape_ok) if not shape_ok else z3.Or(Z(shp.items[0]) != mr, Z(shp.items[1]) != 2 * n_))]
    r = check(goal, timeout)
    return result('H.' + which, r, [s['f']], s['x'], goal, kind='state',
                  detail='generic row i, generic key: dictionary row = BSF image of the visited keys; other rows untouched; dok copy; %2 keeps stored 1s')
