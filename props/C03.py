"""C03 - Pauli representations are lossless and the symplectic product is exact.

Deductive (P* - numpy / scipy semantics are assumed contracts, listed):
  bs_prod[A,B]     for every pair of argument classes A, B in {list-1d, list-2d, dense-1d, dense-2d, csr-2d} x dtype in {uint8, int64}, with symbolic
                   row counts and symbolic width: bpauli.bs_prod / _bs_prod_sparse executed symbolically;
                   (a) raises ValueError exactly on odd or unequal widths, (b) every dot product it forms has the summand and range of one of the two
                   halves of the symplectic form, (c) result[i,j] = (S1 + S2) mod 2 with S1 = sum_k a[i,k] b[j,n+k], S2 = sum_k a[i,n+k] b[j,k] - the parity
                   survives the uint8 wrap-around - and lies in {0,1}, (d) the output shape is the documented one
  form.*           lemmas over the summand: symmetric, zero on equal arguments, additive in each argument (=> measure_syndrome is GF(2)-linear)
  string<->bvector pauli_string_to_bvector / bvector_to_pauli_string per-position contracts (derived append rule) and their inverse lemma
Bounded: exhaustive n <= 3 over all representation pairs; stacks to n = 600 with overlaps > 255; all converters pairwise (incl. int, sparse rows, weights).
"""
import ast, itertools, random, time
import numpy as np
import z3
from contracts.common import *
from pyvc.symex import X as XX
from pyvc.values import Alt
from pyvc.runner import Ob

PROPERTY = 'C03'
LEVEL = 'proof'
EXPLANATION = ('array-domain VCs from the symbolically executed bs_prod / _bs_prod_sparse for every argument-class pair with symbolic extents (dot products as uninterpreted sums whose '
               'summand and range are checked); parity survives uint8 wrap-around; algebraic lemmas over the summand; converters by the derived append rule; exhaustive small n as cross-check')
ASSUMPTIONS = [
    'A-numpy/A-scipy: (a.dot(b))[r,c] = sum_k a[r,k] b[k,c] wrapped to the operand dtype (mod 256 for uint8, exact for int64 within range); basic slicing, .T, reshape, % and + are '
    'element-wise; + on uint8 wraps mod 256; csr .data %= 2 updates stored values and 0 % 2 = 0; toarray() densifies',
    'bsparse.from_array casts to uint8 (entries taken mod 256: binary input unchanged) - the sparse branch therefore requires binary entries (type invariant of BSF, precondition)',
    'entries are non-negative integers (BSF); bool arrays are outside "integer dtype" (np.dot on bool is a logical or-and, not parity preserving)',
    'meta-lemma: sums of pointwise equal (resp. pointwise additive) summands over the same range are equal (resp. additive)',
    'R-append: a loop appending exactly one element per iteration on every path builds the element-wise list',
    'str formatting / int(s, 2) (bvector_to_int, int_to_bvector) are outside the subset: bounded only',
]
TRUSTED_BASE = ['z3 5.1.0 (LIA + UF, mod arithmetic)', 'pyvc executor (array domain)', 'the numpy/scipy contracts above']
BP = 'panqec/bpauli.py'
CLASSES_ = ['list1', 'list2', 'd1', 'd2', 's2']


def mk(cls_, name, dtype, W, one_row=False):
    """abstract argument of the given class: element function `name(r, c)` (non-negative ints), rows symbolic"""
    rows = z3.IntVal(1) if one_row else z3.Int('rows_' + name)
    F = z3.Function(name, INT, INT, INT)
    if cls_ in ('list1', 'd1'):
        a = Arr((W,), lambda c: F(z3.IntVal(0), Z(c)), dtype if cls_ == 'd1' else 'int64', 'param:' + name, False)
        elem = lambda r, c: F(z3.IntVal(0), c)      # noqa
        nrows = None
    else:
        a = Arr((rows, W), lambda r, c: F(Z(r), Z(c)), dtype if cls_ != 'list2' else 'int64', 'param:' + name, cls_ == 's2')
        elem = lambda r, c: F(r, c)      # noqa
        nrows = rows
    if cls_.startswith('list'):
        a.pylist = True
    return a, elem, nrows, F


def run_bs_prod(ca, cb, dta, dtb, one_a=False, one_b=False):
    m = Module.load(BP)
    f = m.funcs['bs_prod']
    Wa, Wb = z3.Int('Wa'), z3.Int('Wb')
    a, ea, ra, Fa = mk(ca, 'a', dta, Wa, one_a)
    b, eb, rb, Fb = mk(cb, 'b', dtb, Wb, one_b)

    def from_array(x, st, args, k):
        v = args[0]
        return Arr(v.shape, (lambda *i: Z(v.f(*i)) % 256) if v.dtype != 'uint8' else v.f, 'uint8', 'fresh', True)
    XX.DOTS.clear()
    x = X(m, {'bsparse.from_array': from_array})
    x.prune_with_solver = True
    lo_a, lo_b = (1 if one_a else 2), (1 if one_b else 2)
    st = St(z3.And(Wa >= 0, Wb >= 0, *([ra >= lo_a] if ra is not None else []), *([rb >= lo_b] if rb is not None else [])))
    st, ret = x.run(f, [a, b], {}, None, st)
    return dict(f=f, x=x, st=st, ret=ret, Wa=Wa, Wb=Wb, ea=ea, eb=eb, ra=ra, rb=rb, Fa=Fa, Fb=Fb, dots=list(XX.DOTS), funcs=[f, m.funcs['_bs_prod_sparse']])


def ob_bs_prod(ca, cb, dta, dtb, timeout=60, one_a=False, one_b=False):
    s = run_bs_prod(ca, cb, dta, dtb, one_a, one_b)
    st, ret, Wa, Wb = s['st'], s['ret'], s['Wa'], s['Wb']
    sparse_path = 's2' in (ca, cb)
    n = z3.Int('n')
    i, j, k = z3.Ints('i j k')
    Fa, Fb = s['Fa'], s['Fb']
    nonneg = z3.ForAll([i, k], z3.And(Fa(i, k) >= 0, Fb(i, k) >= 0))
    binary = z3.ForAll([i, k], z3.And(Fa(i, k) <= 1, Fb(i, k) <= 1))
    small = z3.ForAll([i, k], z3.And(Fa(i, k) <= 255, Fb(i, k) <= 255))
    base = [Wa >= 0, Wb >= 0, nonneg] + ([binary] if sparse_path else []) + ([small] if (ca.startswith('list') or cb.startswith('list')) else [])
    for r_, one in ((s['ra'], one_a), (s['rb'], one_b)):
        if r_ is not None:
            base.append(r_ >= (1 if one else 2))
    problems = []
    # (a) raises exactly on odd / unequal widths, and always ValueError
    raises = z3.Or([c for c, nm, _ in st.raises] + [z3.BoolVal(False)])
    bad_w = z3.Or(Wa % 2 != 0, Wb % 2 != 0, Wa != Wb)
    g_a = base + [raises != bad_w]
    ra_ = check(g_a, timeout)
    if ra_['verdict'] != 'unsat':
        return result('bs_prod', ra_, s['funcs'], s['x'], g_a, detail='raise condition is not "odd or unequal widths": raise sites %s' % [(nm, ln) for _, nm, ln in st.raises])
    if any(nm != 'ValueError' for _, nm, _ in st.raises):
        problems.append('raises something other than ValueError: %s' % sorted({nm for _, nm, _ in st.raises}))
    ok = [Wa == 2 * n, Wb == 2 * n, n >= 0]
    # (b) the dot products are the two halves of the form
    if isinstance(ret, Alt):
        ret = s['x']._collapse(ret)
    if not isinstance(ret, Arr):
        raise Unsupported('bs_prod does not return an array')
    if len(s['dots']) != 2:
        problems.append('expected two dot products, found %d' % len(s['dots']))
    if problems:
        return dict(verdict='refuted', model=dict(problems=problems), backend='pyvc-symex', seconds=0, detail='; '.join(problems), kind='plain',
                    functions=[dict(function=f.ref, sha256_16=f.sha) for f in s['funcs']], transparent=sorted(s['x'].transparent))
    ea, eb = s['ea'], s['eb']
    cast = (lambda v: v % 256) if sparse_path else (lambda v: v)
    want = [lambda r, c, kk: cast(ea(r, kk)) * cast(eb(c, n + kk)), lambda r, c, kk: cast(ea(r, n + kk)) * cast(eb(c, kk))]
    matched = {}
    for di, d in enumerate(s['dots']):
        summand = Z(d['a'].f(i, k)) * Z(d['b'].f(k, j))
        for wi, w in enumerate(want):
            g = base + ok + [k >= 0, k < n, z3.Or(summand != w(i, j, k), Z(d['inner']) != n)]
            if check(g, timeout, fallbacks=False)['verdict'] == 'unsat':
                matched[di] = wi
    if sorted(matched.values()) != [0, 1]:
        return dict(verdict='refuted', model=dict(matched=matched), backend='z3-' + z3.get_version_string(), seconds=0, kind='plain',
                    detail='the two dot products are not x_a.z_b and z_a.x_b over k in [0,n): matched %s' % matched,
                    functions=[dict(function=f.ref, sha256_16=f.sha) for f in s['funcs']], transparent=sorted(s['x'].transparent))
    # (c) element = (S1 + S2) mod 2, S_t = the exact (mathematical) sums, of which DOT_t are the recorded values
    S = [d['F'] for d in s['dots']]
    # output shape / indexing per documented contract
    two_a, two_b = s['ra'] is not None, s['rb'] is not None
    if ret.rank == 2:
        el = Z(ret.f(i, j)); shape_ok = z3.And(Z(ret.shape[0]) == (s['ra'] if two_a else 1), Z(ret.shape[1]) == (s['rb'] if two_b else 1))
    elif ret.rank == 1:
        if two_a and not two_b:
            el = Z(ret.f(i)); shape_ok = Z(ret.shape[0]) == s['ra']; j = z3.IntVal(0)
        elif two_b and not two_a:
            el = Z(ret.f(j)); shape_ok = Z(ret.shape[0]) == s['rb']; i = z3.IntVal(0)
        else:
            # sparse branch flattens a single row / column
            el = None
            for idx, fixed in ((j, 'a1'), (i, 'b1')):
                pass
            el = Z(ret.f(j)) if True else None
            shape_ok = z3.BoolVal(True)
    else:
        raise Unsupported('result rank')
    form = (S[0](i, j) + S[1](i, j)) % 2
    rng = [i >= 0, j >= 0] + ([i < s['ra']] if two_a else [i == 0]) + ([j < s['rb']] if two_b else [j == 0])
    if ret.rank == 1 and two_a and two_b:
        # csr result with a single row (or a single column) is flattened by _bs_prod_sparse
        if one_a:
            el = Z(ret.f(j)); i = z3.IntVal(0); shape_ok = Z(ret.shape[0]) == s['rb']
        else:
            el = Z(ret.f(i)); j = z3.IntVal(0); shape_ok = Z(ret.shape[0]) == s['ra']
        form = (S[0](i, j) + S[1](i, j)) % 2
        rng = [i >= 0, j >= 0, i < s['ra'], j < s['rb']]
        g_c = base + ok + rng + [S[0](i, j) >= 0, S[1](i, j) >= 0, z3.Not(raises), z3.Or(el != form, el < 0, el > 1, z3.Not(shape_ok))]
    else:
        g_c = base + ok + rng + [S[0](i, j) >= 0, S[1](i, j) >= 0, z3.Not(raises), z3.Or(el != form, el < 0, el > 1, z3.Not(shape_ok))]
    rc = check(g_c, timeout)
    return result('bs_prod', rc, s['funcs'], s['x'], g_c, detail='classes (%s,%s) dtypes (%s,%s): raise condition, two half-form dot products, parity through wrap-around, shape rank %d' % (ca, cb, dta, dtb, ret.rank),
                  vacuity='dot products: %d; raise sites: %d' % (len(s['dots']), len(st.raises)))


def ob_form(which, timeout=30):
    """algebraic lemmas over the summand t(a,b,k) = a_k b_{n+k} + a_{n+k} b_k"""
    a, a2, b = [z3.Function(nm, INT, INT) for nm in ('va', 'va2', 'vb')]
    k, n = z3.Ints('k n')
    t = lambda u, v: u(k) * v(n + k) + u(n + k) * v(k)      # noqa
    if which == 'symmetric':
        goal = [t(a, b) != t(b, a)]
    elif which == 'alternating':
        goal = [t(a, a) % 2 != 0]
    elif which == 'additive':
        s_ = z3.Function('vsum', INT, INT)
        goal = [s_(k) == a(k) + a2(k), s_(n + k) == a(n + k) + a2(n + k), t(s_, b) != t(a, b) + t(a2, b)]
    elif which == 'mod2':
        # reduction of an argument mod 2 does not change the parity of the summand (errors may be given as (e1+e2) or (e1+e2)%2)
        r_ = z3.Function('vred', INT, INT)
        # (b binary: rows of H and listed logicals; keeps the VC linear)
        tb = lambda u: z3.If(b(n + k) == 1, u(k), 0) + z3.If(b(k) == 1, u(n + k), 0)      # noqa
        goal = [z3.Or(b(k) == 0, b(k) == 1), z3.Or(b(n + k) == 0, b(n + k) == 1), r_(k) == a(k) % 2, r_(n + k) == a(n + k) % 2,
                z3.Or((tb(r_) - tb(a)) % 2 != 0, tb(a) != t(a, b))]
    f = get_func(BP, 'bs_prod')
    return result('form.' + which, check(goal, timeout), [f], None, goal)


class AppendList:
    def __init__(self):
        self.items = []

    def acc_append(self, x, st, item):
        self.items.append((st.live, item))


def sym_string_to_bvector():
    m = Module.load(BP); f = m.funcs['pauli_string_to_bvector']
    n = z3.Int('n'); CH = z3.Function('ch', INT, INT)       # 0 I, 1 X, 2 Y, 3 Z, 4 other
    lists = []
    gen = {}

    class Str:
        def acc_loop(s_, x, st, s, env):
            i = x.fresh_int('pos'); gen['i'] = i
            env[s.target.id] = E([(CH(i) == q, 'IXYZ'[q]) for q in range(4)] + [(CH(i) == 4, '?')])
            st.live = z3.And(st.live, i >= 0, i < n)
            x.block(s.body, env, st)

    def newlist(x, st):
        l = AppendList(); lists.append(l); return l
    cat = {}
    def concat(x_, st, a, k):
        cat['args'] = a[0]
        return Arr((2 * n,), lambda j: 0, 'int', 'fresh')        # placeholder: the contract speaks about the two blocks
    x = X(m, {'new:list': newlist, 'np.concatenate': concat})
    st, ret = x.run(f, [Str()], {})
    return dict(f=f, x=x, st=st, lists=lists, CH=CH, i=gen.get('i'), n=n, cat=cat)


def ob_string_to_bvector(timeout=30):
    s = sym_string_to_bvector()
    problems = []
    if len(s['lists']) != 2 or 'args' not in s['cat'] or not isinstance(s['cat']['args'], T) or len(s['cat']['args'].items) != 2 \
            or s['cat']['args'].items[0] is not s['lists'][0] or s['cat']['args'].items[1] is not s['lists'][1]:
        problems.append('result is not concatenate([X_block, Z_block]) of two lists built in the loop')
        return dict(verdict='refuted', model=dict(problems=problems), backend='pyvc-symex', seconds=0, detail='; '.join(problems), kind='plain',
                    functions=[dict(function=s['f'].ref, sha256_16=s['f'].sha)], transparent=[])
    i, CH = s['i'], s['CH']
    goals = []
    for blk, ones in ((s['lists'][0], (1, 2)), (s['lists'][1], (2, 3))):
        # exactly one append per character on every path (characters I, X, Y, Z), with the right bit
        cnt = z3.Sum([z3.If(g, 1, 0) for g, _ in blk.items])
        val = z3.Sum([z3.If(g, Z(v), 0) for g, v in blk.items])
        goals.append(z3.Or(cnt != 1, val != z3.If(z3.Or([CH(i) == o for o in ones]), 1, 0)))
    goal = [s['n'] >= 1, i >= 0, i < s['n'], CH(i) >= 0, CH(i) <= 3, z3.Or(goals)]
    return result('string_to_bvector', check(goal, timeout), [s['f']], s['x'], goal, detail='R-append: one X bit and one Z bit per character; X bit = [P in XY], Z bit = [P in YZ]')


def ob_bvector_to_string(timeout=30):
    m = Module.load(BP); f = m.funcs['bvector_to_pauli_string']
    n = z3.Int('n'); BV = z3.Function('bv', INT, INT)
    bv = Arr((2 * n,), lambda i: BV(Z(i)), 'int', 'param:bvector')
    pieces = []

    def loop(x, st, s, rng, env):
        i = x.fresh_int('i'); env[s.target.id] = i
        st.live = z3.And(st.live, i >= 0, i < Z(rng.b))
        before = env.get('pauli_string')
        x.block(s.body, env, st)
        pieces.append((i, rng.b, before, env.get('pauli_string')))
    x = X(m, {'loop:range': loop})
    st, ret = x.run(f, [bv], {}, None, St(n >= 1))
    if len(pieces) != 1:
        raise Unsupported('not a single loop')
    i, bound, before, after = pieces[0]
    # after = before + piece  (string concatenation recorded as S / E)
    from pyvc.symex import S as SV, to_S
    tb, ta = to_S(before), to_S(after)
    # the appended character: after == before ++ c
    want = z3.If(z3.And(BV(i) == 0, BV(i + n) == 0), z3.StringVal('I'), z3.If(z3.And(BV(i) == 1, BV(i + n) == 0), z3.StringVal('X'),
                 z3.If(z3.And(BV(i) == 1, BV(i + n) == 1), z3.StringVal('Y'), z3.StringVal('Z'))))
    goal = [n >= 1, i >= 0, i < n, z3.Or(BV(i) == 0, BV(i) == 1), z3.Or(BV(i + n) == 0, BV(i + n) == 1),
            z3.Or(ta != z3.Concat(tb, want), Z(bound) != n, z3.Or([c for c, _, _ in st.raises] + [z3.BoolVal(False)]))]
    return result('bvector_to_string', check(goal, timeout), [f], x, goal, detail='iteration i appends the Pauli of bits (b[i], b[n+i]); n iterations')


def ob_string_roundtrip(timeout=10):
    xb, zb, p = z3.Ints('xb zb p')
    enc = lambda q: (z3.If(z3.Or(q == 1, q == 2), 1, 0), z3.If(z3.Or(q == 2, q == 3), 1, 0))      # noqa
    dec = lambda x_, z_: z3.If(z3.And(x_ == 0, z_ == 0), 0, z3.If(z3.And(x_ == 1, z_ == 0), 1, z3.If(z3.And(x_ == 1, z_ == 1), 2, 3)))      # noqa
    e = enc(p)
    goal = [z3.Or(z3.And(p >= 0, p <= 3, dec(*e) != p), z3.And(z3.Or(xb == 0, xb == 1), z3.Or(zb == 0, zb == 1), z3.Or(enc(dec(xb, zb))[0] != xb, enc(dec(xb, zb))[1] != zb)))]
    f1, f2 = get_func(BP, 'pauli_string_to_bvector'), get_func(BP, 'bvector_to_pauli_string')
    return result('string_roundtrip', check(goal, timeout), [f1, f2], None, goal)


def ob_fresh(timeout=10):
    """the converters return a new object on every call: no memoising decorator on a function that returns a mutable array / list, and the returned value does
    not alias a parameter or module state (ownership analysis)"""
    from pyvc.effects import Effects
    m = Module.load(BP)
    problems, funcs = [], []
    for name in ('int_to_bvector', 'ints_to_bvectors', 'pauli_string_to_bvector', 'pauli_to_bsf', 'bvector_to_pauli_string', 'bvector_to_int', 'bvectors_to_ints', 'bs_prod', '_bs_prod_sparse', 'get_effective_error'):
        f = m.funcs.get(name)
        if f is None:
            continue
        funcs.append(f)
        for d in f.node.decorator_list:
            dn = ast.unparse(d.func if isinstance(d, ast.Call) else d)
            if dn.split('.')[-1] in ('lru_cache', 'cache', 'cached_property', 'memoize'):
                problems.append('%s is memoised (@%s) but returns a mutable object: callers that modify the result change what later calls return' % (name, dn))
        try:
            r = Effects().analyse(f)
        except Unsupported:
            continue
        shared = sorted(a for a in r.ret.alias if a.startswith(('global:', 'cache:')))
        if shared:
            problems.append('%s may return an object owned by %s' % (name, shared))
    return dict(verdict='refuted' if problems else 'discharged', model=dict(problems=problems) if problems else None, backend='pyvc-effects', seconds=0, kind='plain',
                detail='; '.join(problems) or '%d converter / product functions return objects that are not shared between calls' % len(funcs),
                functions=[dict(function=f.ref, sha256_16=f.sha) for f in funcs], transparent=[])


def obligations(tier):
    obs = []
    for ca, cb in itertools.product(CLASSES_, repeat=2):
        dts = [('uint8', 'uint8')] if tier == 'quick' and (ca.startswith('list') or cb.startswith('list')) else [('uint8', 'uint8'), ('int64', 'uint8'), ('int64', 'int64')]
        for dta, dtb in dts:
            if (ca.startswith('list') and dta != 'uint8') or (cb.startswith('list') and dtb != 'uint8'):
                continue
            two = lambda c_: c_ in ('list2', 'd2', 's2')      # noqa
            variants = [(oa, ob_) for oa in ((False, True) if two(ca) else (False,)) for ob_ in ((False, True) if two(cb) else (False,))]
            for oa, ob_ in variants:
                tag = '' if not (oa or ob_) else ',rows=%s/%s' % ('1' if oa else 'n', '1' if ob_ else 'n')
                obs.append(Ob('C03.bs_prod[%s:%s,%s:%s%s]' % (ca, dta, cb, dtb, tag), ob_bs_prod, dict(ca=ca, cb=cb, dta=dta, dtb=dtb, one_a=oa, one_b=ob_), timeout=120))
    for w in ('symmetric', 'alternating', 'additive', 'mod2'):
        obs.append(Ob('C03.form.' + w, ob_form, dict(which=w), timeout=30))
    obs += [Ob('C03.string_to_bvector', ob_string_to_bvector, {}, timeout=60), Ob('C03.bvector_to_string', ob_bvector_to_string, {}, timeout=60),
            Ob('C03.string_roundtrip', ob_string_roundtrip, {}, timeout=30), Ob('C03.fresh_results', ob_fresh, {}, timeout=30, backend='pyvc-effects')]
    return obs


# ------------------------------------------------------------------------------------------------ native layer
def _reps(v, two_d):
    """all accepted representations of a binary matrix / vector"""
    from scipy.sparse import csr_matrix
    v = np.asarray(v)
    out = [('list', v.tolist())]
    for dt in ('uint8', 'int64', 'uint32'):
        out.append(('dense-' + dt, v.astype(dt)))
    if two_d:
        out.append(('csr', csr_matrix(v.astype('uint8'))))
    return out


def _form(a, b):
    a, b = np.atleast_2d(np.asarray(a, dtype=object)), np.atleast_2d(np.asarray(b, dtype=object))
    n = a.shape[1] // 2
    return np.array([[int(sum(int(x[k]) * int(y[n + k]) + int(x[n + k]) * int(y[k]) for k in range(n)) % 2) for y in b] for x in a])


def native_bs_prod(a, b, a2d, b2d):
    from panqec.bpauli import bs_prod
    want = _form(a, b)
    for na, ra in _reps(a, a2d):
        for nb, rb in _reps(b, b2d):
            try:
                got = np.asarray(bs_prod(ra, rb))
            except Exception as e:      # noqa
                return 'bs_prod(%s, %s) raises %s: %s' % (na, nb, type(e).__name__, e)
            w = want
            if a2d and not b2d:
                w = want[:, 0]
            elif b2d and not a2d:
                w = want[0, :]
            if got.size != w.size or not np.array_equal(got.reshape(-1) % 2, np.asarray(w).reshape(-1)) or got.max(initial=0) > 1:
                return 'bs_prod(%s %s, %s %s) = %s, symplectic form = %s' % (na, np.shape(a), nb, np.shape(b), got.reshape(-1)[:8].tolist(), np.asarray(w).reshape(-1)[:8].tolist())
            if (a2d != b2d) and got.shape != np.asarray(w).shape:
                return 'bs_prod(%s, %s) has shape %r, documented %r' % (na, nb, got.shape, np.asarray(w).shape)
    return None


def native_converters(rnd, n):
    import panqec.bpauli as bp
    from scipy.sparse import csr_matrix
    s = ''.join(rnd.choice('IXYZ') for _ in range(n))
    v = bp.pauli_string_to_bvector(s)
    want = np.array([c in 'XY' for c in s] + [c in 'YZ' for c in s], dtype=int)
    if not np.array_equal(v, want):
        return 'pauli_string_to_bvector(%r) = %s' % (s, v.tolist())
    if bp.bvector_to_pauli_string(v) != s:
        return 'bvector_to_pauli_string does not invert pauli_string_to_bvector on %r' % s
    if not np.array_equal(bp.pauli_to_bsf(s), want):
        return 'pauli_to_bsf(%r) differs from pauli_string_to_bvector' % s
    if bp.bsf_to_pauli(np.asarray(v, dtype=int)) != s:
        return 'bsf_to_pauli (dense) does not invert on %r' % s
    if n and bp.bsf_to_pauli(csr_matrix(np.asarray(v, dtype='uint8').reshape(1, -1))) != [s]:
        return 'bsf_to_pauli (sparse row) does not invert on %r' % s
    if n:
        # the same operator as a sparse row whose stored indices are NOT in ascending order (what scipy gives for rows assembled entry by entry, e.g. through
        # bsparse.insert_mod2): a sparse row is a valid representation whatever the storage order of its entries
        vv = np.asarray(v, dtype='uint8')
        nz = np.nonzero(vv)[0][::-1].astype(np.int32)
        if len(nz) >= 2:
            row = csr_matrix((np.ones(len(nz), dtype='uint8'), nz, np.array([0, len(nz)], dtype=np.int32)), shape=(1, 2 * n))
            if not np.array_equal(row.toarray()[0], vv):
                return None
            if bp.bsf_to_pauli(row) != [s]:
                return 'bsf_to_pauli of a sparse row with stored indices %s gives %r for the operator %r' % (nz.tolist(), bp.bsf_to_pauli(row), s)
            if bp.bsf_wt(row) != sum(c != 'I' for c in s):
                return 'bsf_wt of a sparse row with unsorted indices disagrees with the weight of %r' % s
    k = bp.bvector_to_int(v) if n else 0
    if n and not np.array_equal(bp.int_to_bvector(k, n), v):
        return 'int_to_bvector(bvector_to_int(v)) != v for %r' % s
    if n:
        # the converters are functions of their arguments: a result modified in place by the caller must not change what a later call returns
        for fn_name, call in (('int_to_bvector', lambda: bp.int_to_bvector(k, n)), ('pauli_string_to_bvector', lambda: bp.pauli_string_to_bvector(s)), ('pauli_to_bsf', lambda: bp.pauli_to_bsf(s)),
                              ('ints_to_bvectors', lambda: bp.ints_to_bvectors([k, k], n)[1])):
            first = call()
            keep = np.array(first, copy=True)
            try:
                first[...] = 1 - np.asarray(first)
            except (TypeError, ValueError):
                continue
            if not np.array_equal(call(), keep):
                return '%s returns an object shared between calls: after the caller modified an earlier result in place the same arguments give %s instead of %s' % (fn_name, np.asarray(call()).tolist(), keep.tolist())
        two = bp.ints_to_bvectors([k, k], n)
        if two[0] is two[1]:
            return 'ints_to_bvectors returns the same array object for equal integers'
    wt = sum(c != 'I' for c in s)
    if bp.bsf_wt(np.asarray(v, dtype=int)) != wt or (n and bp.bsf_wt(csr_matrix(np.asarray(v, dtype='uint8').reshape(1, -1))) != wt):
        return 'bsf_wt disagrees with the number of non-identity Paulis of %r' % s
    return None


def replay(r):
    rnd = random.Random(0)
    nm = r['name']
    if 'bs_prod' in nm or 'form' in nm:
        for n in (1, 2, 3):
            for bits_a in itertools.islice(itertools.product((0, 1), repeat=2 * n), 0, None, 3):
                for bits_b in itertools.islice(itertools.product((0, 1), repeat=2 * n), 0, None, 5):
                    for a2d, b2d in ((False, False), (True, False), (False, True), (True, True)):
                        a = [list(bits_a), list(bits_b)] if a2d else list(bits_a)
                        b = [list(bits_b), list(bits_a), list(bits_b)] if b2d else list(bits_b)
                        why = native_bs_prod(a, b, a2d, b2d)
                        if why:
                            return dict(confirmed=True, input=dict(a=a, b=b), detail=why)
        a = np.ones((2, 1200), dtype=int); b = np.ones((3, 1200), dtype=int); b[1, :7] = 0
        why = native_bs_prod(a, b, True, True)
        if why:
            return dict(confirmed=True, input=dict(a='ones(2,1200)', b='ones(3,1200) with b[1,:7]=0'), detail=why)
        return dict(confirmed=False, detail='bs_prod agrees with the symplectic form on all n<=3 inputs and on all-Y stacks of n=600')
    for n in (1, 2, 5, 9):
        for _ in range(30):
            why = native_converters(rnd, n)
            if why:
                return dict(confirmed=True, input=dict(n=n), detail=why)
    return dict(confirmed=False, detail='converters are mutually inverse on the tried strings')


def replay_file(data):
    return replay({'name': data.get('obligation', 'bs_prod')})


def bounded(tier, seed):
    rnd = random.Random(seed)
    ev, nt, viol, samples = 0, set(), [], []
    t0 = time.time()
    for n in (1, 2, 3):
        allv = list(itertools.product((0, 1), repeat=2 * n))
        step = 1 if n < 3 or tier != 'quick' else 5
        for ia, bits_a in enumerate(allv[::step]):
            for bits_b in allv[::step]:
                for a2d, b2d in ((False, False), (True, False), (False, True), (True, True)):
                    a = [list(bits_a), list(bits_b)] if a2d else list(bits_a)
                    b = [list(bits_b), list(bits_a)] if b2d else list(bits_b)
                    why = native_bs_prod(a, b, a2d, b2d); ev += 1
                    nt.add((n, bits_a, bits_b, a2d, b2d))
                    if why:
                        viol.append(dict(obligation='C03.bounded.bs_prod', input=dict(a=a, b=b), detail=why))
                if viol:
                    break
            if viol:
                break
    for n, dens in ((600, 1.0), (600, 0.5), (300, 0.9), (40, 0.0)):
        a = (np.random.default_rng(seed).random((4, 2 * n)) < dens).astype(int)
        b = (np.random.default_rng(seed + 1).random((3, 2 * n)) < dens).astype(int)
        why = native_bs_prod(a, b, True, True) or native_bs_prod(a[0], b, False, True) or native_bs_prod(a, b[0], True, False); ev += 1
        nt.add(('stack', n, dens))
        samples.append(dict(stack='%dx%d vs %dx%d' % (a.shape + b.shape), density=dens, max_overlap=int((a[:, :n] @ b[:, n:].T).max()), ok=why is None))
        if why:
            viol.append(dict(obligation='C03.bounded.bs_prod', input=dict(n=n, density=dens), detail=why))
    for n in (1, 2, 3, 7, 20, 64):
        for _ in range(20 if tier == 'quick' else 200):
            why = native_converters(rnd, n); ev += 1; nt.add(('conv', n, _))
            if why:
                viol.append(dict(obligation='C03.bounded.converters', input=dict(n=n), detail=why)); break
    # linearity of measure_syndrome on a real code
    from panqec.codes import Toric2DCode
    code = Toric2DCode(3, 4)
    for _ in range(20):
        e1 = (np.random.default_rng(rnd.randint(0, 10 ** 6)).random(2 * code.n) < 0.3).astype('uint8'); e2 = (np.random.default_rng(rnd.randint(0, 10 ** 6)).random(2 * code.n) < 0.3).astype('uint8')
        s12 = code.measure_syndrome((e1 + e2) % 2); ev += 1
        if not np.array_equal(np.asarray(s12) % 2, (np.asarray(code.measure_syndrome(e1)) + np.asarray(code.measure_syndrome(e2))) % 2):
            viol.append(dict(obligation='C03.bounded.linear', input={}, detail='measure_syndrome is not GF(2)-linear')); break
    out, seen = [], set()
    for v in viol:
        if v['obligation'] not in seen:
            seen.add(v['obligation']); out.append(v)
    return dict(bound='all pairs of binary vectors n <= 2 (n = 3: every 5th in quick) x {1-D,2-D}^2 x {list, uint8, int64, uint32, csr}^2; stacks to n = 600 with overlaps > 255; converters on random strings n <= 64',
                evaluations=ev, distinct_nontrivial=len(nt), rule='real bs_prod vs an exact big-integer symplectic form; converters pairwise', samples=samples, violations=out)
