"""C04 - decoding success is declared iff the residual error is a stabilizer.

Deductive (composition over C03's contract of bs_prod, for any code: H, LX, LZ abstract matrices of symbolic shape):
  in_codespace        in_codespace(e)  <=>  for all i: <H_i, e> = 0         (measure_syndrome calls bs_prod(stabilizer_matrix, e))
  effective.1d        get_effective_error(e, LX, LZ) for one error = [<LZ_1,e>..<LZ_k,e>, <LX_1,e>..<LX_k,e>]: first k bits flag X-type action, last k Z-type
  logical_errors      StabilizerCode.logical_errors passes (e, logicals_x, logicals_z) in that order
  is_success          is_success = in_codespace and not any(logical_errors != 0);  run_once.success is the same predicate on (correction+error) mod 2 (C11)
  linear / coset      lemmas: the 2k-bit effect is additive in e (C03.form.additive) and unchanged by adding a generator (C01.logcomm)
NOT proved: "commutes with all generators and all listed logicals => product of generators" needs rank(H) = n-k (C01 bounded) + the textbook lemma M-sympl.
Bounded: all 4^n residual errors on every library code with n <= 7 (quick) / 9, against an independent GF(2) row-space membership oracle.
"""
import itertools, random, time
import numpy as np
import z3
from contracts.common import *
from pyvc.symex import red_const, Red
from pyvc.values import Alt
from pyvc.runner import Ob

PROPERTY = 'C04'
LEVEL = 'other'
EXPLANATION = ('the success predicate is proved to be "commutes with all generators and zero product with every listed logical" by composition over the bs_prod contract; '
               'the step to "is a product of generators" needs rank = n-k (bounded in C01) and is checked exhaustively on small codes only')
ASSUMPTIONS = [
    'C03: bs_prod(A, e)[i] = <A_i, e> for the (csr|dense 2-D, dense 1-D) argument classes (proved there)',
    'C01.logcomm (listed logicals commute with all generators) for the coset lemma',
    'M-sympl + rank(H) = n-k (C01 bounded layer): commuting with all generators and all 2k listed logicals => element of the stabilizer group.  NOT proved for unbounded L.',
    'A-numpy: np.concatenate, np.all, np.any, ==, != element-wise / reductions',
]
TRUSTED_BASE = ['z3 5.1.0', 'pyvc executor']
SC = 'panqec/codes/base/_stabilizer_code.py'
BP = 'panqec/bpauli.py'
N, K, Mm = z3.Int('n'), z3.Int('k'), z3.Int('m')


def _setup():
    m = Module.load(SC); c = m.classes['StabilizerCode']
    calls = []
    SYN = {}

    def bs_prod(x, st, a, k):
        idx = len(calls)
        calls.append(a)
        F = z3.Function('prod_%d' % idx, INT, INT)
        rows = a[0].shape[0] if isinstance(a[0], Arr) else Mm
        SYN[idx] = F
        return Arr((rows,), lambda i: F(Z(i)), 'int', 'fresh')
    H = Arr((Mm, 2 * N), lambda r, c_: z3.Function('H', INT, INT, INT)(Z(r), Z(c_)), 'uint8', 'cache:stabilizer_matrix', True)
    LX = Arr((K, 2 * N), lambda r, c_: z3.Function('LX', INT, INT, INT)(Z(r), Z(c_)), 'uint8', 'cache:logicals_x')
    LZ = Arr((K, 2 * N), lambda r, c_: z3.Function('LZ', INT, INT, INT)(Z(r), Z(c_)), 'uint8', 'cache:logicals_z')
    e = Arr((2 * N,), lambda i: z3.Function('e', INT, INT)(Z(i)), 'uint8', 'param:error')
    selfo = Obj(c, {'stabilizer_matrix': H, 'logicals_x': LX, 'logicals_z': LZ, 'n': N}, 'code')
    return m, c, calls, SYN, bs_prod, H, LX, LZ, e, selfo


def ob_in_codespace(timeout=30):
    m, c, calls, SYN, bs_prod, H, LX, LZ, e, selfo = _setup()
    x = X(m, {'bs_prod': bs_prod})
    st, ret = x.run(c.methods['in_codespace'], [e], {}, selfo)
    problems = []
    if len(calls) != 1 or calls[0][0] is not H or calls[0][1] is not e:
        problems.append('in_codespace does not evaluate bs_prod(stabilizer_matrix, error) exactly once')
    if problems:
        return dict(verdict='refuted', model=dict(problems=problems), backend='pyvc-symex', seconds=0, detail='; '.join(problems), kind='plain',
                    functions=[dict(function=c.methods['in_codespace'].ref, sha256_16=c.methods['in_codespace'].sha)], transparent=sorted(x.transparent))
    i = z3.Int('i')
    want = z3.ForAll([i], z3.Implies(z3.And(i >= 0, i < Mm), SYN[0](i) == 0))
    goal = [Mm >= 0, B(ret) != want]
    return result('in_codespace', check(goal, timeout), [c.methods['in_codespace'], c.methods['measure_syndrome']], x, goal)


def ob_effective_1d(timeout=30):
    mb = Module.load(BP); f = mb.funcs['get_effective_error']
    m, c, calls, SYN, bs_prod, H, LX, LZ, e, selfo = _setup()
    x = X(mb, {'bs_prod': bs_prod})
    x.prune_with_solver = True
    st, ret = x.run(f, [e, LX, LZ], {}, None, St(z3.And(K >= 1, N >= 1)))
    if isinstance(ret, Alt):
        ret = x._collapse(ret)
    problems = []
    if len(calls) != 2:
        problems.append('expected two bs_prod calls')
    which = {}
    for idx, a in enumerate(calls):
        if a[1] is not e:
            problems.append('bs_prod is not evaluated against the total error')
        which[idx] = 'LX' if a[0] is LX else 'LZ' if a[0] is LZ else '?'
    if sorted(which.values()) != ['LX', 'LZ']:
        problems.append('products are taken with %s, expected logicals_x and logicals_z' % which)
    if problems or not isinstance(ret, Arr):
        return dict(verdict='refuted', model=dict(problems=problems), backend='pyvc-symex', seconds=0, detail='; '.join(problems) or 'no array returned', kind='plain',
                    functions=[dict(function=f.ref, sha256_16=f.sha)], transparent=sorted(x.transparent))
    pz = [SYN[i_] for i_, w in which.items() if w == 'LZ'][0]
    px = [SYN[i_] for i_, w in which.items() if w == 'LX'][0]
    i = z3.Int('i')
    goal = [K >= 1, N >= 1, i >= 0, i < K, z3.Or(Z(ret.f(i)) != pz(i), Z(ret.f(K + i)) != px(i), Z(ret.shape[0]) != 2 * K, z3.Or([c_ for c_, _, _ in st.raises] + [z3.BoolVal(False)]))]
    return result('effective.1d', check(goal, timeout), [f], x, goal,
                  detail='bit i (< k) = <LZ_i, e> (X-type action on logical qubit i), bit k+i = <LX_i, e> (Z-type action)')


def ob_effective_2d(timeout=60, case='multi'):
    """stacked residual errors (T x 2n): row t of the result is the effect of error t, same bit order as the 1-D contract.
    cases: multi (k >= 2, T >= 2: comprehension branch), single (k = 1, T >= 2: transpose branch), one (T = 1 given as a 1 x 2n matrix)"""
    mb = Module.load(BP); f = mb.funcs['get_effective_error']
    m, c, calls, SYN, bs_prod0, H, LX, LZ, e, selfo = _setup()
    Tn = z3.Int('T')
    kk = 1 if case == 'single' else K
    tt = 1 if case == 'one' else Tn
    if case == 'single':
        LX = Arr((1, 2 * N), LX.f, 'uint8', 'cache:logicals_x'); LZ = Arr((1, 2 * N), LZ.f, 'uint8', 'cache:logicals_z')
    E2 = Arr((tt, 2 * N), lambda t, i: z3.Function('E2', INT, INT, INT)(Z(t), Z(i)), 'uint8', 'param:error')

    def bs_prod(x_, st, a, k):          # C03 contract for (2-D, 2-D): shape (rows(a), rows(b)), entry [i, t] = <a_i, b_t>
        idx = len(calls); calls.append(a)
        F = z3.Function('prod2_%d' % idx, INT, INT, INT); SYN[idx] = F
        return Arr((a[0].shape[0], a[1].shape[0]), lambda i, t: F(Z(i), Z(t)), 'int', 'fresh')
    x = X(mb, {'bs_prod': bs_prod}); x.prune_with_solver = True
    pre = z3.And(N >= 1, K >= (1 if case == 'one' else 2), Tn >= 2)
    st, ret = x.run(f, [E2, LX, LZ], {}, None, St(pre))
    if isinstance(ret, Alt):
        ret = x._collapse(ret)
    problems, which = [], {}
    if len(calls) != 2:
        problems.append('expected two bs_prod calls')
    for idx, a in enumerate(calls):
        if a[1] is not E2:
            problems.append('bs_prod is not evaluated against the stack of total errors')
        which[idx] = 'LX' if a[0] is LX else 'LZ' if a[0] is LZ else '?'
    if sorted(which.values()) != ['LX', 'LZ']:
        problems.append('products are taken with %s, expected logicals_x and logicals_z' % which)
    if problems or not isinstance(ret, Arr):
        return dict(verdict='refuted', model=dict(problems=problems), backend='pyvc-symex', seconds=0, detail='; '.join(problems) or 'no array returned', kind='plain',
                    functions=[dict(function=f.ref, sha256_16=f.sha)], transparent=sorted(x.transparent))
    pz = [SYN[i_] for i_, w in which.items() if w == 'LZ'][0]
    px = [SYN[i_] for i_, w in which.items() if w == 'LX'][0]
    i, t = z3.Ints('i t')
    raised = z3.Or([c_ for c_, _, _ in st.raises] + [z3.BoolVal(False)])
    if case == 'one':
        bad = z3.Or(z3.BoolVal(ret.rank != 1), raised) if ret.rank != 1 else z3.Or(Z(ret.f(i)) != pz(i, 0), Z(ret.f(K + i)) != px(i, 0), Z(ret.shape[0]) != 2 * K, raised)
    else:
        bad = z3.Or(z3.BoolVal(ret.rank != 2), raised) if ret.rank != 2 else z3.Or(Z(ret.f(t, i)) != pz(i, t), Z(ret.f(t, kk + i)) != px(i, t), Z(ret.shape[0]) != Tn, Z(ret.shape[1]) != 2 * kk, raised)
    goal = [pre, i >= 0, i < kk, t >= 0, t < tt, bad]
    return result('effective.2d[%s]' % case, check(goal, timeout), [f], x, goal,
                  detail='row t: bit i (< k) = <LZ_i, e_t>, bit k+i = <LX_i, e_t>; shape (T, 2k) (or (2k,) for a single row)')


def ob_logical_errors(timeout=30):
    m, c, calls, SYN, bs_prod, H, LX, LZ, e, selfo = _setup()
    seen = []
    x = X(m, {'get_effective_error': lambda x_, st, a, k: (seen.append(a) or Arr((2 * K,), lambda i: z3.Function('eff', INT, INT)(Z(i)), 'int'))})
    st, ret = x.run(c.methods['logical_errors'], [e], {}, selfo)
    ok = len(seen) == 1 and seen[0][0] is e and seen[0][1] is LX and seen[0][2] is LZ
    st2, r2 = x.run(c.methods['is_logical_error'], [e], {}, selfo)
    i = z3.Int('i'); eff = z3.Function('eff', INT, INT)
    want = z3.Exists([i], z3.And(i >= 0, i < 2 * K, eff(i) != 0))
    goal = [K >= 0, z3.Or(z3.BoolVal(not ok), B(r2) != want)]
    return result('logical_errors', check(goal, timeout), [c.methods['logical_errors'], c.methods['is_logical_error']], x, goal,
                  detail='logical_errors(e) = get_effective_error(e, logicals_x, logicals_z); is_logical_error = any(!= 0)')


def ob_is_success(timeout=30):
    m, c, calls, SYN, bs_prod, H, LX, LZ, e, selfo = _setup()
    ic, il = z3.Bool('in_codespace'), z3.Bool('is_logical_error')
    args = []
    x = X(m, {'self.in_codespace': lambda x_, st, a, k: (args.append(('ic', a)) or ic), 'self.is_logical_error': lambda x_, st, a, k: (args.append(('il', a)) or il)})
    st, ret = x.run(c.methods['is_success'], [e], {}, selfo)
    same = all(a[0] is e for _, a in args) and {t for t, _ in args} <= {'ic', 'il'}
    goal = [z3.Or(z3.BoolVal(not same), B(ret) != z3.And(ic, z3.Not(il)))]
    return result('is_success', check(goal, timeout), [c.methods['is_success']], x, goal)


def ob_coset(timeout=30):
    """lemma over contracts: adding a generator g to e changes no bit of the effect, given <L, g> = 0 (C01.logcomm); additivity from C03.form.additive"""
    le, lg, leg = z3.Ints('L_e L_g L_eg')
    goal = [lg % 2 == 0, leg == le + lg, leg % 2 != le % 2]
    f = get_func(BP, 'get_effective_error')
    return result('coset', check(goal, timeout), [f], None, goal, detail='<L, e+g> = <L,e> + <L,g> (additive) and <L,g> even (logicals commute with generators)')


def obligations(tier):
    return [Ob('C04.in_codespace', ob_in_codespace, {}, timeout=60), Ob('C04.effective.1d', ob_effective_1d, {}, timeout=60),
            Ob('C04.effective.2d[multi]', ob_effective_2d, dict(case='multi'), timeout=90), Ob('C04.effective.2d[single]', ob_effective_2d, dict(case='single'), timeout=90),
            Ob('C04.effective.2d[one]', ob_effective_2d, dict(case='one'), timeout=90), Ob('C04.logical_errors', ob_logical_errors, {}, timeout=60), Ob('C04.is_success', ob_is_success, {}, timeout=60), Ob('C04.coset', ob_coset, {}, timeout=30)]


# ------------------------------------------------------------------------------------------------ native layer
from bounded import codes as BC    # noqa
from bounded.util import deformation_variants, all_code_classes, small_sizes    # noqa


def _basis(H):
    rows = [int(''.join(map(str, r)), 2) for r in (np.asarray(H) % 2).astype(int).tolist()]
    basis = []
    for r in rows:
        for b in basis:
            r = min(r, r ^ b)
        if r:
            basis.append(r)
    return sorted(basis, reverse=True)


def _member(basis, v):
    x = int(''.join(map(str, v)), 2)
    for b in basis:
        x = min(x, x ^ b)
    return x == 0


def native_success(code, errors):
    H = code.stabilizer_matrix.toarray()
    basis = _basis(H)
    n, k = code.n, code.k
    lx, lz = code.logicals_x, code.logicals_z
    for e in errors:
        e = np.asarray(e, dtype=np.uint8)
        comm = not np.any((H[:, :n] @ e[n:] + H[:, n:] @ e[:n]) % 2)
        if code.in_codespace(e) != comm:
            return 'in_codespace(%s) = %s but the error %s with all generators' % (''.join(map(str, e)), code.in_codespace(e), 'commutes' if comm else 'does not commute')
        stab = _member(basis, e.tolist())
        if code.is_success(e) != stab:
            return 'is_success(%s) = %s but the error is %sa product of generators' % (''.join(map(str, e)), code.is_success(e), '' if stab else 'not ')
        eff = np.asarray(code.logical_errors(e))
        want = np.concatenate([(lz[:, :n] @ e[n:] + lz[:, n:] @ e[:n]) % 2, (lx[:, :n] @ e[n:] + lx[:, n:] @ e[:n]) % 2])
        if eff.shape != (2 * k,) or not np.array_equal(eff % 2, want % 2):
            return 'logical_errors(%s) = %s, expected [<LZ_i,e>..,<LX_i,e>..] = %s' % (''.join(map(str, e)), eff.tolist(), want.tolist())
    # stacked errors: every row as the single-error result
    if len(errors) >= 3:
        stack = np.array(errors[:3], dtype=np.uint8)
        eff = np.asarray(code.logical_errors(stack))
        for r_ in range(3):
            if not np.array_equal(eff[r_] % 2, np.asarray(code.logical_errors(stack[r_])) % 2):
                return 'logical_errors on a stack differs from the row-wise result'
    return None


def replay(r):
    rnd = random.Random(0)
    from panqec.codes import Planar2DCode, Toric2DCode
    for code in (Planar2DCode(1, 2), Planar2DCode(2, 2), Toric2DCode(2, 2)):
        errs = list(itertools.product((0, 1), repeat=2 * code.n)) if code.n <= 5 else [[rnd.randint(0, 1) for _ in range(2 * code.n)] for _ in range(300)]
        why = native_success(code, errs)
        if why:
            return dict(confirmed=True, input=dict(code=code.id, size=list(code.size)), detail=why)
    return dict(confirmed=False, detail='success predicate agrees with the GF(2) row-space oracle on Planar2D(1,2), (2,2) and Toric2D(2,2)')


def replay_file(data):
    inp = (data or {}).get('input') or {}
    if inp.get('code') and inp.get('size'):
        cls = dict(all_code_classes())[inp['code']]
        code = cls(*inp['size'])
        variants = dict((v[0], v[1]) for v in deformation_variants(cls) if v[0])
        for h in inp.get('history', []):
            if h == 'use':
                _ = (code.logicals_x, code.logicals_z, code.k, code.x_indices, code.stabilizer_matrix)
            else:
                code.deform(h, **variants.get(h, {})); _ = (code.logicals_x, code.stabilizer_matrix)
        rnd = random.Random(0)
        H = code.stabilizer_matrix.toarray()
        errs = [H[j].tolist() for j in range(H.shape[0])] + [[rnd.randint(0, 1) for _ in range(2 * code.n)] for _ in range(200)]
        why = native_success(code, errs)
        return dict(confirmed=bool(why), input=inp, detail=why or 'success predicate agrees with the row-space oracle on this code object')
    return replay({})


def bounded(tier, seed):
    rnd = random.Random(seed)
    ev, nt, viol, samples = 0, set(), [], []
    t0 = time.time()
    maxn = 6 if tier == 'quick' else 8
    for name, cls in all_code_classes():
        for size in small_sizes(cls, name, 120, 3)[: (3 if tier == 'quick' else 8)]:
            if time.time() - t0 > (120 if tier == 'quick' else 1500):
                break
            code = cls(*size)
            if code.n <= maxn:
                errs = list(itertools.product((0, 1), repeat=2 * code.n)); kind = 'all 4^%d' % code.n
            else:
                H = code.stabilizer_matrix.toarray()
                errs = []
                for _ in range(60 if tier == 'quick' else 400):
                    # products of generators, optionally times a logical, optionally times noise
                    v = np.zeros(2 * code.n, dtype=int)
                    for r_ in rnd.sample(range(H.shape[0]), min(H.shape[0], rnd.randint(0, 5))):
                        v ^= H[r_]
                    t = rnd.random()
                    if t < 0.3:
                        v ^= np.asarray(rnd.choice(list(code.logicals_x) + list(code.logicals_z)), dtype=int)
                    elif t < 0.5:
                        v[rnd.randrange(2 * code.n)] ^= 1
                    errs.append(v.tolist())
                kind = '%d structured samples' % len(errs)
            why = native_success(code, errs)
            ev += len(errs); nt.add((name, size))
            if len(samples) < 4:
                samples.append(dict(code=name, size=size, n=code.n, errors=kind, ok=why is None))
            if why:
                viol.append(dict(obligation='C04.bounded[%s]' % name, input=dict(code=name, size=list(size)), detail=why))
            # the same predicate on a code object that was USED (logicals, row masks cached) and then deformed, once and twice
            variants = [v for v in deformation_variants(cls) if v[0] is not None]
            for vi, (dn, kw) in enumerate(variants):
                used = cls(*size)
                _ = (used.logicals_x, used.logicals_z, used.k, used.x_indices, used.stabilizer_matrix)
                hist = [dn]
                used.deform(dn, **kw)
                if vi % 2 and len(variants) > 1:
                    _ = (used.logicals_x, used.stabilizer_matrix)
                    dn2, kw2 = variants[(vi + 1) % len(variants)]
                    used.deform(dn2, **kw2); hist.append(dn2)
                sub = errs if len(errs) <= 256 else [errs[j] for j in rnd.sample(range(len(errs)), 256)]
                H2 = used.stabilizer_matrix.toarray()
                sub = [H2[j].tolist() for j in range(min(4, H2.shape[0]))] + list(sub)
                why = native_success(used, sub)
                ev += len(sub)
                if why:
                    viol.append(dict(obligation='C04.bounded.deformed[%s]' % name, input=dict(code=name, size=list(size), history=['use'] + hist), detail=why))
    out, seen = [], set()
    for v in viol:
        if v['obligation'] not in seen:
            seen.add(v['obligation']); out.append(v)
    return dict(bound='every class at <= %d sizes: all 4^n residual errors when n <= %d, else structured samples (generator products x logical x single flips); stacked input' % (3 if tier == 'quick' else 8, maxn),
                evaluations=ev, distinct_nontrivial=len(nt), rule='real in_codespace / is_success / logical_errors vs an independent GF(2) row-space membership oracle', samples=samples, violations=out)
