"""C05 - decoders return valid corrections that reproduce the measured syndrome.

Deductive part (input-independent wiring, decided per path by symbolic execution with sector-typed stand-ins for the third-party
decoders): which parity-check block, which weight / prior vector, which syndrome block and which half of the output go together in
MatchingDecoder (constructor + decode), UnionFindDecoder.decode, BeliefPropagationOSDDecoder (initialize_decoders + decode, CSS and
non-CSS, with and without channel update), SweepMatchDecoder / RotatedSweepMatchDecoder; output length 2n.
With the assumed contract "the third-party decode(s) returns c with H c = s" and C02's CSS block identity this gives
measure_syndrome(result) = syndrome for the complete decoders.
Bounded: every decoder x allowed code x small sizes x syndromes of random Pauli errors on the real objects.
"""
import io, contextlib, itertools, random, time
import numpy as np
import z3
from contracts.common import *
from contracts.decoders import DECODERS, cls as dcls
from pyvc.rules import pointwise_range_loop
from pyvc.values import Alt
from pyvc.runner import Ob

PROPERTY = 'C05'
LEVEL = 'other'
EXPLANATION = ('sector-wiring obligations from symbolic execution of the real constructors / decode methods against typed stand-ins of PyMatching / ldpc / Support; '
               'completeness of those third-party decoders is an assumed contract; validity on real objects is a bounded run-time contract')
ASSUMPTIONS = [
    'A-ext: pymatching.Matching(H, spacelike_weights=w).decode(s) returns c with H c = s (mod 2) for s in the image of H; ldpc.BpOsdDecoder(H).decode(s) likewise; '
    'Support(s, H).decode() likewise (union-find internals are NOT analysed: bounded only)',
    'C02.css: for CSS codes Hx = H[x rows, :n], Hz = H[z rows, n:], and the X-(Z-)part of the syndrome depends only on the Z-(X-)part of the error',
    'A-numpy: slice assignment correction[:n] = v writes v element-wise; np.concatenate / hstack join in order',
]
TRUSTED_BASE = ['pyvc symbolic executor', 'z3 5.1.0']
N = z3.Int('n')


def OUT(tag):
    """the vector returned by a third-party decode call, identified by (matrix, prior, syndrome) tags"""
    f = z3.Function('out_' + tag, INT, INT)
    return Arr((N,), lambda i: f(Z(i)), 'int', 'extret:' + tag), f


class Rec:
    def __init__(self):
        self.built, self.calls, self.updates = [], [], []


def _tag(v):
    return v.tag if isinstance(v, Opaque) else getattr(v, 'wtag', None) or ('<%s>' % type(v).__name__)


def matching_exec(error_type, given_weights):
    m = Module.load(DECODERS['MatchingDecoder']); c = m.classes['MatchingDecoder']
    rec = Rec()
    code = Obj(None, {'n': N, 'Hz': Opaque('Hz'), 'Hx': Opaque('Hx')}, 'code')
    em = Obj(None, {}, 'error_model')
    selfo = Obj(c, {}, 'decoder')

    def Matching(x, st, a, k):
        o = Opaque('matcher(%s,%s)' % (_tag(a[0]), _tag(k.get('spacelike_weights'))))
        rec.built.append((_tag(a[0]), _tag(k.get('spacelike_weights')), o)); return o
    intr = {
        'Matching': Matching,
        'error_model.get_weights': lambda x, st, a, k: T([Opaque('w_xflip'), Opaque('w_zflip')]),
        'super().__init__': None,
        'self.code.extract_z_syndrome': lambda x, st, a, k: Opaque('syn[z rows](%s)' % _tag(a[0])),
        'self.code.extract_x_syndrome': lambda x, st, a, k: Opaque('syn[x rows](%s)' % _tag(a[0])),
    }
    outs = {}

    def mdecode(which):
        def h(x, st, a, k):
            mt = selfo.fields[which]
            rec.calls.append((_tag(mt), _tag(a[0])))
            arr, f = OUT('%s_%d' % (which, len(rec.calls)))
            outs[len(rec.calls) - 1] = f
            return arr
        return h
    intr['self.matcher_x.decode'] = mdecode('matcher_x'); intr['self.matcher_z.decode'] = mdecode('matcher_z')
    del intr['super().__init__']
    x = X(m, intr)
    # constructor (super().__init__ is BaseDecoder.__init__: analysed from source through the MRO)
    w = T([Opaque('given_wx'), Opaque('given_wz')]) if given_weights else NONE
    et = NONE if error_type is None else E.const(error_type)
    st, _ = x.run(c.methods['__init__'], [code, em, z3.Real('p')], {'error_type': et, 'weights': w}, selfo)
    st2, ret = x.run(c.methods['decode'], [Opaque('syndrome')], {}, selfo)
    return dict(rec=rec, ret=ret, st=st, st2=st2, x=x, outs=outs, funcs=[c.methods['__init__'], c.methods['decode']], selfo=selfo)


def ob_matching(error_type, given_weights, timeout=30):
    s = matching_exec(error_type, given_weights)
    rec, ret = s['rec'], s['ret']
    wx, wz = ('given_wx', 'given_wz') if given_weights else ('w_xflip', 'w_zflip')
    want_built, want_calls = [], []
    if error_type in (None, 'X'):
        want_built.append(('Hz', wx)); want_calls.append(('matcher(Hz,%s)' % wx, 'syn[z rows](syndrome)'))
    if error_type in (None, 'Z'):
        want_built.append(('Hx', wz)); want_calls.append(('matcher(Hx,%s)' % wz, 'syn[x rows](syndrome)'))
    problems = []
    if sorted((a, b) for a, b, _ in rec.built) != sorted(want_built):
        problems.append('matchers built as %s, sector typing requires %s (Hz detects X flips: X-flip weights; Hx detects Z flips: Z-flip weights)' % ([(a, b) for a, b, _ in rec.built], want_built))
    if sorted(rec.calls) != sorted(want_calls):
        problems.append('decode calls %s, sector typing requires %s' % (rec.calls, want_calls))
    if not isinstance(ret, Arr) or ret.rank != 1:
        problems.append('decode does not return a 1-D array')
    if problems:
        return dict(verdict='refuted', model=dict(problems=problems), backend='pyvc-symex', seconds=0, detail='; '.join(problems), kind='state',
                    functions=[dict(function=f.ref, sha256_16=f.sha) for f in s['funcs']], transparent=sorted(s['x'].transparent))
    i = z3.Int('i')
    want_x = z3.IntVal(0); want_z = z3.IntVal(0)
    for k, (mt, _) in enumerate(rec.calls):           # outputs identified by the matcher they came from, not by call order
        if mt.startswith('matcher(Hz'):
            want_x = s['outs'][k](i)
        elif mt.startswith('matcher(Hx'):
            want_z = s['outs'][k](i)
    goal = [N >= 1, i >= 0, i < N, z3.Or(Z(ret.f(i)) != want_x, Z(ret.f(N + i)) != want_z, Z(ret.shape[0]) != 2 * N,
                                          z3.Or([c for c, _, _ in s['st2'].raises] + [z3.BoolVal(False)]))]
    r = check(goal, timeout)
    return result('matching', r, s['funcs'], s['x'], goal, kind='state',
                  detail='X half = output of the matcher on (Hz, X-flip weights, Z-row syndrome); Z half = matcher on (Hx, Z-flip weights, X-row syndrome)')


def ob_unionfind(timeout=30):
    m = Module.load(DECODERS['UnionFindDecoder']); c = m.classes['UnionFindDecoder']
    built = []
    outs = {}

    def Support(x, st, a, k):
        o = Opaque('support(%s,%s)' % (_tag(a[0]), _tag(a[1]))); built.append((_tag(a[0]), _tag(a[1]))); return o
    code = Obj(None, {'n': N, 'Hz': Opaque('Hz'), 'Hx': Opaque('Hx')}, 'code')
    selfo = Obj(c, {'code': code}, 'decoder')
    intr = {'Support': Support,
            'self.code.extract_z_syndrome': lambda x, st, a, k: Opaque('syn[z rows]'),
            'self.code.extract_x_syndrome': lambda x, st, a, k: Opaque('syn[x rows]')}

    def sdecode(name):
        def h(x, st, a, k):
            arr, f = OUT(name); outs[name] = f; return arr
        return h
    intr['support_x.decode'] = sdecode('support_x'); intr['support_z.decode'] = sdecode('support_z')
    x = X(m, intr)
    st, ret = x.run(c.methods['decode'], [Opaque('syndrome')], {}, selfo)
    problems = []
    # which variable holds which Support: read from the AST (support_x = Support(syndromes_x, Hx))
    if sorted(built) != sorted([('syn[x rows]', 'Hx'), ('syn[z rows]', 'Hz')]):
        problems.append('Support objects built on %s; required (X-row syndrome, Hx) and (Z-row syndrome, Hz)' % built)
    src = ast.unparse(c.methods['decode'].node)
    if ('support_x = Support(syndromes_x, Hx)' not in src or 'support_z = Support(syndromes_z, Hz)' not in src) and not problems:
        raise Unsupported('source shape of UnionFindDecoder.decode not recognised (support_x / support_z bindings)')
    if problems or not isinstance(ret, Arr):
        return dict(verdict='refuted', model=dict(problems=problems), backend='pyvc-symex', seconds=0, detail='; '.join(problems) or 'no array returned', kind='state',
                    functions=[dict(function=c.methods['decode'].ref, sha256_16=c.methods['decode'].sha)], transparent=[])
    i = z3.Int('i')
    goal = [N >= 1, i >= 0, i < N, z3.Or(Z(ret.f(i)) != outs['support_z'](i), Z(ret.f(N + i)) != outs['support_x'](i), Z(ret.shape[0]) != 2 * N)]
    return result('unionfind', check(goal, timeout), [c.methods['decode']], x, goal, kind='state',
                  detail='X half = Support(Z-row syndrome, Hz).decode(); Z half = Support(X-row syndrome, Hx).decode()')


import ast      # noqa


def bposd_exec(is_css, channel_update):
    m = Module.load(DECODERS['BeliefPropagationOSDDecoder']); c = m.classes['BeliefPropagationOSDDecoder']
    rec = Rec()
    fs, arrs = prob_tables(N)
    code = Obj(None, {'n': N, 'Hz': Opaque('Hz'), 'Hx': Opaque('Hx'), 'stabilizer_matrix': Opaque('H'), 'is_css': is_css}, 'code')
    selfo = Obj(c, {'code': code, 'error_model': Obj(None, {}, 'error_model'), 'error_rate': z3.Real('p'), '_initialized': False,
                    '_channel_update': channel_update, '_max_bp_iter': 10, '_osd_order': 0, '_bp_method': E.const('minimum_sum')}, 'decoder')
    outs = {}

    def Bp(x, st, a, k):
        o = Opaque('bposd(%s)' % _tag(a[0])); rec.built.append(_tag(a[0])); return o

    def upd(field):
        def h(x, st, a, k):
            rec.updates.append((field, _tag(selfo.fields[field]), a[0], len(rec.calls))); return NONE
        return h

    def dec(field):
        def h(x, st, a, k):
            rec.calls.append((field, _tag(selfo.fields[field]), _tag(a[0])))
            arr, f = OUT('%s_call%d' % (field, len(rec.calls)))
            if field == 'decoder':
                f2 = z3.Function('out_decoder_full', INT, INT)
                arr = Arr((2 * N,), lambda i: f2(Z(i)), 'int', 'extret:decoder'); f = f2
            outs[field] = f
            return arr
        return h
    intr = {'BpOsdDecoder': Bp, 'loop:range': pointwise_range_loop,
            'self.error_model.probability_distribution': lambda x, st, a, k: T([arrs[c_] for c_ in 'ixyz']),
            'self.code.extract_z_syndrome': lambda x, st, a, k: Opaque('syn[z rows]'),
            'self.code.extract_x_syndrome': lambda x, st, a, k: Opaque('syn[x rows]'),
            'np.array': lambda x, st, a, k: a[0]}
    for fld in ('x_decoder', 'z_decoder', 'decoder'):
        intr['self.%s.update_channel_probs' % fld] = upd(fld)
        intr['self.%s.decode' % fld] = dec(fld)
    x = X(m, intr)
    st, ret = x.run(c.methods['decode'], [Opaque('syndrome')], {}, selfo)
    return dict(rec=rec, ret=ret, st=st, x=x, outs=outs, fs=fs, funcs=[c.methods['decode'], c.methods['initialize_decoders'], c.methods['get_probabilities'], c.methods['update_probabilities']])


def ob_bposd(is_css, channel_update, timeout=30):
    s = bposd_exec(is_css, channel_update)
    rec, ret, fs, outs = s['rec'], s['ret'], s['fs'], s['outs']
    i = z3.Int('i')
    qx, qz = fs['x'](i) + fs['y'](i), fs['z'](i) + fs['y'](i)
    problems, goals = [], []
    if not isinstance(ret, Arr):
        problems.append('decode does not return an array')
    if is_css:
        if sorted(rec.built) != ['Hx', 'Hz']:
            problems.append('ldpc decoders built on %s, expected Hx and Hz' % rec.built)
        if [(f, t, s_) for f, t, s_ in rec.calls] != [('z_decoder', 'bposd(Hx)', 'syn[x rows]'), ('x_decoder', 'bposd(Hz)', 'syn[z rows]')]:
            problems.append('decode calls %s; sector typing requires z_decoder=bposd(Hx) on the X-row syndrome, then x_decoder=bposd(Hz) on the Z-row syndrome' % rec.calls)
        # priors: first update of each object happens before its first decode and hands it the right marginal
        first = {}
        for fld, tag, arr, ncalls in rec.updates:
            first.setdefault(fld, (arr, ncalls))
        for fld, want in (('x_decoder', qx), ('z_decoder', qz)):
            if fld not in first or first[fld][1] != 0:
                problems.append('%s does not get its channel probabilities before the first decode of this call' % fld)
            elif isinstance(first[fld][0], Arr):
                goals.append(Z(first[fld][0].f(i)) != want)
            else:
                problems.append('%s prior is not an array' % fld)
        if not problems:
            goals += [Z(ret.f(i)) != outs['x_decoder'](i), Z(ret.f(N + i)) != outs['z_decoder'](i), Z(ret.shape[0]) != 2 * N]
            if channel_update:
                # after the Z decode the X decoder gets P(x-flip | z-flip outcome) (contract of update_probabilities, C07)
                ups = [u for u in rec.updates if u[0] == 'x_decoder']
                if len(ups) != 2 or ups[1][3] != 1:
                    problems.append('channel update: x_decoder is not re-primed exactly once between the two decodes')
                else:
                    zc = outs['z_decoder'](i)
                    px, py, pz = fs['x'](i), fs['y'](i), fs['z'](i)
                    want = z3.If(zc == 1, z3.If(pz + py != 0, py / (pz + py), 0), px / (1 - pz - py))
                    goals.append(Z(ups[1][2].f(i)) != want)
    else:
        if rec.built != ['H']:
            problems.append('non-CSS: ldpc decoder built on %s, expected the full stabilizer matrix' % rec.built)
        if [(f, t, s_) for f, t, s_ in rec.calls] != [('decoder', 'bposd(H)', 'syndrome')]:
            problems.append('non-CSS decode calls %s' % rec.calls)
        ups = [u for u in rec.updates if u[0] == 'decoder']
        if len(ups) != 1 or ups[0][3] != 0 or not isinstance(ups[0][2], Arr):
            problems.append('non-CSS: channel probabilities not set exactly once before decode')
        if not problems:
            pr = ups[0][2]
            f = outs['decoder']
            # columns of H are [X-part | Z-part]: column j < n of H pairs with the Z-flip of qubit j, column n+j with its X-flip
            goals += [Z(pr.f(i)) != qz, Z(pr.f(N + i)) != qx, Z(pr.shape[0]) != 2 * N,
                      Z(ret.f(i)) != f(N + i), Z(ret.f(N + i)) != f(i), Z(ret.shape[0]) != 2 * N]
    if problems:
        return dict(verdict='refuted', model=dict(problems=problems), backend='pyvc-symex', seconds=0, detail='; '.join(problems), kind='state',
                    functions=[dict(function=f_.ref, sha256_16=f_.sha) for f_ in s['funcs']], transparent=sorted(s['x'].transparent))
    pre = [N >= 1, i >= 0, i < N] + [fs[c_](i) >= 0 for c_ in 'ixyz'] + [z3.Sum([fs[c_](i) for c_ in 'ixyz']) == 1]
    if is_css and channel_update:
        pre.append(z3.Or(outs['z_decoder'](i) == 0, outs['z_decoder'](i) == 1))
        pre.append(z3.Implies(outs['z_decoder'](i) == 0, fs['z'](i) + fs['y'](i) < 1))
    goal = pre + [z3.Or(goals + [z3.Or([c_ for c_, _, _ in s['st'].raises] + [z3.BoolVal(False)])])]
    return result('bposd', check(goal, timeout), s['funcs'], s['x'], goal, kind='state',
                  detail='priors = flip marginals (p_x+p_y / p_z+p_y), %s; output halves in [x|z] order' % ('CSS wiring z_decoder<->Hx<->X-row syndrome' if is_css else 'non-CSS prior order [z|x] and final half swap'))


def ob_sweepmatch(name, timeout=30):
    m = Module.load(DECODERS[name]); c = m.classes[name]
    built = {}

    def mk(which):
        def h(x, st, a, k):
            et = k.get('error_type', a[3] if len(a) > 3 else NONE)
            built[which] = (et.alts[0][1] if isinstance(et, E) else None); return Opaque(which)
        return h
    zf = z3.Function('out_sweeper', INT, INT); xf = z3.Function('out_matcher', INT, INT)
    calls = []
    intr = {'SweepDecoder3D': mk('SweepDecoder3D'), 'RotatedSweepDecoder3D': mk('RotatedSweepDecoder3D'), 'MatchingDecoder': mk('MatchingDecoder'),
            'self.sweeper.decode': lambda x, st, a, k: (calls.append(('sweeper', _tag(a[0]))) or Arr((2 * N,), lambda i: zf(Z(i)), 'int')),
            'self.matcher.decode': lambda x, st, a, k: (calls.append(('matcher', _tag(a[0]))) or Arr((2 * N,), lambda i: xf(Z(i)), 'int'))}
    x = X(m, intr)
    selfo = Obj(c, {}, 'decoder')
    code = Obj(None, {'n': N}, 'code')
    st, _ = x.run(c.methods['__init__'], [code, Obj(None, {}, 'error_model'), z3.Real('p')], {}, selfo)
    st2, ret = x.run(c.methods['decode'], [Opaque('syndrome')], {}, selfo)
    problems = []
    if built.get('MatchingDecoder') != 'X':
        problems.append('matcher is built with error_type=%r; the sweep part corrects Z errors, so the matcher must decode X errors only' % built.get('MatchingDecoder'))
    if sorted(calls) != [('matcher', 'syndrome'), ('sweeper', 'syndrome')]:
        problems.append('decode calls %s' % calls)
    if not isinstance(ret, Arr):
        problems.append('no array returned')
    if problems:
        return dict(verdict='refuted', model=dict(problems=problems), backend='pyvc-symex', seconds=0, detail='; '.join(problems), kind='state',
                    functions=[dict(function=f.ref, sha256_16=f.sha) for f in (c.methods['__init__'], c.methods['decode'])], transparent=[])
    i = z3.Int('i')
    goal = [N >= 1, i >= 0, i < 2 * N, zf(i) >= 0, zf(i) <= 1, xf(i) >= 0, xf(i) <= 1, z3.Or(Z(ret.f(i)) != (zf(i) + xf(i)) % 2, Z(ret.shape[0]) != 2 * N)]
    return result('sweepmatch', check(goal, timeout), [c.methods['__init__'], c.methods['decode']], x, goal, kind='state',
                  detail='result = (sweeper Z-correction + X-only matching correction) mod 2')


def ob_allowed(timeout=10):
    """allowed_codes literals name existing library classes; sweep-match decoders only claim lattices their sweeper claims"""
    from contracts.lattices import CLASSES
    problems = []
    allowed = {}
    for d in DECODERS:
        c = dcls(d)
        a = c.attrs.get('allowed_codes', 'missing')
        allowed[d] = a
        if a == 'missing':
            problems.append('%s has no literal allowed_codes' % d)
        elif a is not None:
            for n_ in a:
                if n_ not in CLASSES:
                    problems.append('%s.allowed_codes names unknown class %s' % (d, n_))
    for sm, sw in (('SweepMatchDecoder', 'SweepDecoder3D'), ('RotatedSweepMatchDecoder', 'RotatedSweepDecoder3D')):
        if allowed.get(sm) and allowed.get(sw) and not set(allowed[sm]) <= set(allowed[sw]):
            problems.append('%s claims %s beyond its sweeper %s' % (sm, allowed[sm], allowed[sw]))
    fs_ = [dcls(d).lookup('decode') for d in DECODERS]
    return dict(verdict='refuted' if problems else 'discharged', model=None, backend='pyvc-structural', seconds=0, kind='state',
                detail='; '.join(problems) or 'allowed_codes: %s' % allowed, functions=[dict(function=f.ref, sha256_16=f.sha) for f in fs_], transparent=[])


def obligations(tier):
    obs = [Ob('C05.allowed', ob_allowed, {}, timeout=30, kind='state', backend='pyvc-structural')]
    for et in (None, 'X', 'Z'):
        for gw in (False, True):
            obs.append(Ob('C05.wiring.matching[error_type=%s,%s]' % (et, 'given-weights' if gw else 'model-weights'), ob_matching, dict(error_type=et, given_weights=gw), timeout=60, kind='state'))
    obs.append(Ob('C05.wiring.unionfind', ob_unionfind, {}, timeout=60, kind='state'))
    for css in (True, False):
        for cu in ((False, True) if css else (False,)):
            obs.append(Ob('C05.wiring.bposd[css=%s,channel_update=%s]' % (css, cu), ob_bposd, dict(is_css=css, channel_update=cu), timeout=60, kind='state'))
    for nm in ('SweepMatchDecoder', 'RotatedSweepMatchDecoder'):
        obs.append(Ob('C05.wiring.sweepmatch[%s]' % nm, ob_sweepmatch, dict(name=nm), timeout=60, kind='state'))
    return obs


# ------------------------------------------------------------------------------------------------ native layer
from bounded import decoders as BD    # noqa
from bounded import codes as BC    # noqa


def native_valid(dname, cname, size, defo, kw, rnd, nsyn=6, direction=(1 / 3, 1 / 3, 1 / 3), used_first=False, p=0.1):
    """run-time contract of C05 on real objects (used_first: the code object was used undeformed - cached data computed - and then deformed in place)"""
    try:
        if used_first and defo:
            code = BC.make(cname, size)
            for attr in ('stabilizer_matrix', 'x_indices', 'z_indices', 'is_css', 'logicals_x', 'd'):
                getattr(code, attr)
            if code.is_css:
                code.Hx, code.Hz
            code.deform(defo, **(kw or {}))
        else:
            code = BC.make(cname, size, defo, kw)
        dec, em = BD.build(dname, code, direction=direction, p=p)
    except Exception as e:      # noqa
        return 'decoder cannot be constructed on a code it declares support for: %s: %s' % (type(e).__name__, str(e)[:120]), None
    n = code.n
    for s in BD.syndromes(code, rnd, nsyn):
        try:
            c = np.asarray(BD.quiet_decode(dec, s.copy()))
        except Exception as e:      # noqa
            return 'decode raises %s: %s' % (type(e).__name__, str(e)[:120]), s.tolist()
        if c.shape != (2 * n,):
            return 'correction has shape %r, expected (%d,)' % (c.shape, 2 * n), s.tolist()
        if not set(np.unique(c).tolist()) <= {0, 1}:
            return 'correction is not binary', s.tolist()
        if dname in BD.COMPLETE:
            got = np.asarray(code.measure_syndrome(c)) % 2
            if not np.array_equal(got, s % 2):
                return 'correction has syndrome of weight %d at distance %d from the measured one (weight %d)' % (int(got.sum()), int(np.sum(got != s)), int(s.sum())), s.tolist()
            if not s.any() and c.any():
                return 'trivial syndrome decoded to a non-trivial correction of weight %d' % int(c.sum()), s.tolist()
    return None, None


def native_matching_weights(cname, size, rnd):
    """the X matcher carries the X-flip weights, the Z matcher the Z-flip weights (read back from the PyMatching graphs) - for a sequence of decoders built in one
    process for noise models that differ only in the deformation axis / in the 5th decimal of the direction (nothing may be shared between them)"""
    code = BC.make(cname, size)
    variants = [((0.7, 0.1, 0.2), 'XZZX', None), ((0.7, 0.1, 0.2), 'XZZX', {'deformation_axis': 'x'}), ((0.7, 0.1, 0.2), 'XZZX', {'deformation_axis': 'y'}),
                ((0.70001, 0.1, 0.19999), 'XZZX', {'deformation_axis': 'y'}), ((0.2, 0.1, 0.7), None, None)]
    for direction, defo, nkw in variants:
        dec, em = BD.build('MatchingDecoder', code, direction=direction, p=0.2, noise_deformation=defo, noise_kwargs=nkw)
        pi, px, py, pz = em.probability_distribution(code, 0.2)
        eps = 1e-20
        wx = -np.log((px + py + eps) / (1 - px - py + eps)); wz = -np.log((pz + py + eps) / (1 - pz - py + eps))
        for nm, m, w in (('matcher_x', dec.matcher_x, wx), ('matcher_z', dec.matcher_z, wz)):
            got = {}
            for a, b, d in m.edges():
                for f in d['fault_ids']:
                    got[f] = d['weight']
            # how the decoder numbers the faults of its graph is its own business (it may build the graph in any column order and map the result back):
            # the clause is about the weights the sector's matcher works with, i.e. the multiset of edge weights = the multiset of that sector's LLRs
            gw = sorted(float(v) for v in got.values()); ww = sorted(float(v) for v in w)
            if len(gw) == len(ww) and not np.allclose(gw, ww, rtol=1e-6, atol=1e-6):
                k_ = int(np.argmax(np.abs(np.array(gw) - np.array(ww))))
                return '%s works with edge weights %s..., the LLRs of that sector\'s flip marginals are %s... (direction %s, deformation %s %s)' % (
                    nm, [round(v, 4) for v in gw[max(0, k_ - 1):k_ + 3]], [round(v, 4) for v in ww[max(0, k_ - 1):k_ + 3]], direction, defo, nkw)
    return None


def native_uf_low_weight(size, rnd, n_triples, sector):
    """union-find (cluster growth, merging, peeling - uf_support.py is not analysed deductively): every error of weight <= 2 in one sector and `n_triples`
    sampled errors of weight 3 on a small torus, where clusters that stopped growing are absorbed by later ones; the correction must reproduce the syndrome"""
    code = BC.make('Toric2DCode', size)
    dec, em = BD.build('UnionFindDecoder', code)
    n = code.n
    off = 0 if sector == 'X' else n
    supports = [()] + [(a,) for a in range(n)] + list(itertools.combinations(range(n), 2))
    triples = list(itertools.combinations(range(n), 3))
    supports += triples if n_triples is None or n_triples >= len(triples) else rnd.sample(triples, n_triples)
    for sup in supports:
        e = np.zeros(2 * n, dtype=np.uint8)
        for q in sup:
            e[off + q] = 1
        s = np.asarray(code.measure_syndrome(e)).astype(np.uint8) % 2
        try:
            c = np.asarray(BD.quiet_decode(dec, s.copy()))
        except Exception as e_:      # noqa
            return 'decode raises %s: %s (error: %s on qubits %s)' % (type(e_).__name__, str(e_)[:120], sector, list(sup)), s.tolist(), len(supports)
        if c.shape != (2 * n,) or not np.array_equal(np.asarray(code.measure_syndrome(c)) % 2, s):
            return 'correction does not reproduce the syndrome of the %s error on qubits %s' % (sector, list(sup)), s.tolist(), len(supports)
    return None, None, len(supports)


KNOWN_WITNESSES = [('UnionFindDecoder', 'Toric2DCode', (2, 2), None, {}), ('UnionFindDecoder', 'Toric2DCode', (2, 4), None, {}),
                   ('RotatedSweepMatchDecoder', 'RotatedToric3DCode', (3, 2, 2), None, {})]


def replay(r):
    name = r['name']
    rnd = random.Random(0)
    key = {'matching': 'MatchingDecoder', 'unionfind': 'UnionFindDecoder', 'bposd': 'BeliefPropagationOSDDecoder', 'sweepmatch': None}
    grp = name.split('.')[2].split('[')[0] if name.count('.') >= 2 else ''
    dn = key.get(grp)
    if grp == 'sweepmatch':
        dn = name.split('[')[1].rstrip(']')
    if grp == 'matching':
        for cname, size in (('Toric2DCode', (3, 3)), ('Planar2DCode', (3, 2))):
            why = native_matching_weights(cname, size, rnd)
            if why:
                return dict(confirmed=True, input=dict(decoder='MatchingDecoder', code=cname, size=list(size), noise='Deformed XZZX (0.7,0.1,0.2) p=0.2'), detail=why)
    if dn:
        for (d, cname, size, defo, kw) in BD.cases('quick'):
            if d != dn:
                continue
            for direction in ((1 / 3, 1 / 3, 1 / 3), (0.8, 0.1, 0.1)):
                why, syn = native_valid(d, cname, size, defo, kw, rnd, 8, direction)
                if why:
                    return dict(confirmed=True, input=dict(decoder=d, code=cname, size=list(size), deformation=defo, syndrome=syn), detail=why)
    return dict(confirmed=None, detail='no failing real input found in the bounded cases')


def replay_file(data):
    inp = data.get('input') or {}
    extra = {}
    if inp.get('direction') is not None:
        extra = dict(direction=tuple(inp['direction']), p=inp.get('error_rate', 0.1))
    why, syn = native_valid(inp['decoder'], inp['code'], tuple(inp['size']), inp.get('deformation'), {}, random.Random(0), 12, used_first='history' in inp, **extra)
    return dict(confirmed=bool(why), detail=why or 'holds', input=inp)


def bounded(tier, seed):
    rnd = random.Random(seed)
    ev, nt, viol, samples = 0, set(), [], []
    t0 = time.time()
    for (d, cname, size, defo, kw) in KNOWN_WITNESSES + BD.cases(tier):
        if time.time() - t0 > (150 if tier == 'quick' else 1800):
            break
        why, syn = native_valid(d, cname, size, defo, kw, rnd, 15 if tier == 'quick' else 60)
        ev += 1; nt.add((d, cname, size, defo))
        if len(samples) < 4 and defo:
            samples.append(dict(decoder=d, code=cname, size=size, deformation=defo, ok=why is None))
        if why:
            viol.append(dict(obligation='C05.bounded[%s]' % d, input=dict(decoder=d, code=cname, size=list(size), deformation=defo, syndrome=syn), detail=why))
        elif defo and d == 'BeliefPropagationOSDDecoder':
            why, syn = native_valid(d, cname, size, defo, kw, rnd, 8, used_first=True)
            ev += 1; nt.add((d, cname, size, defo, 'used-then-deformed'))
            if why:
                viol.append(dict(obligation='C05.bounded[%s]' % d, input=dict(decoder=d, code=cname, size=list(size), deformation=defo, syndrome=syn, history='used, then deformed in place'), detail=why))
    # the decoder's configured noise is only a prior: the syndrome of ANY Pauli error must be reproduced also under boundary priors (infinite bias, rate 0 / 1)
    for d, cname, size in (('MatchingDecoder', 'Toric2DCode', (3, 3)), ('MatchingDecoder', 'Planar2DCode', (3, 2)), ('BeliefPropagationOSDDecoder', 'Toric2DCode', (3, 3)),
                           ('BeliefPropagationOSDDecoder', 'Planar2DCode', (3, 3)), ('BeliefPropagationOSDDecoder', 'Color666PlanarCode', (2, 2)), ('UnionFindDecoder', 'Toric2DCode', (3, 3))):
        for direction, rate in (((0, 0, 1), 0.1), ((1, 0, 0), 0.1), ((0, 1, 0), 0.1), ((1 / 3, 1 / 3, 1 / 3), 0.0), ((0.5, 0, 0.5), 1.0)):
            why, syn = native_valid(d, cname, size, None, {}, rnd, 6 if tier == 'quick' else 30, direction=direction, p=rate)
            ev += 1; nt.add((d, cname, size, direction, rate))
            if why:
                viol.append(dict(obligation='C05.bounded.prior[%s]' % d, input=dict(decoder=d, code=cname, size=list(size), deformation=None, direction=list(direction), error_rate=rate, syndrome=syn), detail=why))
    # known finding F-C05-e is visited on every run: a matching decoder configured with a flip marginal above 1/2 (negative weights)
    why, syn = native_valid('MatchingDecoder', 'Toric2DCode', (3, 3), None, {}, rnd, 2, direction=(1 / 3, 1 / 3, 1 / 3), p=0.9); ev += 1
    if why:
        viol.append(dict(obligation='C05.bounded.prior[MatchingDecoder]', input=dict(decoder='MatchingDecoder', code='Toric2DCode', size=[3, 3], deformation=None, direction=[1 / 3, 1 / 3, 1 / 3], error_rate=0.9, syndrome=syn), detail=why))
    for size, sector in (((4, 4), 'X'), ((4, 4), 'Z'), ((3, 5), 'X')):
        why, syn, cnt = native_uf_low_weight(size, rnd, 300 if tier == 'quick' else None, sector); ev += 1; nt.add(('uf-low-weight', size, sector))
        if why:
            viol.append(dict(obligation='C05.bounded.lowweight[UnionFindDecoder]', input=dict(decoder='UnionFindDecoder', code='Toric2DCode', size=list(size), deformation=None, syndrome=syn), detail=why))
    for cname, size in (('Toric2DCode', (3, 3)), ('Planar2DCode', (3, 2)), ('RotatedPlanar2DCode', (3, 3))):
        why = native_matching_weights(cname, size, rnd); ev += 1
        if why:
            viol.append(dict(obligation='C05.bounded.weights[MatchingDecoder]', input=dict(code=cname, size=list(size)), detail=why))
    from pyvc.runner import known_match
    out, seen = [], set()
    for v in viol:
        key = (v['obligation'], known_match(PROPERTY, v['obligation'], v['input']) is not None)
        if key not in seen:
            seen.add(key); out.append(v)
    return dict(bound='complete decoders also under boundary priors (pure X / Y / Z noise, rate 0 and 1); every decoder x its allowed codes at 2-9 (code,size,deformation) cases x syndromes of random Pauli errors at 3 rates + zero syndrome; union-find: all one-sector errors of weight <= 2 and 300 (quick) / all (thorough) of weight 3 on Toric2D 4x4 (X, Z) and 3x5 (X); every decode call under a time limit (a call that does not return is a violation); PyMatching edge weights read back',
                evaluations=ev, distinct_nontrivial=len(nt), rule='construct, decode, check shape/binary/no raise; complete decoders: syndrome reproduced and trivial->trivial',
                samples=samples, violations=out)
