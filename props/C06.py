"""C06 - decoding is a pure function of the syndrome.

Functions under contract: decode() of every decoder class (and everything it calls in the repository, analysed from source),
PauliErrorModel.probability_distribution / generate, BaseErrorModel.get_weights / error_probability.
Obligations are frame / dependence clauses decided by the ownership-and-dependence analysis pyvc/effects.py (no solver):
  frame.syndrome[D]   no in-place write to the caller's syndrome array on any path
  frame.cache[D]      no in-place write to cached tables (lru_cache results, cached properties of code / error model)
  state[D]            nothing that depends on the syndrome (or on values returned by third-party decoders) is stored in a field of the
                      decoder or of its collaborators; third-party decoder objects have their channel probabilities overwritten with
                      syndrome-independent values before every use (read-before-write)
  extstate[D]         the returned correction does not depend on unspecified state of third-party objects (only on values *returned*
                      by their methods in this call)
  sources[D]          the returned correction depends only on: the syndrome, construction-time configuration, cached tables, values
                      returned by third-party calls of this invocation (and the decoder's own seeded generator for the sweep decoders)
"""
import itertools, random, time, io, contextlib
import numpy as np
from pyvc.effects import Effects
from pyvc.source import get_class, get_func, Unsupported
from pyvc.runner import Ob
from contracts.decoders import DECODERS, cls as dcls, class_cfg, LAZY_FIELDS, RANDOMISED, PEM, BEM

PROPERTY = 'C06'
LEVEL = 'other'
EXPLANATION = ('frame (assigns) and dependence obligations decided per path by an ownership/dependence abstract interpretation of the real AST (sound over-approximation '
               'of aliasing under the stated numpy view/copy contracts); history-independence on real decoder objects as bounded layer')
ASSUMPTIONS = [
    'A-numpy: basic slicing returns a view (same owner); mask / fancy indexing, arithmetic, .copy(), np.array(x) return fresh arrays',
    'A-ext: the value RETURNED by pymatching.Matching.decode / ldpc.BpOsdDecoder.decode is a function of (matrix, current weights / channel probabilities, syndrome argument); '
    'these calls do not modify their array arguments; nothing is assumed about other attributes of those objects',
    'unknown (non-repository) calls return fresh objects and do not write their arguments unless named in pyvc.effects.MUTATORS',
    'UnionFindDecoder: the Support objects built per call are outside the analysis (their writes to the cached Hx/Hz are checked only by the bounded layer)',
    'XCubeMatchingDecoder / MemoryBeliefPropagationDecoder: collaborators stored in containers (self.matching_decoder[axis]) are not followed; covered by the bounded layer',
]
TRUSTED_BASE = ['pyvc/effects.py (abstract interpreter)', 'numpy view/copy contracts']

ALLOWED_SOURCE_PREFIX = ('param:syndrome', 'const', 'global:', 'cache:', 'field:', 'extret:', 'ext:', 'self', 'param:kwargs')


def analyse(name, forced=None):
    c = dcls(name)
    f = c.lookup('decode')
    ef = Effects(class_cfg=class_cfg(), forced=forced)
    r = ef.analyse(f, self_cls=c)
    return c, f, r


def _res(verdict, detail, r, model=None):
    return dict(verdict=verdict, model=model, backend='pyvc-effects', seconds=0, detail=detail, kind='state',
                functions=[dict(function=f.ref, sha256_16=f.sha) for f in r.funcs], transparent=[],
                vacuity='%d functions analysed, %d third-party calls, %d unknown calls' % (len(r.funcs), len(r.ext_calls), len(r.unknown_calls)))


def ob(name, which):
    c, f, r = analyse(name)
    if which == 'frame.syndrome':
        bad = sorted({(w[1], w[2], w[3]) for w in r.writes if w[0] == 'param:syndrome'})
        return _res('refuted' if bad else 'discharged', ('in-place write to the caller\'s syndrome: %s' % bad) if bad else 'no write to param:syndrome on any path', r,
                    model=dict(decoder=name, lines=[b[0] for b in bad]) if bad else None)
    if which == 'frame.cache':
        bad = sorted({(w[0], w[1], w[2]) for w in r.writes if w[0].startswith('cache:') or w[0].startswith('field:code')})
        # writes into the noise-model OBJECT itself (e.g. a per-instance memo of its tables being filled): whether a table already handed out is altered cannot be
        # decided by the frame rule -> undecided here; the bounded clause compares the tables byte-wise before and after every decode
        model_state = sorted({(w[0], w[1], w[2]) for w in r.writes if w[0].startswith('field:error_model')})
        if model_state and not bad:
            raise Unsupported('decode writes into the noise-model object (%s): outside the frame rule' % model_state[:3])
        return _res('refuted' if bad else 'discharged', ('in-place write to a cached table: %s' % bad) if bad else 'no write to cached tables / code / error model on any path', r,
                    model=dict(decoder=name, writes=bad) if bad else None)
    if which == 'state':
        tainted = ('param:syndrome', 'extret:', 'extstate:')
        bad = []
        for fld, ln, v, fn in r.field_writes:
            if any(d.startswith(tainted) for d in v.deps):
                bad.append((fld, ln, fn))
        lazy = LAZY_FIELDS.get(name, set())
        # own fields assigned during decode that are neither tainted (refuted above) nor the lazily built collaborators: a memo of configuration /
        # noise data.  Whether the result can then depend on the call history is outside this frame rule -> undecided here, the bounded clause decides
        other = sorted({fld for fld, ln, v, fn in r.field_writes if '.' not in fld and fld not in lazy and not any(d.startswith(tainted) for d in v.deps)})
        # in-place writes into objects held in fields of self (not the lazily cached code properties)
        fw = sorted({(w[0], w[1]) for w in r.writes if w[0].startswith('field:') and not w[0].startswith(('field:code', 'field:error_model'))})
        # third-party objects with settable channel state.  Case split over the CONFIGURATION tests of decode (branch tests that read only
        # constructor-time fields / cached code properties, hence have the same value in every call of one decoder object).  In each case: an object
        # that can receive syndrome-dependent channel probabilities must have every use DOMINATED (earlier, in an enclosing region, on every path)
        # by an update_channel_probs of this call - otherwise probabilities conditioned on an earlier syndrome can still be in place.
        written = {fld for fld, ln, v, fn in r.field_writes if '.' not in fld}
        cfg_tests = []
        for src_t, deps, ln, fn in r.tests:
            if src_t in cfg_tests or not deps or fn.split('::')[0] != f.ref.split('::')[0]:
                continue            # only tests written in the decoder's own module
            if all(d == 'const' or d.startswith('cache:') or (d.startswith('field:') and d[6:].split('.')[0] not in written) for d in deps):
                cfg_tests.append(src_t)
        cfg_tests = cfg_tests[:6]
        rbw = []
        for gamma in itertools.product((True, False), repeat=len(cfg_tests)):
            forced = dict(zip(cfg_tests, gamma))
            rg = analyse(name, forced)[2] if cfg_tests else r
            calls = list(zip(rg.ext_calls, rg.ext_ctx))
            dirty = {c_[0] for c_, _ in calls if c_[1] == 'update_channel_probs' and any(d.startswith(tainted) for a in c_[3] for d in a.deps)}
            for (obj, m, ln, args, kws), cx in calls:
                if obj not in dirty or m == 'update_channel_probs':
                    continue
                if not any(c2[0] == obj and c2[1] == 'update_channel_probs' and Effects.dominates(cx2, cx) for c2, cx2 in calls):
                    rbw.append('%s.%s (line %d) can run with channel probabilities left by an earlier decode (conditioned on that decode\'s syndrome): '
                               'no update_channel_probs precedes it on every path%s' % (obj, m, ln, (' when ' + ', '.join('%s is %s' % kv for kv in forced.items())) if forced else ''))
        rbw = sorted(set(rbw))[:4]
        problems = (['syndrome-dependent value stored in field %s (line %d, %s)' % b for b in bad] + rbw)
        # a field of the decoder assigned, or an object held in one of its fields modified in place (a memo being filled, a block of pre-drawn random numbers):
        # whether the correction can then depend on the call history is outside the frame rule -> undecided, the reused-vs-fresh run-time contract decides
        if (other or fw) and not problems:
            raise Unsupported('decode assigns field(s) %s / modifies in place %s of the decoder: history independence is outside the frame rule' % (other, [w[0] for w in fw][:4]))
        return _res('refuted' if problems else 'discharged', '; '.join(problems) or 'no syndrome-dependent state stored; third-party channel state overwritten before use', r,
                    model=dict(decoder=name, problems=problems) if problems else None)
    if which == 'extstate':
        bad = sorted(d for d in r.ret.deps if d.startswith('extstate:'))
        return _res('refuted' if bad else 'discharged', ('returned correction depends on unspecified third-party state: %s' % bad) if bad else
                    'returned correction built from returned values only (%s)' % sorted(d for d in r.ret.deps if d.startswith('extret:')), r,
                    model=dict(decoder=name, reads=bad) if bad else None)
    if which == 'sources':
        allowed = ALLOWED_SOURCE_PREFIX + (('rng:',) if name in RANDOMISED else ())
        bad = sorted(d for d in r.ret.deps if not d.startswith(allowed) and not d.startswith('extstate:'))
        amb = [a for a in r.ambient]
        if 'fresh' not in r.ret.alias or (r.ret.alias - {'fresh'} - {a for a in r.ret.alias if a.startswith('extret:')}):
            bad.append('returned object may alias %s' % sorted(r.ret.alias - {'fresh'}))
        problems = bad + ['ambient read %s (line %d)' % (a[0], a[1]) for a in amb]
        return _res('refuted' if problems else 'discharged', ('unexpected sources: %s' % problems) if problems else 'sources: %s' % sorted(r.ret.deps), r,
                    model=dict(decoder=name, sources=problems) if problems else None)
    raise KeyError(which)


def ob_noise(fname):
    """the noise-model functions do not write their cached result / their arguments"""
    f = {'probability_distribution': PEM.methods['probability_distribution'], 'generate': PEM.methods['generate'],
         'get_weights': BEM.methods['get_weights'], 'error_probability': BEM.methods['error_probability']}[fname]
    ef = Effects(class_cfg=class_cfg(), nullness={'rng': False})
    r = ef.analyse(f, self_cls=PEM)
    bad = sorted({(w[0], w[1], w[2]) for w in r.writes if w[0].startswith(('cache:', 'param:'))})
    own = sorted({(w[0], w[1], w[2]) for w in r.writes if w[0].startswith(('field:', 'self'))})
    if own and not bad:
        # the model fills / updates a container of its own (e.g. a per-instance memo of its tables): whether a table already handed out is altered is outside the
        # frame rule -> undecided, the bounded clause compares the tables byte-wise
        raise Unsupported('%s writes into the model object itself (%s): outside the frame rule' % (fname, own[:3]))
    return _res('refuted' if bad else 'discharged', ('in-place write: %s' % bad) if bad else 'no write to cached tables, arguments or fields', r,
                model=dict(function=fname, writes=bad) if bad else None)


CLAUSES = ['frame.syndrome', 'frame.cache', 'state', 'extstate', 'sources']


def obligations(tier):
    obs = []
    for name in DECODERS:
        for w in CLAUSES:
            obs.append(Ob('C06.%s[%s]' % (w, name), ob, dict(name=name, which=w), timeout=60, kind='state', backend='pyvc-effects'))
    for fn in ('probability_distribution', 'generate', 'get_weights', 'error_probability'):
        obs.append(Ob('C06.noise.frame[%s]' % fn, ob_noise, dict(fname=fn), timeout=60, kind='state', backend='pyvc-effects'))
    return obs


# ------------------------------------------------------------------------------------------------ native layer
from bounded import decoders as BD    # noqa
from bounded import codes as BC    # noqa


def native_history(dname, cname, size, defo, kw, rnd, nsyn=6, dkw=None):
    """run-time contract: decode is a function of the syndrome; arguments and cached tables untouched"""
    code = BC.make(cname, size, defo, kw)
    dkw = dict(dkw or {})
    dec, em = BD.build(dname, code, **dkw)
    syns = BD.syndromes(code, rnd, nsyn) + BD.sector_syndromes(code, rnd, 2)
    snap0 = BD.snapshot(code, em, 0.1)
    hist = []
    for k, s in enumerate(syns + [syns[0]] + syns[::-1]):
        arg = s.copy()
        try:
            got = np.asarray(BD.quiet_decode(dec, arg))
        except Exception as e:      # noqa
            return 'decode raises %s: %s' % (type(e).__name__, e), dict(history=[h.tolist() for h in hist], syndrome=s.tolist())
        if not np.array_equal(arg, s):
            return 'decode modified the caller\'s syndrome array (positions %s)' % np.nonzero(arg != s)[0][:6].tolist(), dict(history=[h.tolist() for h in hist], syndrome=s.tolist())
        if BD.snapshot(code, em, 0.1) != snap0:
            return 'decode altered a cached table (probability tables / H / Hx / Hz / logicals)', dict(history=[h.tolist() for h in hist], syndrome=s.tolist())
        fresh, _ = BD.build(dname, BC.make(cname, size, defo, kw), **dkw)
        want = np.asarray(BD.quiet_decode(fresh, s.copy()))
        if dname in BD.RANDOMISED:
            ok = got.shape == want.shape and set(np.unique(got).tolist()) <= {0, 1}
        else:
            ok = np.array_equal(got, want)
        if not ok:
            return ('after %d earlier decodes the correction for a syndrome of weight %d differs from a fresh decoder\'s (weights %d vs %d)'
                    % (len(hist), int(s.sum()), int(got.sum()), int(want.sum()))), dict(history=[h.tolist() for h in hist], syndrome=s.tolist())
        hist.append(s)
    return None, None


def replay(r):
    name = r['name']
    dname = name.split('[')[1].rstrip(']')
    rnd = random.Random(0)
    if dname in DECODERS:
        for (d, cname, size, defo, kw) in BD.cases('quick'):
            if d != dname:
                continue
            why, inp = native_history(d, cname, size, defo, kw, rnd)
            if why:
                return dict(confirmed=True, input=dict(decoder=d, code=cname, size=list(size), deformation=defo, **(inp or {})), detail=why)
        return dict(confirmed=None, detail='no failing history found on the bounded cases for %s' % dname)
    return dict(confirmed=None, detail='no native replay')


def replay_file(data):
    inp = data.get('input') or {}
    why, _ = native_history(inp['decoder'], inp['code'], tuple(inp['size']), inp.get('deformation'), {}, random.Random(0), dkw=inp.get('decoder_options'))
    return dict(confirmed=bool(why), detail=why or 'holds', input=inp)


def bounded(tier, seed):
    rnd = random.Random(seed)
    ev, nt, viol, samples = 0, set(), [], []
    t0 = time.time()
    for (d, cname, size, defo, kw) in BD.cases(tier):
        if time.time() - t0 > (120 if tier == 'quick' else 1500):
            break
        for rep in range(1 if tier == 'quick' else 4):
            try:
                why, inp = native_history(d, cname, size, defo, kw, rnd, nsyn=5 if tier == 'quick' else 10)
            except Exception as e:      # noqa
                why, inp = 'harness/constructor raises %s: %s' % (type(e).__name__, e), {}
            ev += 1; nt.add((d, cname, size, defo, rep))
            if len(samples) < 3:
                samples.append(dict(decoder=d, code=cname, size=size, deformation=defo, ok=why is None))
            if why:
                viol.append(dict(obligation='C06.bounded[%s]' % d, input=dict(decoder=d, code=cname, size=list(size), deformation=defo, **(inp or {})), detail=why))
                break
    # non-default decoder options that change what state a decode leaves behind
    for (d, cname, size, dkw) in [('BeliefPropagationOSDDecoder', 'Toric2DCode', (3, 3), {'channel_update': True}), ('BeliefPropagationOSDDecoder', 'Planar2DCode', (3, 3), {'channel_update': True}),
                                  ('BeliefPropagationOSDDecoder', 'Toric3DCode', (2, 2, 2), {'channel_update': True}), ('BeliefPropagationOSDDecoder', 'Toric2DCode', (4, 4), {'channel_update': True, 'bp_method': 'product_sum'})]:
        for rep in range(2 if tier == 'quick' else 6):
            try:
                why, inp = native_history(d, cname, size, None, {}, rnd, nsyn=5 if tier == 'quick' else 10, dkw=dkw)
            except Exception as e:      # noqa
                why, inp = 'harness/constructor raises %s: %s' % (type(e).__name__, e), {}
            ev += 1; nt.add((d, cname, size, str(dkw), rep))
            if why:
                viol.append(dict(obligation='C06.bounded.options[%s]' % d, input=dict(decoder=d, code=cname, size=list(size), deformation=None, decoder_options=dkw, **(inp or {})), detail=why))
                break
    out, seen = [], set()
    for v in viol:
        if v['obligation'] not in seen:
            seen.add(v['obligation']); out.append(v)
    return dict(bound='BP-OSD also with channel_update=True; histories include sector-pure syndromes (X-only / Z-only errors); every decoder x 2-9 (code, size, deformation) cases; histories of 2k+1 decodes over k random valid syndromes incl. the zero syndrome, each compared with a fresh decoder; syndrome array and cached tables compared byte-wise',
                evaluations=ev, distinct_nontrivial=len(nt), rule='reused decoder vs fresh decoder on the same syndrome (validity only for the seeded-random sweep decoders)',
                samples=samples, violations=out)
