"""C07 - Pauli noise model is the stated i.i.d. channel and is sampled faithfully.

Functions under contract (all pointwise in the qubit index => every n; floats as reals, A-real):
  panqec/error_models/_pauli_error_model.py::fast_choice
  panqec/error_models/_pauli_error_model.py::PauliErrorModel.probability_distribution
  panqec/error_models/_pauli_error_model.py::PauliErrorModel.generate
  panqec/bpauli.py::pauli_to_bsf
  panqec/error_models/_base_error_model.py::BaseErrorModel.get_weights
  panqec/decoders/belief_propagation/bposd_decoder.py::BeliefPropagationOSDDecoder.update_probabilities
  panqec/decoders/belief_propagation/bposd_decoder.py::BeliefPropagationOSDDecoder.decode   (channel priors handed to ldpc)
"""
import random
import numpy as np
import z3
from contracts.common import *
from pyvc.values import Alt
from pyvc.rules import pointwise_range_loop
from pyvc.runner import Ob

PROPERTY = 'C07'
LEVEL = 'proof'
EXPLANATION = ('real-arithmetic VCs, pointwise in a symbolic qubit index over symbolic n, from the symbolically executed noise-model '
               'functions; loops by the derived rule R-pointwise; sampling frequencies and exact tables as bounded cross-check')
ASSUMPTIONS = [
    'A-real: float arithmetic treated as real arithmetic (the float cumulative sum in fast_choice can fall short of 1 by an ulp, then options[-1] is returned)',
    'A-ext: rng.random() returns a uniform draw u in [0,1), independent between calls (numpy Generator)',
    'A-numpy: ones/zeros/hstack/astype/==/+ on arrays are elementwise as documented; bool+bool is logical or',
    'R-pointwise: derived loop rule (pyvc/rules.py) with syntactic side conditions checked on the AST',
    'precondition: 0 <= p <= 1, r_x, r_y, r_z >= 0, r_x + r_y + r_z = 1 (the constructor checks the sum with np.isclose)',
    'precondition (C08.perm, proved there): code.get_deformation returns a permutation of {X,Y,Z}',
    'log is uninterpreted and strictly increasing; the LLR sign lemma uses only monotonicity and log(1)=0',
    'update_probabilities: precondition that the conditioning event has non-zero probability on the un-guarded branch (1 - p_z - p_y != 0)',
]
TRUSTED_BASE = ['z3 5.1.0 (linear/nonlinear real arithmetic + UF)', 'pyvc symbolic executor + R-pointwise']
PEM = 'panqec/error_models/_pauli_error_model.py'
BEM = 'panqec/error_models/_base_error_model.py'
BPO = 'panqec/decoders/belief_propagation/bposd_decoder.py'

U = z3.Function('u', INT, REAL)          # the uniform draw consumed for qubit i


def _rng_intr():
    def rnd(x, st, a, k):
        idx = x.comp_idx[-1] if x.comp_idx else z3.IntVal(0)
        return U(Z(idx))
    return {'rng.random': rnd}


def sym_fast_choice():
    m = Module.load(PEM)
    f = m.funcs['fast_choice']
    ps = [z3.Real('q%d' % k) for k in range(4)]
    rng = Obj(None, {}, 'rng')
    x = X(m, _rng_intr())
    st, ret = x.run(f, [T([E.const(c) for c in 'IXYZ']), T(ps, 'list')], {'rng': rng})
    return dict(ps=ps, ret=ret, st=st, f=f, x=x, u=U(z3.IntVal(0)))


def _is(ret, ch):
    return eq(ret, E.const(ch))


def sym_probability_distribution(deformed):
    m = Module.load(PEM)
    cls = m.classes['PauliErrorModel']
    f = cls.methods['probability_distribution']
    n = z3.Int('n')
    rx, ry, rz, p = z3.Reals('r_x r_y r_z p')
    DX = {c: z3.Function('D_' + c, INT, INT) for c in 'XYZ'}     # D_i(P) encoded 0,1,2 = X,Y,Z

    calls = []

    def getdef(x, st, a, k):
        i = x.comp_idx[-1]
        calls.append((i, a, k))
        return D({c: E([(DX[c](i) == j, 'XYZ'[j]) for j in range(3)]) for c in 'XYZ'})
    coords = Obj(None, {}, 'coords')
    code = Obj(None, {'n': n, 'qubit_coordinates': coords}, 'code')
    selfo = Obj(cls, {'_direction': T([rx, ry, rz]), '_deformation_name': E.const('XZZX') if deformed else NONE,
                      '_deformation_kwargs': D({'deformation_axis': E.const('z')}) if deformed else D({})}, 'error_model')
    intr = {'code.get_deformation': getdef, ('method', 'code', 'get_deformation'): lambda x, st, o, a, k: getdef(x, st, a, k),
            ('index', 'coords'): lambda x, st, b, i: ('coord', i), ('len', 'coords'): lambda x, st, v: n,
            'loop:range': pointwise_range_loop}
    x = X(m, intr)
    st, ret = x.run(f.node and f, [code, p], {}, selfo)
    return dict(n=n, r=(rx, ry, rz), p=p, DX=DX, ret=ret, st=st, f=f, x=x, calls=calls)


def _perm_pre(DX, i):
    vals = [DX[c](i) for c in 'XYZ']
    return z3.And([z3.And(v >= 0, v <= 2) for v in vals] + [z3.Distinct(*vals)])


def sym_generate():
    m = Module.load(PEM)
    cls = m.classes['PauliErrorModel']
    f = cls.methods['generate']
    n = z3.Int('n')
    fs, arrs = prob_tables(n)
    code = Obj(None, {'n': n}, 'code')
    selfo = Obj(cls, {}, 'error_model')
    intr = dict(_rng_intr())
    intr[('method', 'error_model', 'probability_distribution')] = lambda x, st, o, a, k: T([arrs[c] for c in 'ixyz'])
    x = X(m, intr)
    rng = Obj(None, {}, 'rng')
    st, ret = x.run(f, [code, z3.Real('p')], {'rng': rng}, selfo)
    return dict(n=n, fs=fs, ret=ret, st=st, f=f, x=x, funcs=[f, m.funcs['fast_choice'], get_func('panqec/bpauli.py', 'pauli_to_bsf')])


def sym_get_weights():
    m = Module.load(BEM)
    cls = m.classes['BaseErrorModel']
    f = cls.methods['get_weights']
    n = z3.Int('n')
    fs, arrs = prob_tables(n)
    selfo = Obj(cls, {}, 'error_model')
    intr = {('method', 'error_model', 'probability_distribution'): lambda x, st, o, a, k: T([arrs[c] for c in 'ixyz'])}
    x = X(m, intr)
    eps = z3.Real('eps')
    st, ret = x.run(f, [Obj(None, {'n': n}, 'code'), z3.Real('p')], {'eps': eps}, selfo)
    return dict(n=n, fs=fs, eps=eps, ret=ret, st=st, f=f, x=x)


def sym_update_probabilities(direction):
    m = Module.load(BPO)
    cls = m.classes['BeliefPropagationOSDDecoder']
    f = cls.methods['update_probabilities']
    n = z3.Int('n')
    fs, arrs = prob_tables(n)
    cf = z3.Function('correction', INT, INT)
    corr = Arr((n,), lambda i: cf(Z(i)), 'int', 'param:correction')
    x = X(m, {'loop:range': pointwise_range_loop})
    st, ret = x.run(f, [corr, arrs['x'], arrs['y'], arrs['z']], {'direction': E.const(direction)}, Obj(cls, {}, 'decoder'))
    return dict(n=n, fs=fs, cf=cf, ret=ret, st=st, f=f, x=x)


def _inst(pre, i, x):
    """the per-qubit precondition instantiated at every generic loop / element index the executor introduced"""
    out = list(pre)
    for k, n in x.loop_idx:
        out += [z3.substitute(c, (i, k)) for c in pre]
    return out


def _noraise(st):
    return z3.Or([c for c, _, _ in st.raises] + [z3.BoolVal(False)])


def _side(st):
    return z3.Or([z3.And(c, z3.Not(g)) for _, c, g in st.side] + [z3.BoolVal(False)])


def ob(which, timeout=60):
    i = z3.Int('i')
    ET = {}
    if which.startswith('fast_choice'):
        s = sym_fast_choice()
        ps, ret, u = s['ps'], s['ret'], s['u']
        ET = {'u': u}
        pre = [u >= 0, u < 1] + [q >= 0 for q in ps] + [z3.Sum(ps) == 1]
        if which == 'fast_choice.cover':
            return cover(which, check(pre + [ps[0] > 0, ps[1] > 0, ps[2] > 0, ps[3] > 0, _is(ret, 'Y')], timeout), [s['f']], s['x'])
        if which == 'fast_choice.noraise':
            goal = pre + [z3.Or(_noraise(s['st']), _side(s['st']))]
            return result(which, check(goal, timeout, eval_terms=ET), [s['f']], s['x'], goal)
        if which == 'fast_choice.interval':
            # returns option k  <=>  sum_{j<k} p_j <= u < sum_{j<=k} p_j : each Pauli's preimage is an interval of length p_k
            bad = []
            lo = z3.RealVal(0)
            for k, ch in enumerate('IXYZ'):
                hi = lo + ps[k]
                bad.append(_is(ret, ch) != z3.And(lo <= u, u < hi))
                lo = hi
            goal = pre + [z3.Or(bad)]
            return result(which, check(goal, timeout, eval_terms=ET), [s['f']], s['x'], goal)
        if which == 'fast_choice.total':
            goal = pre + [z3.Not(z3.Or([_is(ret, ch) for ch in 'IXYZ']))]
            return result(which, check(goal, timeout, eval_terms=ET), [s['f']], s['x'], goal)
    if which.startswith('dist'):
        deformed = '.deformed' in which
        s = sym_probability_distribution(deformed)
        n, (rx, ry, rz), p, DX, ret = s['n'], s['r'], s['p'], s['DX'], s['ret']
        ET = {'D_' + c: DX[c](i) for c in 'XYZ'}
        if not (isinstance(ret, T) and len(ret.items) == 4 and all(isinstance(a, Arr) for a in ret.items)):
            raise Unsupported('probability_distribution does not return four arrays')
        pre = [n >= 1, i >= 0, i < n, p >= 0, p <= 1, rx >= 0, ry >= 0, rz >= 0, rx + ry + rz == 1]
        if deformed:
            pre.append(_perm_pre(DX, i))
        got = [Z(a.f(i)) for a in ret.items]
        base = {'X': p * rx, 'Y': p * ry, 'Z': p * rz}
        if which.endswith('.shape'):
            goal = pre + [z3.Or([Z(a.shape[0]) != n for a in ret.items] + [z3.BoolVal(any(a.rank != 1 for a in ret.items))])]
            return result(which, check(goal, timeout, eval_terms=ET), [s['f']], s['x'], goal)
        if which.endswith('.values'):
            want = [1 - p]
            for c in 'XYZ':
                if deformed:
                    want.append(z3.If(DX[c](i) == 0, base['X'], z3.If(DX[c](i) == 1, base['Y'], base['Z'])))
                else:
                    want.append(base[c])
            goal = pre + [z3.Or([g != w for g, w in zip(got, want)])]
            return result(which, check(goal, timeout, eval_terms=ET), [s['f']], s['x'], goal)
        if which.endswith('.normal'):
            goal = pre + [z3.Or(z3.Sum(got) != 1, z3.Or([g < 0 for g in got]))]
            return result(which, check(goal, timeout, eval_terms=ET), [s['f']], s['x'], goal)
        if which.endswith('.noraise'):
            goal = _inst(pre, i, s['x']) + [z3.Or(_noraise(s['st']), _side(s['st']))]
            return result(which, check(goal, timeout, eval_terms=ET), [s['f']], s['x'], goal,
                          detail='raise sites %s' % [(nm, ln) for _, nm, ln in s['st'].raises])
        if which.endswith('.cover'):
            return cover(which, check(pre + [p > 0, rx > 0, ry > rx, rz > ry] + ([DX['X'](i) == 2] if deformed else []) + [got[1] == base['Z'] if deformed else got[1] == base['X']], timeout), [s['f']], s['x'])
    if which.startswith('generate'):
        s = sym_generate()
        n, fs, ret = s['n'], s['fs'], s['ret']
        if not (isinstance(ret, Arr) and ret.rank == 1):
            raise Unsupported('generate does not return a 1-D array')
        u = U(i)
        ET = dict({'p_' + c: fs[c](i) for c in 'ixyz'}, u=u)
        pre = [n >= 1, i >= 0, i < n, u >= 0, u < 1] + [fs[c](i) >= 0 for c in 'ixyz'] + [z3.Sum([fs[c](i) for c in 'ixyz']) == 1]
        xbit, zbit = Z(ret.f(i)), Z(ret.f(n + i))
        c0 = fs['i'](i); c1 = c0 + fs['x'](i); c2 = c1 + fs['y'](i)
        isI, isX, isY = u < c0, z3.And(c0 <= u, u < c1), z3.And(c1 <= u, u < c2)
        isZ = z3.And(c2 <= u)
        if which == 'generate.shape':
            goal = [n >= 1, Z(ret.shape[0]) != 2 * n]
            return result(which, check(goal, timeout, eval_terms=ET), s['funcs'], s['x'], goal)
        if which == 'generate.bits':
            # qubit i carries I/X/Y/Z exactly on the four consecutive intervals of lengths p_I,p_X,p_Y,p_Z; BSF bits follow
            wantx = z3.If(z3.Or(isX, isY), 1, 0); wantz = z3.If(z3.Or(isY, isZ), 1, 0)
            goal = pre + [z3.Or(xbit != wantx, zbit != wantz)]
            return result(which, check(goal, timeout, eval_terms=ET), s['funcs'], s['x'], goal)
        if which == 'generate.extremes':
            # p = 0 (p_I = 1): no error for every draw;  p = 1 (p_I = 0): never the identity
            goal = pre + [z3.Or(z3.And(fs['i'](i) == 1, z3.Or(xbit != 0, zbit != 0)), z3.And(fs['i'](i) == 0, xbit == 0, zbit == 0))]
            return result(which, check(goal, timeout, eval_terms=ET), s['funcs'], s['x'], goal)
        if which == 'generate.noraise':
            goal = _inst(pre, i, s['x']) + [z3.Or(_noraise(s['st']), _side(s['st']))]
            return result(which, check(goal, timeout, eval_terms=ET), s['funcs'], s['x'], goal)
        if which == 'generate.cover':
            return cover(which, check(pre + [fs['y'](i) > 0, xbit == 1, zbit == 1], timeout), s['funcs'], s['x'])
    if which.startswith('weights'):
        s = sym_get_weights()
        n, fs, eps, ret = s['n'], s['fs'], s['eps'], s['ret']
        if not (isinstance(ret, T) and len(ret.items) == 2):
            raise Unsupported('get_weights does not return a pair')
        wx, wz = Z(ret.items[0].f(i)), Z(ret.items[1].f(i))
        qx, qz = fs['x'](i) + fs['y'](i), fs['z'](i) + fs['y'](i)
        lg = UF['log']
        ET = {'p_' + c: fs[c](i) for c in 'ixyz'}
        pre = [n >= 1, i >= 0, i < n, eps > 0] + [fs[c](i) >= 0 for c in 'ixyz'] + [z3.Sum([fs[c](i) for c in 'ixyz']) == 1]
        if which == 'weights.llr':
            goal = pre + [z3.Or(wx != -lg((qx + eps) / (1 - qx + eps)), wz != -lg((qz + eps) / (1 - qz + eps)))]
            return result(which, check(goal, timeout, eval_terms=ET), [s['f']], s['x'], goal)
        if which == 'weights.sign':
            # positive iff the flip marginal is below 1/2 (log strictly increasing, log 1 = 0): instantiate monotonicity at the two arguments
            ax, az = (qx + eps) / (1 - qx + eps), (qz + eps) / (1 - qz + eps)
            mono = [lg(z3.RealVal(1)) == 0]
            for a_ in (ax, az):
                mono += [z3.Implies(a_ < 1, lg(a_) < 0), z3.Implies(a_ > 1, lg(a_) > 0), z3.Implies(a_ == 1, lg(a_) == 0)]
            goal = pre + mono + [z3.Or((wx > 0) != (qx < z3.RealVal('1/2')), (wz > 0) != (qz < z3.RealVal('1/2')))]
            return result(which, check(goal, timeout, eval_terms=ET), [s['f']], s['x'], goal)
        if which == 'weights.noraise':
            goal = _inst(pre, i, s['x']) + [z3.Or(_noraise(s['st']), _side(s['st']))]
            return result(which, check(goal, timeout, eval_terms=ET), [s['f']], s['x'], goal)
    if which.startswith('update'):
        direction = 'z->x' if 'zx' in which else 'x->z'
        s = sym_update_probabilities(direction)
        n, fs, cf, ret = s['n'], s['fs'], s['cf'], s['ret']
        if not isinstance(ret, Arr):
            raise Unsupported('update_probabilities does not return an array')
        px, py, pz = fs['x'](i), fs['y'](i), fs['z'](i)
        ET = dict({'p_' + c: fs[c](i) for c in 'xyz'}, corr=cf(i))
        a, b = (pz, px) if direction == 'z->x' else (px, pz)     # condition on a-type flip outcome, update b-type flip prior
        pre = [n >= 1, i >= 0, i < n, z3.Or(cf(i) == 0, cf(i) == 1), px >= 0, py >= 0, pz >= 0, px + py + pz <= 1,
               z3.Implies(cf(i) == 0, a + py < 1)]
        got = Z(ret.f(i))
        if which.endswith('.cond'):
            # P(b-flip | a-flip observed) = p_y/(p_a+p_y) ; P(b-flip | no a-flip) = p_b/(1-p_a-p_y); 0 when the event has probability 0
            want = z3.If(cf(i) == 1, z3.If(a + py != 0, py / (a + py), 0), b / (1 - a - py))
            goal = pre + [got != want]
            return result(which, check(goal, timeout, eval_terms=ET), [s['f']], s['x'], goal)
        if which.endswith('.noraise'):
            goal = _inst(pre, i, s['x']) + [z3.Or(_noraise(s['st']), _side(s['st']))]
            return result(which, check(goal, timeout, eval_terms=ET), [s['f']], s['x'], goal,
                          detail='division sites %d' % len(s['st'].side))
        if which.endswith('.shape'):
            goal = [n >= 1, Z(ret.shape[0]) != n]
            return result(which, check(goal, timeout, eval_terms=ET), [s['f']], s['x'], goal)
    if which == 'update.baddir':
        m = Module.load(BPO); cls = m.classes['BeliefPropagationOSDDecoder']; f = cls.methods['update_probabilities']
        n = z3.Int('n'); fs, arrs = prob_tables(n)
        x = X(m, {'loop:range': pointwise_range_loop})
        st, ret = x.run(f, [Arr((n,), lambda k: 0, 'int'), arrs['x'], arrs['y'], arrs['z']], {'direction': E.const('y->x')}, Obj(cls, {}, 'decoder'))
        goal = [z3.Not(_noraise(st))]
        return result(which, check(goal, timeout, eval_terms=ET), [f], x, goal)
    raise KeyError(which)


NAMES = ['fast_choice.cover', 'fast_choice.noraise', 'fast_choice.interval', 'fast_choice.total',
         'dist.plain.cover', 'dist.plain.shape', 'dist.plain.values', 'dist.plain.normal', 'dist.plain.noraise',
         'dist.deformed.cover', 'dist.deformed.shape', 'dist.deformed.values', 'dist.deformed.normal', 'dist.deformed.noraise',
         'generate.cover', 'generate.shape', 'generate.bits', 'generate.extremes', 'generate.noraise',
         'weights.llr', 'weights.sign', 'weights.noraise',
         'update.zx.cond', 'update.zx.noraise', 'update.zx.shape', 'update.xz.cond', 'update.xz.noraise', 'update.xz.shape', 'update.baddir']


def obligations(tier):
    obs = [Ob('C07.' + n, ob, dict(which=n), timeout=60) for n in NAMES]
    # belief-propagation channel probabilities handed to the third-party decoder objects: the sector wiring / prior-value obligation of C05, claimed here for the
    # clause "priors handed to decoders are exactly the per-qubit X-flip and Z-flip marginals" (same VC, generated from BeliefPropagationOSDDecoder.decode)
    from props.C05 import ob_bposd
    for css in (True, False):
        for cu in ((False, True) if css else (False,)):
            obs.append(Ob('C07.priors.bposd[css=%s,channel_update=%s]' % (css, cu), ob_bposd, dict(is_css=css, channel_update=cu), timeout=60, kind='plain'))
    return obs


# ------------------------------------------------------------------------------------------------ native layer
from bounded.util import frac, toint, StubRng, all_code_classes, deformation_variants, small_sizes   # noqa
from bounded import noise as N    # noqa


def native_bposd_priors(cname, size, code_defo, noise_defo, direction, prate):
    """channel probabilities actually loaded into the ldpc decoder objects by one decode() = flip marginals of the real noise model, in the column order of the
    matrix each object was built from (CSS: x_decoder <- X-flip marginal, z_decoder <- Z-flip marginal; non-CSS [H_X | H_Z]: first n columns <- Z-flip, last n <- X-flip)"""
    import io, contextlib
    from panqec.error_models import PauliErrorModel
    from panqec.decoders import BeliefPropagationOSDDecoder
    import panqec.codes as C
    code = getattr(C, cname)(*size)
    if code_defo:
        code.deform(code_defo)
    em = PauliErrorModel(*direction, deformation_name=noise_defo)
    dec = BeliefPropagationOSDDecoder(code, em, prate, max_bp_iter=10, osd_order=0)
    with contextlib.redirect_stdout(io.StringIO()):
        dec.decode(np.zeros(code.n_stabilizers, dtype=np.uint8))
    pi, px, py, pz = em.probability_distribution(code, prate)
    fx, fz = np.asarray(px + py, dtype=float), np.asarray(pz + py, dtype=float)
    if code.is_css:
        got = [('x_decoder', np.asarray(dec.x_decoder.channel_probs, dtype=float), fx), ('z_decoder', np.asarray(dec.z_decoder.channel_probs, dtype=float), fz)]
    else:
        got = [('decoder', np.asarray(dec.decoder.channel_probs, dtype=float), np.hstack([fz, fx]))]
    for nm, g, w in got:
        if g.shape != w.shape or not np.allclose(g, w, rtol=1e-9, atol=1e-12):
            k = int(np.argmax(np.abs(g - w))) if g.shape == w.shape else 0
            return '%s.channel_probs[%d] = %r, the flip marginal of that column is %r' % (nm, k, float(g[k]) if g.shape == w.shape else g.shape, float(w[k]))
    return None


BP_PRIOR_CASES = [('Toric2DCode', (3, 4), 'XZZX', None, (0.1, 0.2, 0.7)), ('Planar2DCode', (3, 3), 'XZZX', None, (0.7, 0.1, 0.2)), ('Toric2DCode', (3, 3), None, None, (0.1, 0.2, 0.7)),
                  ('Toric2DCode', (3, 3), None, 'XZZX', (0.1, 0.2, 0.7)), ('Toric2DCode', (2, 3), 'XY', 'XY', (0.6, 0.3, 0.1)), ('RotatedPlanar2DCode', (3, 3), 'XZZX', 'XZZX', (0.05, 0.05, 0.9))]


def replay(r):
    """turn the solver's counter-model into a concrete input of the real function and evaluate the contract natively"""
    m = r.get('model') or {}
    grp = r['name'].split('.')[1]
    if grp == 'priors':
        for cname, size, cd, nd, direction in BP_PRIOR_CASES:
            why = native_bposd_priors(cname, size, cd, nd, direction, 0.1)
            if why:
                return dict(confirmed=True, input=dict(code=cname, size=list(size), code_deformation=cd, noise_deformation=nd, direction=list(direction), error_rate=0.1), detail=why)
        return dict(confirmed=False, detail='the channel probabilities loaded into the ldpc objects are the flip marginals on %d (code, deformation, noise) cases' % len(BP_PRIOR_CASES))
    if grp == 'fast_choice':
        ps = [frac(m.get('q%d' % k)) for k in range(4)]; u = frac(m.get('u'))
        why = N.nat_fast_choice(ps, u)
        return dict(confirmed=bool(why), input=dict(probs=ps, u=u), detail=why or 'real fast_choice agrees with the interval contract on the model input')
    if grp == 'dist':
        from panqec.error_models import PauliErrorModel
        direction = (frac(m.get('r_x')), frac(m.get('r_y')), frac(m.get('r_z'))); p = frac(m.get('p'))
        n = max(1, min(toint(m.get('n'), 1), 6)); i = min(toint(m.get('i')), n - 1)
        perm = ['XYZ'[min(2, max(0, toint(m.get('D_' + c), k)))] for k, c in enumerate('XYZ')]
        deformed = 'deformed' in r['name']

        class Stub:
            qubit_coordinates = [(k,) for k in range(n)]

            def __init__(s_):
                s_.n = n

            def get_deformation(s_, loc, name, **kw):
                return dict(zip('XYZ', perm)) if loc == (i,) else {'X': 'X', 'Y': 'Y', 'Z': 'Z'}
        if abs(sum(direction) - 1) > 1e-9:
            return dict(confirmed=None, detail='model direction does not sum to 1')
        why = N.nat_dist(Stub(), direction, p, 'XZZX' if deformed else None)
        return dict(confirmed=bool(why), input=dict(n=n, direction=direction, error_rate=p, deformation_at_i=perm if deformed else None, i=i), detail=why or 'real probability_distribution satisfies the contract on the model input')
    if grp in ('generate', 'weights'):
        t = [frac(m.get('p_' + c)) for c in 'ixyz']; u = frac(m.get('u'))
        em = N._TableModel([[v] for v in t]); code = N._NCode(1)
        why = N.nat_generate(em, code, 0.1, [u]) if grp == 'generate' else N.nat_weights(em, code, 0.1, eps=max(frac(m.get('eps'), 1e-20), 1e-300))
        return dict(confirmed=bool(why), input=dict(tables_at_i=t, u=u), detail=why or 'real function satisfies the contract on the model input')
    if grp == 'update':
        d = 'z->x' if '.zx.' in r['name'] else 'x->z'
        px, py, pz = [frac(m.get('p_' + c)) for c in 'xyz']; c = toint(m.get('corr'))
        try:
            why = N.nat_update([c], [px], [py], [pz], d)
        except Exception as e:
            why = 'raises %s: %s' % (type(e).__name__, e)
        return dict(confirmed=bool(why), input=dict(correction=[c], px=px, py=py, pz=pz, direction=d), detail=why or 'real update_probabilities satisfies the contract on the model input')
    return None


def replay_file(data):
    inp = data.get('input') or {}
    name = data.get('obligation', '')
    return replay(dict(name=name, model=data.get('solver_model') or {}))


def bounded(tier, seed):
    from panqec.error_models import PauliErrorModel
    rnd = random.Random(seed)
    ev, nt, viol, samples = 0, set(), [], []

    def rec(ob_, inp, why, nontrivial):
        nonlocal ev
        ev += 1
        if nontrivial:
            nt.add(repr(inp))
        if len(samples) < 4 and nontrivial:
            samples.append(dict(clause=ob_, input=inp, ok=why is None))
        if why:
            viol.append(dict(obligation='C07.bounded.' + ob_, input=inp, detail=why))
    # fast_choice: random distributions, draws on and around every interval boundary
    for _ in range(200 if tier == 'quick' else 2000):
        cuts = sorted(rnd.random() for _ in range(3)); ps = [cuts[0], cuts[1] - cuts[0], cuts[2] - cuts[1], 1 - cuts[2]]
        if rnd.random() < 0.3:
            ps = [1.0, 0, 0, 0] if rnd.random() < 0.5 else [0.0, 0.25, 0.25, 0.5]
        for u in [0.0, rnd.random(), ps[0], max(0.0, ps[0] - 1e-12), ps[0] + ps[1], 0.999999999]:
            if 0 <= u < 1:
                rec('fast_choice', dict(probs=ps, u=u), N.nat_fast_choice(ps, u), True)
    dirs = [(1 / 3, 1 / 3, 1 / 3), (1, 0, 0), (0, 1, 0), (0, 0, 1), (0.1, 0.3, 0.6)]
    maxn = 60 if tier == 'quick' else 300
    for name, cls in all_code_classes():
        sizes = small_sizes(cls, name, maxn, 3 if tier == 'quick' else 4)[: (2 if tier == 'quick' else 6)]
        for size in sizes:
            code = cls(*size)
            for defo, kw in deformation_variants(cls):
                for d in dirs[: (3 if tier == 'quick' else 5)]:
                    for p in (0.0, 0.2, 1.0):
                        inp = dict(code=name, size=size, deformation=defo, kwargs=kw, direction=d, error_rate=p)
                        try:
                            why = N.nat_dist(code, d, p, defo, kw)
                            em = PauliErrorModel(*d, deformation_name=defo, deformation_kwargs=kw or None)
                            if why is None:
                                us = [rnd.random() for _ in range(code.n)]
                                why = N.nat_generate(em, code, p, us)
                            if why is None and 0 < p < 1:
                                why = N.nat_weights(em, code, p)
                        except Exception as e:      # noqa
                            why = 'raises %s: %s' % (type(e).__name__, e)
                        rec('model', inp, why, defo is not None and p > 0 and d[0] != d[2])
    for _ in range(100 if tier == 'quick' else 1000):
        k = rnd.randint(1, 6)
        px, py, pz = [], [], []
        for _j in range(k):
            a, b, c = sorted(rnd.random() for _ in range(3)); px.append(a * 0.9); py.append((b - a) * 0.9); pz.append((c - b) * 0.9)
        corr = [rnd.randint(0, 1) for _ in range(k)]
        for d in ('z->x', 'x->z'):
            rec('update', dict(correction=corr, px=px, py=py, pz=pz, direction=d), N.nat_update(corr, px, py, pz, d), True)
    for cname, size, cd, nd, direction in BP_PRIOR_CASES:
        for prate in ((0.1,) if tier == 'quick' else (0.02, 0.1, 0.3)):
            inp = dict(code=cname, size=list(size), code_deformation=cd, noise_deformation=nd, direction=list(direction), error_rate=prate)
            try:
                why = native_bposd_priors(cname, size, cd, nd, direction, prate)
            except Exception as e:      # noqa
                why = 'raises %s: %s' % (type(e).__name__, e)
            rec('bp_priors', inp, why, True)
    seen, v2 = set(), []
    for v in viol:
        if v['obligation'] not in seen:
            seen.add(v['obligation']); v2.append(v)
    return dict(bound='BP-OSD channel probabilities read back from the ldpc objects on 6 (code, code deformation, noise deformation, direction) cases; fast_choice: %d random distributions x boundary draws; every code class at <= %d sizes with n <= %d x every deformation/axis x 3-5 directions x p in {0,0.2,1}; update_probabilities on random tables' % (200 if tier == 'quick' else 2000, 2 if tier == 'quick' else 6, maxn),
                evaluations=ev, distinct_nontrivial=len(nt),
                rule='run-time contracts (bounded/noise.py) on the real fast_choice / probability_distribution / generate / get_weights / update_probabilities; '
                     'non-trivial: deformed biased models with p>0, boundary draws, random tables',
                samples=samples, violations=v2)
