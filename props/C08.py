"""C08 - Clifford deformation is one consistent single-qubit relabelling.

Functions under contract: per lattice class get_deformation, qubit_axis; StabilizerCode.deform (the three closures, by the
derived rule R-mapvalues); RotatedToric3DCode._deform_operator; PauliErrorModel.probability_distribution (call-site agreement).
"""
import ast, itertools, random, time
import numpy as np
import z3
from contracts.lattices import *
from contracts.common import result, cover
from pyvc.source import Module, FuncSrc, Unsupported, get_class
from pyvc.symex import X, St
from pyvc.values import T, E, D, M, Obj, Opaque, NONE, Z, B, eq, conc, Alt
from pyvc.solve import check, minimise
from pyvc.runner import Ob

PROPERTY = 'C08'
LEVEL = 'proof'
EXPLANATION = ('per class/name/axis: get_deformation executed symbolically at a symbolic qubit location on a lattice of symbolic size; closures of deform by R-mapvalues; '
               'finite symplectic lemma; history independence of deform() and the syndrome/probability identities on real objects as bounded layer')
ASSUMPTIONS = [
    'R-builder for the qubit set Q (precondition of get_deformation: the location is a qubit)',
    'R-mapvalues: `for k in d.keys(): d[k] = f(d[k], k)` with no other write to d  ==>  d\' = {k: f(d[k],k)}, same key set',
    'deform(): the MethodType/copy/hasattr protocol that captures the undeformed methods is Python object machinery outside the subset - bounded only',
    'consequences (commutation, n, k, rank preserved; syndrome\'(D e) = syndrome(e)) follow from C08.lemma + C08.perm + C08.image by the textbook fact that a '
    'qubit-wise symplectic map preserves the symplectic form',
]
TRUSTED_BASE = ['z3 5.1.0', 'pyvc symbolic executor, R-builder, R-mapvalues']
PERMS = {'id': 'XYZ', 'H': 'ZYX', 'XY': 'XZY'}       # image of (X,Y,Z)


def variants():
    out = []
    for cls, (path, pre) in CLASSES.items():
        c = get_class(path, cls)
        names = c.attrs.get('deformation_names', [])
        f = c.methods.get('get_deformation')
        if not names or f is None:
            continue
        has_axis = any(a.arg == 'deformation_axis' for a in f.node.args.args)
        dim = c.attrs['dimension']
        for nm in names:
            if has_axis:
                for ax in 'xyz'[:dim]:
                    out.append((cls, nm, ax))
            else:
                out.append((cls, nm, None))
    return out


def sym_deformation(lat, loc, name, axis):
    kw = {} if axis is None else {'deformation_axis': E.const(axis)}
    st, ret, x = lat.call('get_deformation', [T(list(loc)), E.const(name)], kw)
    return st, ret, x


def _image(ret, p):
    """E value of the returned dict at key p, or None"""
    if isinstance(ret, D):
        return ret.kv.get(p)
    return None


def ob_perm(cls, name, axis, timeout=90):
    lat, pre = lattice(cls)
    dim = lat.qubit_arities()[0]
    loc = [z3.Int('q%d' % i) for i in range(dim)]
    st, ret, x = sym_deformation(lat, loc, name, axis)
    funcs = funcs_of(lat, ['get_deformation', 'qubit_axis', 'get_qubit_coordinates'])
    hyp = [pre, lat.Q_hyp(loc)]
    if isinstance(ret, Alt):
        ret = x._collapse(ret)
    if not isinstance(ret, D) or set(ret.kv) - {'I'} != {'X', 'Y', 'Z'}:
        raise Unsupported('get_deformation does not return a dict over {X,Y,Z}')
    img = {p: ret.kv[p] if isinstance(ret.kv[p], E) else E.const(ret.kv[p]) for p in 'XYZ'}
    bad = []
    # (1) no raise for a qubit location
    bad.append(z3.Or([c for c, _, _ in st.raises] + [z3.BoolVal(False)]))
    # (2) bijection on {X,Y,Z} and involution
    for p in 'XYZ':
        bad.append(z3.Not(z3.Or([c for c, s_ in img[p].alts if s_ in 'XYZ'] + [z3.BoolVal(False)])))
    for p, r_ in itertools.combinations('XYZ', 2):
        bad.append(eq(img[p], img[r_]))
    for p in 'XYZ':
        # D(D(p)) = p
        back = z3.Or([z3.And(c, eq(img[s_], E.const(p))) for c, s_ in img[p].alts if s_ in 'XYZ'] + [z3.BoolVal(False)])
        bad.append(z3.Not(back))
    # (3) the named action
    if name == 'XZZX':
        st2, qa, _ = lat.call('qubit_axis', [T(list(loc))])
        on = eq(qa, E.const(axis))
        want = {p: E([(on, PERMS['H']['XYZ'.index(p)]), (z3.Not(on), p)]) for p in 'XYZ'}
        bad += [z3.Not(eq(img[p], want[p])) for p in 'XYZ']
    elif name == 'XY':
        bad += [z3.Not(eq(img[p], E.const(PERMS['XY']['XYZ'.index(p)]))) for p in 'XYZ']
    goal = hyp + [z3.Or(bad)]
    r = check(goal, timeout)
    if r['verdict'] == 'sat':
        mdl = minimise(goal, [z3.Sum(list(lat.L))] + loc, timeout_s=15)
        if mdl is not None:
            r['model'] = {str(v): str(mdl.eval(v, model_completion=True)) for v in list(lat.L) + loc}
    cov = check(hyp + [st.live], 20, fallbacks=False)['verdict']
    out = result('perm', r, funcs, None, goal, vacuity='Q(loc) & no-raise cover: %s' % cov, cls=cls, defo=name, axis=axis)
    out['transparent'] = sorted(lat.transparent | x.transparent)
    if cov != 'sat' and out['verdict'] == 'discharged':
        out['verdict'] = 'refuted'; out['detail'] = 'vacuous: precondition or normal return unreachable'
    return out


def ob_invalid(cls, timeout=60):
    """an unknown deformation name (and an invalid axis where an axis is accepted) raises for every qubit location"""
    lat, pre = lattice(cls)
    dim = lat.qubit_arities()[0]
    loc = [z3.Int('q%d' % i) for i in range(dim)]
    funcs = funcs_of(lat, ['get_deformation'])
    goals = []
    st, ret, x = sym_deformation(lat, loc, 'no-such-deformation', None)
    goals.append([pre, lat.Q_hyp(loc), st.live])
    f = lat.cls.methods['get_deformation']
    names = lat.cls.attrs.get('deformation_names', [])
    if any(a.arg == 'deformation_axis' for a in f.node.args.args) and names:
        st2, _, _ = sym_deformation(lat, loc, names[0], 'w')
        goals.append([pre, lat.Q_hyp(loc), st2.live])
    for g in goals:
        r = check(g, timeout)
        if r['verdict'] != 'unsat':
            return result('invalid', r, funcs, None, g, cls=cls)
    out = result('invalid', r, funcs, None, goals[-1], cls=cls)
    out['transparent'] = sorted(lat.transparent)
    return out


def ob_lemma(timeout=30):
    """each of the 6 permutations of {X,Y,Z} is induced by an invertible GF(2)-linear map on (x,z) preserving the symplectic form"""
    bsf = {'I': (0, 0), 'X': (1, 0), 'Y': (1, 1), 'Z': (0, 1)}
    ok = True
    found = {}
    for perm in itertools.permutations('XYZ'):
        a, b, c, d = z3.Bools('a b c d')       # matrix [[a,b],[c,d]] over GF(2)
        s = z3.Solver()

        def app(v):
            x_, z_ = v
            nx = z3.Xor(z3.And(a, z3.BoolVal(bool(x_))), z3.And(b, z3.BoolVal(bool(z_))))
            nz = z3.Xor(z3.And(c, z3.BoolVal(bool(x_))), z3.And(d, z3.BoolVal(bool(z_))))
            return nx, nz
        for p, q_ in zip('XYZ', perm):
            nx, nz = app(bsf[p])
            s.add(nx == z3.BoolVal(bool(bsf[q_][0])), nz == z3.BoolVal(bool(bsf[q_][1])))
        s.add(z3.Xor(z3.And(a, d), z3.And(b, c)))          # det = 1 over GF(2): invertible and symplectic for 2x2
        ok = ok and s.check() == z3.sat
        found[''.join(perm)] = str(s.model()) if ok else None
    # symplectic form preservation for det-1 2x2 matrices: <Mu,Mv> = det(M) <u,v>
    u0, u1, v0, v1, a, b, c, d = z3.Bools('u0 u1 v0 v1 a b c d')
    X_ = lambda p, q_: z3.Xor(p, q_)      # noqa
    A_ = lambda p, q_: z3.And(p, q_)      # noqa
    Mu = (X_(A_(a, u0), A_(b, u1)), X_(A_(c, u0), A_(d, u1)))
    Mv = (X_(A_(a, v0), A_(b, v1)), X_(A_(c, v0), A_(d, v1)))
    form = lambda p, q_: X_(A_(p[0], q_[1]), A_(p[1], q_[0]))      # noqa
    goal = [X_(A_(a, d), A_(b, c)), form(Mu, Mv) != form((u0, u1), (v0, v1))]
    r = check(goal, timeout)
    f = get_class('panqec/codes/base/_stabilizer_code.py', 'StabilizerCode').methods['deform']
    out = result('lemma', r, [f], None, goal, detail='matrices found for the 6 permutations: %s' % found)
    if not ok:
        out['verdict'] = 'refuted'
    return out


def ob_image(which, timeout=60):
    """R-mapvalues on the closures of StabilizerCode.deform: the deformed operator is the pointwise image {k: D_k(v)} of the
    undeformed one - same key set - with D_k = self.get_deformation(k, deformation_name, **kwargs)"""
    m = Module.load('panqec/codes/base/_stabilizer_code.py')
    cls = m.classes['StabilizerCode']
    deform = cls.methods['deform']
    inner = [n for n in deform.node.body if isinstance(n, ast.FunctionDef) and n.name == which]
    if len(inner) != 1:
        raise Unsupported('closure %s not found in deform' % which)
    node = inner[0]
    # check the final rebinding self.<which> = MethodType(<which>, self)
    bound = False
    for n in deform.node.body:
        if isinstance(n, ast.Assign) and isinstance(n.targets[0], ast.Attribute) and n.targets[0].attr == which \
                and isinstance(n.value, ast.Call) and ast.unparse(n.value.func) == 'MethodType' \
                and ast.unparse(n.value.args[0]) == which and ast.unparse(n.value.args[1]) == 'self':
            bound = True
    calls = []          # recorded get_deformation calls
    K = T([z3.Int('k0'), z3.Int('k1'), z3.Int('k2')])
    V = E([(z3.Int('v') == j, 'XYZ'[j]) for j in range(3)])
    DK = {p: E([(z3.Function('Dk_' + p, z3.IntSort())() == j, 'XYZ'[j]) for j in range(3)]) for p in 'XYZ'}

    class AMap:
        """arbitrary operator: one generic entry (K, V)"""
        def __init__(s_):
            s_.stores = []; s_.other_writes = []

        def acc_attr(s_, x, st, name):
            if name in ('keys', 'items'):
                return ('accmethod', s_, name)
            raise Unsupported('operator attribute %s' % name)

        def acc_loop(s_, x, st, s, env):
            # one generic entry; `for k in op` / `op.keys()` binds the key, `op.items()` the (key, value) pair
            if getattr(s_, 'iter_kind', 'keys') == 'items':
                x.assign(s.target, T([K, V if not s_.stores else s_.stores[-1][1]]), env, st)
            elif isinstance(s.target, ast.Name):
                env[s.target.id] = K
            else:
                raise Unsupported('loop target')
            x.block(s.body, env, st)

        def acc_index(s_, x, st, key):
            if key is not K:
                raise Unsupported('read of the operator at a key other than the loop key')
            return V if not s_.stores else s_.stores[-1][1]

        def acc_store(s_, x, st, key, val):
            s_.stores.append((key, val, st.live))

    class AList:
        def __init__(s_, am):
            s_.am = am

        def acc_loop(s_, x, st, s, env):
            env[s.target.id] = s_.am
            x.block(s.body, env, st)
    am = AMap()
    und = {'get_stabilizer': '_get_undeformed_stabilizer', 'get_logicals_x': '_get_undeformed_logicals_x', 'get_logicals_z': '_get_undeformed_logicals_z'}[which]
    source = am if which == 'get_stabilizer' else AList(am)
    used = []

    def getdef(x, st, a, k):
        calls.append((a, k)); return D(dict(DK))
    kwargs_d = D({'deformation_axis': E.const('z')})
    intr = {
        'self.' + und: lambda x, st, a, k: (used.append(a) or source),
        'self.get_deformation': getdef,
        'name:deformation_name': lambda x, st: E.const('NAME'),
        'name:kwargs': lambda x, st: kwargs_d,
        # the same two methods reached through any other name bound to the code object (a helper's parameter)
        ('method', 'code', und): lambda x, st, o, a, k: (used.append(a) or source),
        ('method', 'code', 'get_deformation'): lambda x, st, o, a, k: getdef(x, st, a, k),
    }
    selfo = Obj(None, {}, 'code')
    # free names of the closure: sibling local helpers defined in deform (e.g. one shared relabelling helper) and the enclosing `self`
    for n in deform.node.body:
        if isinstance(n, ast.FunctionDef) and n.name != which:
            intr['name:' + n.name] = (lambda x_, st_, n=n: FuncSrc(m.path, 'StabilizerCode.deform.<locals>.' + n.name, n, None, m))
    intr.setdefault('name:self', lambda x_, st_: selfo)
    x = X(m, intr)
    f = FuncSrc(m.path, 'StabilizerCode.deform.<locals>.' + which, node, None, m)
    args = [selfo] + ([T([z3.Int('l0'), z3.Int('l1'), z3.Int('l2')])] if which == 'get_stabilizer' else [])
    st, ret = x.run(f, args, {})
    problems = []
    if not bound:
        problems.append('deform does not rebind self.%s to the closure' % which)
    if ret is not source:
        problems.append('closure does not return the operator(s) it deformed')
    if len(am.stores) != 1 or am.stores[0][0] is not K:
        problems.append('expected exactly one store at the loop key, got %d' % len(am.stores))
    if len(calls) != 1:
        problems.append('expected exactly one get_deformation call per key, got %d' % len(calls))
    else:
        a, k = calls[0]
        if not (a[0] is K and isinstance(a[1], E) and a[1].is_const() and a[1].alts[0][1] == 'NAME' and set(k) == {'deformation_axis'}):
            problems.append('get_deformation is not called as (key, deformation_name, **kwargs)')
    if which == 'get_stabilizer' and (len(used) != 1 or len(used[0]) != 1 or used[0][0] is not args[1]):
        problems.append('undeformed stabilizer is not requested for the same location')
    if problems:
        return dict(verdict='refuted', model=None, backend='pyvc-structural', seconds=0, detail='; '.join(problems),
                    functions=[dict(function=deform.ref, sha256_16=deform.sha)], transparent=[], kind='state')
    # value stored = D_K(V)
    want = None
    for c, s_ in V.alts:
        want = DK[s_] if want is None else E([(z3.And(c, cc), ss) for cc, ss in DK[s_].alts] + [(z3.And(z3.Not(c), cc), ss) for cc, ss in want.alts])
    got = am.stores[0][1]
    v = z3.Int('v')
    dom = [v >= 0, v <= 2] + [z3.And(z3.Function('Dk_' + p, z3.IntSort())() >= 0, z3.Function('Dk_' + p, z3.IntSort())() <= 2) for p in 'XYZ']
    goal = dom + [z3.Or(z3.Not(eq(got, want)), z3.Or([c for c, _, _ in st.raises] + [z3.BoolVal(False)]), z3.Not(am.stores[0][2]))]
    r = check(goal, timeout)
    out = result('image', r, [deform], x, goal, detail='closure %s: one store per key with value D_key(old value); keys unchanged' % which)
    out['kind'] = 'state'
    return out


def ob_deform_operator(timeout=60):
    """RotatedToric3DCode._deform_operator is the identity on every operator over the qubit set (its test needs x == 2*Lx and x == 1)"""
    lat, pre = lattice('RotatedToric3DCode')
    m = lat.cls.module
    f = lat.cls.methods['_deform_operator']
    K = [z3.Int('k0'), z3.Int('k1'), z3.Int('k2')]
    stores = []

    class Op:
        def acc_loop(s_, x, st, s, env):
            env[s.target.id] = T(K)
            x.block(s.body, env, st)

        def acc_index(s_, x, st, key):
            return E([(z3.Int('v') == j, 'IXYZ'[j]) for j in range(4)])

        def acc_store(s_, x, st, key, val):
            stores.append((st.live, key, val))
    x = lat.executor()
    st, ret = x.run(f, [Op()], {}, lat.selfobj())
    goal = [pre, lat.Q(K), z3.Or([c for c, _, _ in stores] + [z3.BoolVal(False)])]
    r = check(goal, timeout)
    out = result('deform_operator', r, [f], x, goal, detail='%d store site(s); reachable for a qubit location => not the identity' % len(stores))
    return out


def ob_reset(timeout=10):
    """a deformation is applied to the undeformed code: deform() must reset EVERY lazily cached field (anything a cached property or method guards with
    `if self._x is None / empty`), either itself or by re-running __init__, before it rebinds the three methods"""
    m = Module.load('panqec/codes/base/_stabilizer_code.py'); c = m.classes['StabilizerCode']
    deform, init = c.methods['deform'], c.methods['__init__']
    cache_fields = set()
    for name, f in c.methods.items():
        if name in ('__init__', 'deform'):
            continue
        for n in ast.walk(f.node):
            if isinstance(n, ast.If):
                # guard mentions self._x and the body assigns self._x
                guards = {a.attr for a in ast.walk(n.test) if isinstance(a, ast.Attribute) and isinstance(a.value, ast.Name) and a.value.id == 'self' and a.attr.startswith('_')}
                assigned = {t.attr for b in n.body for a in ast.walk(b) if isinstance(a, ast.Assign) for t in a.targets
                            if isinstance(t, ast.Attribute) and isinstance(t.value, ast.Name) and t.value.id == 'self'}
                cache_fields |= guards & assigned
    def assigned_in(f):
        return {t.attr for a in ast.walk(f.node) if isinstance(a, (ast.Assign, ast.AnnAssign)) for t in (a.targets if isinstance(a, ast.Assign) else [a.target])
                if isinstance(t, ast.Attribute) and isinstance(t.value, ast.Name) and t.value.id == 'self' and (not isinstance(a, ast.AnnAssign) or a.value is not None)}
    reset = assigned_in(deform)
    calls_init = any(isinstance(n, ast.Call) and ast.unparse(n.func) == 'self.__init__' and ast.unparse(n.args[0]) == '*self.size' for n in ast.walk(deform.node) if isinstance(n, ast.Call) and n.args)
    if calls_init:
        reset |= assigned_in(init)
    missing = sorted(cache_fields - reset)
    return dict(verdict='refuted' if missing or not cache_fields else 'discharged', model=dict(not_reset=missing) if missing else None, backend='pyvc-structural', seconds=0, kind='state',
                detail=('cached fields that survive deform(): %s' % missing) if missing else 'all %d cached fields %s are reset by deform()%s' % (len(cache_fields), sorted(cache_fields), ' via __init__(*self.size)' if calls_init else ''),
                functions=[dict(function=f.ref, sha256_16=f.sha) for f in (deform, init)], transparent=[])


def ob_noise(timeout=30):
    """the noise side asks the code for D with the same call shape as the code side: get_deformation(coords[i], name, **kwargs) at qubit i"""
    from props.C07 import sym_probability_distribution
    s = sym_probability_distribution(True)
    problems = []
    if len(s['calls']) != 1:
        problems.append('expected one get_deformation call per qubit, found %d' % len(s['calls']))
    else:
        i, a, k = s['calls'][0]
        if not (len(a) == 2 and a[0] == ('coord', i) or (isinstance(a[0], tuple) and a[0][0] == 'coord' and a[0][1] is i)):
            problems.append('location argument is not code.qubit_coordinates[i]')
        if not (isinstance(a[1], E) and a[1].is_const() and a[1].alts[0][1] == 'XZZX'):
            problems.append('deformation name is not the model\'s own deformation name')
        if not (set(k) == {'deformation_axis'} and isinstance(k['deformation_axis'], E) and k['deformation_axis'].alts[0][1] == 'z'):
            problems.append('kwargs are not the model\'s deformation kwargs')
    f = s['f']
    return dict(verdict='refuted' if problems else 'discharged', model=None, backend='pyvc-structural', seconds=0, kind='state',
                detail='; '.join(problems) or 'call shape agrees with the closures of deform (C08.image); with C07.dist.deformed.values and the involution '
                'clause of C08.perm this gives P\'(e) = P(D e)', functions=[dict(function=f.ref, sha256_16=f.sha)], transparent=[])


def obligations(tier):
    to = 90 if tier == 'quick' else 400
    obs = [Ob('C08.lemma', ob_lemma, {}, timeout=30), Ob('C08.noise.callsite', ob_noise, {}, timeout=30, kind='state'),
           Ob('C08.deform.reset', ob_reset, {}, timeout=30, kind='state', backend='pyvc-structural')]
    for w in ('get_stabilizer', 'get_logicals_x', 'get_logicals_z'):
        obs.append(Ob('C08.image[%s]' % w, ob_image, dict(which=w), timeout=60, kind='state'))
    obs.append(Ob('C08.deform_operator[RotatedToric3DCode]', ob_deform_operator, {}, timeout=to))
    seen = set()
    for cls, nm, ax in variants():
        obs.append(Ob('C08.perm[%s,%s,%s]' % (cls, nm, ax), ob_perm, dict(cls=cls, name=nm, axis=ax, timeout=to), timeout=to))
        if cls not in seen:
            seen.add(cls)
            obs.append(Ob('C08.invalid[%s]' % cls, ob_invalid, dict(cls=cls, timeout=to), timeout=to))
    return obs


# ------------------------------------------------------------------------------------------------ native layer
from bounded import codes as BC    # noqa
from bounded.util import toint, deformation_variants, all_code_classes, small_sizes    # noqa


def apply_D(code, name, kw, e):
    """the relabelled error D(e) as a BSF vector (D from the real get_deformation)"""
    n = code.n
    out = np.zeros(2 * n, dtype=np.uint8)
    pl = {(0, 0): 'I', (1, 0): 'X', (1, 1): 'Y', (0, 1): 'Z'}
    inv = {v: k for k, v in pl.items()}
    for i, loc in enumerate(code.qubit_coordinates):
        p = pl[(int(e[i]), int(e[n + i]))]
        if p != 'I':
            p = code.get_deformation(loc, name, **kw)[p]
        out[i], out[n + i] = inv[p]
    return out


def native_deformation_contract(name_cls, size, defo, kw, rnd):
    plain = BC.make(name_cls, size)
    code = BC.make(name_cls, size, defo, kw)
    if (code.n, code.k) != (plain.n, plain.k):
        return '(n,k) changes under deformation: %r -> %r' % ((plain.n, plain.k), (code.n, code.k))
    for loc in plain.stabilizer_coordinates:
        a, b = plain.get_stabilizer(loc), code.get_stabilizer(loc)
        want = {k: plain.get_deformation(k, defo, **kw)[v] for k, v in a.items()}
        if b != want:
            return 'deformed stabilizer at %s is %r, pointwise image of the undeformed one is %r' % (loc, b, want)
    for kind in 'xz':
        la, lb = getattr(plain, 'get_logicals_' + kind)(), getattr(code, 'get_logicals_' + kind)()
        for i, (a, b) in enumerate(zip(la, lb)):
            want = {k: plain.get_deformation(k, defo, **kw)[v] for k, v in a.items()}
            if b != want:
                return 'deformed logical %s[%d] is not the pointwise image' % (kind, i)
    import inspect
    default_axis = None
    sig = inspect.signature(type(plain).get_deformation)
    if 'deformation_axis' in sig.parameters:
        default_axis = sig.parameters['deformation_axis'].default
    for loc in plain.qubit_coordinates:
        d = plain.get_deformation(loc, defo, **kw)
        if sorted(d[p] for p in 'XYZ') != ['X', 'Y', 'Z']:
            return 'get_deformation(%s) = %r is not a permutation of X,Y,Z' % (loc, d)
        if any(d[d[p]] != p for p in 'XYZ'):
            return 'get_deformation(%s) = %r is not an involution' % (loc, d)
        act = {p: d[p] for p in 'XYZ'}
        if defo == 'XZZX':
            axis = kw.get('deformation_axis', default_axis)
            want = {'X': 'Z', 'Y': 'Y', 'Z': 'X'} if plain.qubit_axis(loc) == axis else {'X': 'X', 'Y': 'Y', 'Z': 'Z'}
            if act != want:
                return 'XZZX along %s at %s (a %s-qubit) acts as %r, expected %r' % (axis, loc, plain.qubit_axis(loc), act, want)
        if defo == 'XY' and act != {'X': 'X', 'Y': 'Z', 'Z': 'Y'}:
            return 'XY at %s acts as %r, expected Y<->Z' % (loc, act)
    for _ in range(6):
        e = np.array([rnd.randint(0, 1) for _ in range(2 * plain.n)], dtype=np.uint8)
        De = apply_D(plain, defo, kw, e)
        if not np.array_equal(plain.measure_syndrome(e) % 2, code.measure_syndrome(De) % 2):
            return 'syndrome of D(e) on the deformed code differs from syndrome of e on the original (e=%s)' % ''.join(map(str, e))
        if not np.array_equal(plain.logical_errors(e), code.logical_errors(De)):
            return 'logical effect of D(e) on the deformed code differs from that of e on the original'
    # noise side: P'(e) = P(D e)
    from panqec.error_models import PauliErrorModel
    em, emd = PauliErrorModel(0.1, 0.2, 0.7), PauliErrorModel(0.1, 0.2, 0.7, deformation_name=defo, deformation_kwargs=kw or None)
    for _ in range(4):
        e = np.array([rnd.randint(0, 1) for _ in range(2 * plain.n)], dtype=np.uint8)
        p1 = emd.error_probability(e, plain, 0.3); p2 = em.error_probability(apply_D(plain, defo, kw, e), plain, 0.3)
        if not np.isclose(p1, p2, rtol=1e-9):
            return 'deformed noise model gives P(e)=%r, undeformed model gives P(D e)=%r' % (float(p1), float(p2))
    return None


def native_history_contract(name_cls, size, rnd):
    """a deformation is always applied to the undeformed code: result independent of earlier deform calls / cached data"""
    import panqec.codes as C
    cls = getattr(C, name_cls)
    vs = [v for v in deformation_variants(cls) if v[0]]
    if not vs:
        return None
    touch = ['stabilizer_matrix', 'logicals_x', 'logicals_z', 'Hx', 'Hz', 'd', 'n', 'k', 'x_indices', 'z_indices', 'is_css', 'stabilizer_types']
    for _ in range(4):
        seq = [rnd.choice(vs) for _ in range(rnd.randint(2, 3))]
        code = cls(*size)
        for defo, kw in seq:
            for t in rnd.sample(touch, 3):
                try:
                    getattr(code, t)
                except Exception:
                    pass
            code.deform(defo, **kw)
        fresh = cls(*size); fresh.deform(seq[-1][0], **seq[-1][1])
        if (code.stabilizer_matrix != fresh.stabilizer_matrix).nnz or not np.array_equal(code.logicals_x, fresh.logicals_x) \
                or not np.array_equal(code.logicals_z, fresh.logicals_z):
            return 'after deform sequence %r the code differs from a fresh object deformed once with %r' % (seq, seq[-1])
        for attr in ('x_indices', 'z_indices', 'is_css', 'n', 'k', 'd', 'n_stabilizers', 'qubit_coordinates', 'stabilizer_coordinates'):
            a_, b_ = getattr(code, attr), getattr(fresh, attr)
            same = (a_ == b_) if isinstance(a_, list) else np.array_equal(np.asarray(a_), np.asarray(b_))
            if not same:
                return 'after deform sequence %r (with cached data read in between) %s differs from a fresh object deformed once with %r' % (seq, attr, seq[-1])
        if fresh.is_css:
            for attr in ('Hx', 'Hz'):
                if (getattr(code, attr) != getattr(fresh, attr)).nnz:
                    return 'after deform sequence %r %s differs from a fresh object' % (seq, attr)
        e = np.array([rnd.randint(0, 1) for _ in range(2 * fresh.n)], dtype=np.uint8)
        if not np.array_equal(code.measure_syndrome(e), fresh.measure_syndrome(e)) or not np.array_equal(code.logical_errors(e), fresh.logical_errors(e)):
            return 'after deform sequence %r syndrome / logical effect differ from a fresh object' % (seq,)
    return None


def replay(r):
    m = r.get('model') or {}
    cls, defo, axis = r.get('cls'), r.get('defo'), r.get('axis')
    if cls is None or 'Lx' not in m:
        return dict(confirmed=None, detail='structural obligation / no lattice size in the model')
    import panqec.codes as C
    dim = getattr(C, cls).dimension
    size = tuple(max(1, toint(m.get('L' + c), 2)) for c in 'xyz'[:dim])
    kw = {'deformation_axis': axis} if axis else {}
    try:
        why = native_deformation_contract(cls, size, defo, kw, random.Random(0))
    except Exception as e:      # noqa
        why = 'raises %s: %s' % (type(e).__name__, e)
    return dict(confirmed=bool(why), input=dict(code=cls, size=size, deformation=defo, kwargs=kw), detail=why or 'contract holds natively on %s%s' % (cls, size))


def replay_file(data):
    inp = data.get('input') or {}
    why = native_deformation_contract(inp['code'], tuple(inp['size']), inp['deformation'], inp.get('kwargs') or {}, random.Random(0))
    return dict(confirmed=bool(why), detail=why or 'holds', input=inp)


def bounded(tier, seed):
    rnd = random.Random(seed)
    maxn, maxL, per = (250, 4, 3) if tier == 'quick' else (1500, 5, 10)
    ev, nt, viol, samples = 0, set(), [], []
    t0 = time.time()
    hist_done = set()
    for name, cls, size, defo, kw in BC.sweep(tier, maxn, maxL, rnd, per):
        if time.time() - t0 > (120 if tier == 'quick' else 1200):
            break
        if defo is None:
            continue
        inp = dict(code=name, size=list(size), deformation=defo, kwargs=kw)
        try:
            why = native_deformation_contract(name, size, defo, kw, rnd)
            if why is None and (name, size) not in hist_done:
                hist_done.add((name, size))
                why = native_history_contract(name, size, rnd)
        except Exception as e:      # noqa
            why = 'raises %s: %s' % (type(e).__name__, e)
        ev += 1
        nt.add((name, tuple(size), defo, tuple(sorted(kw.items()))))
        if len(samples) < 4:
            samples.append(dict(inp, ok=why is None))
        if why:
            viol.append(dict(obligation='C08.bounded[%s]' % name, input=inp, detail=why))
    return dict(bound='every class with a deformation, <= %d supported sizes (L <= %d, n <= %d), every name and axis; 6 random errors each; deform histories of length 2-3 with interleaved cached-property reads' % (per, maxL, maxn),
                evaluations=ev, distinct_nontrivial=len(nt),
                rule='real deformed object vs pointwise image of a fresh undeformed one; syndrome/logical-effect/probability identities; history independence',
                samples=samples, violations=viol)
