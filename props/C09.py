"""C09 - matching is exactly minimum-weight; correctable sets are always corrected.

Deductive part (what a contract on panqec's own code can decide):
  weights.llr / weights.sign   the weights handed to PyMatching are the log-likelihood ratios of the per-qubit X-flip / Z-flip marginals, positive iff the marginal < 1/2 (C07 obligations, re-discharged here)
  wiring.matching              the X matcher minimises over {c : Hz c = s_z} with the X-flip weights, the Z matcher over {c : Hx c = s_x} with the Z-flip weights (C05 obligations, re-discharged here)
=> GIVEN the assumed contract "PyMatching returns a minimum-weight solution for non-negative weights", MatchingDecoder returns in each sector a correction of minimum total LLR weight.
Optimality of PyMatching itself, union-find growth/peeling and the sweep rule have no contract within reach: bounded only -
  optimality against the full solution coset on lattices with <= 16 qubits per sector (biased / deformed / depolarising noise),
  all errors of weight <= floor((d-1)/2) on toric / planar / rotated planar (matching) and toric L>=3 (union-find),
  all single-qubit X/Y/Z errors for the sweep-match decoders on their home lattices.
"""
import itertools, random, time, io, contextlib
import numpy as np
from pyvc.runner import Ob
import props.C07 as C07
import props.C05 as C05

PROPERTY = 'C09'
LEVEL = 'other'
EXPLANATION = ('weights = LLRs of the flip marginals and sector wiring are discharged deductively; minimum-weight optimality rests on the assumed contract of PyMatching and is '
               'cross-checked exhaustively against the solution coset on small lattices; correctable-set claims are exhaustive enumerations up to stated sizes')
ASSUMPTIONS = [
    'A-ext (NOT proved): pymatching.Matching.decode returns a minimum-weight solution of H c = s for non-negative edge weights',
    'union-find (uf_support.py) and the sweep rule are not analysed deductively',
    'C07 / C05 assumptions (reals for floats, numpy semantics)',
]
TRUSTED_BASE = ['z3 5.1.0', 'pyvc executor', 'PyMatching (assumed optimal)']


def ob_weights(which):
    r = C07.ob('weights.' + which)
    return r


def ob_wiring(error_type, given):
    return C05.ob_matching(error_type, given)


def obligations(tier):
    obs = [Ob('C09.weights.llr', ob_weights, dict(which='llr'), timeout=60), Ob('C09.weights.sign', ob_weights, dict(which='sign'), timeout=60)]
    for et in (None, 'X'):
        obs.append(Ob('C09.wiring.matching[error_type=%s]' % et, ob_wiring, dict(error_type=et, given=False), timeout=60, kind='state'))
    return obs


# ------------------------------------------------------------------------------------------------ native layer
from bounded import decoders as BD    # noqa
from bounded import codes as BC    # noqa


def coset_min(Hs, s, w):
    """minimum total weight over {c : Hs c = s} by enumeration (Hs dense, <= 16 columns)"""
    n = Hs.shape[1]
    best = None
    for bits in itertools.product((0, 1), repeat=n):
        c = np.array(bits)
        if np.array_equal((Hs @ c) % 2, s % 2):
            t = float(np.dot(w, c))
            if best is None or t < best - 1e-12:
                best = t
    return best


def native_optimal(cname, size, direction, defo, p, rnd, ntrials, nkw=None):
    code = BC.make(cname, size)
    dec, em = BD.build('MatchingDecoder', code, direction=direction, p=p, noise_deformation=defo, noise_kwargs=nkw)
    # reference weights from the marginals of the probability tables (independent of get_weights)
    pi_, px_, py_, pz_ = em.probability_distribution(code, p)
    wx = -np.log((px_ + py_ + 1e-20) / (1 - px_ - py_ + 1e-20)); wz = -np.log((pz_ + py_ + 1e-20) / (1 - pz_ - py_ + 1e-20))
    n = code.n
    Hz, Hx = code.Hz.toarray(), code.Hx.toarray()
    if min(wx.min(), wz.min()) < 0:
        return None          # marginal above 1/2: outside the property's quantifier
    for s in BD.syndromes(code, rnd, ntrials, rates=(0.1, 0.25, 0.4)):
        c = np.asarray(BD.quiet_decode(dec, s.copy()))
        for sec, Hs, w, part, rows in (('X', Hz, wx, c[:n], code.z_indices), ('Z', Hx, wz, c[n:], code.x_indices)):
            ss = np.asarray(s)[np.asarray(rows)]
            if not np.array_equal((Hs @ part) % 2, ss % 2):
                return '%s-sector correction does not reproduce the syndrome' % sec
            best = coset_min(Hs, ss, w)
            got = float(np.dot(w, part))
            if got > best + 1e-6 * max(1.0, abs(best)):
                return '%s-sector correction has weight %.6f, the minimum over the solution coset is %.6f (direction %s, deformation %s)' % (sec, got, best, direction, defo)
    return None


def native_correctable(dname, cname, size, maxw=None):
    """every Pauli error of weight <= floor((d-1)/2) is corrected (uniform weights)"""
    code = BC.make(cname, size)
    dec, em = BD.build(dname, code, direction=(1 / 3, 1 / 3, 1 / 3), p=0.05)
    n = code.n
    t = (int(code.d) - 1) // 2 if maxw is None else maxw
    count = 0
    for w in range(1, t + 1):
        for qs in itertools.combinations(range(n), w):
            for ps in itertools.product('XYZ', repeat=w):
                e = np.zeros(2 * n, dtype=np.uint8)
                for q, p_ in zip(qs, ps):
                    e[q] = p_ in 'XY'; e[n + q] = p_ in 'YZ'
                c = np.asarray(BD.quiet_decode(dec, np.asarray(code.measure_syndrome(e))))
                count += 1
                if not code.is_success((e + c) % 2):
                    return 'error %s on qubits %s (weight %d <= floor((d-1)/2) = %d, d=%d) is not corrected' % (''.join(ps), qs, w, t, int(code.d)), count
    return None, count


def native_weights(direction, defo, prate):
    """the weights handed to matching are the log-likelihood ratios of the per-qubit flip marginals of the real noise model (positive iff marginal < 1/2)"""
    from panqec.error_models import PauliErrorModel
    from panqec.codes import Toric2DCode
    code = Toric2DCode(2, 3)
    em = PauliErrorModel(*direction, deformation_name=defo)
    wx, wz = em.get_weights(code, prate)
    pi, px, py, pz = em.probability_distribution(code, prate)
    for nm, w, marg in (('x', wx, px + py), ('z', wz, pz + py)):
        for q in range(code.n):
            m_ = float(marg[q])
            if 0 < m_ < 1:
                want = -np.log(m_ / (1 - m_))
                if not np.isclose(float(w[q]), want, rtol=1e-6, atol=1e-8):
                    return 'weight_%s[%d] = %r, the log-likelihood ratio of the flip marginal %r is %r' % (nm, q, float(w[q]), m_, float(want))
                if (float(w[q]) > 0) != (m_ < 0.5):
                    return 'weight_%s[%d] = %r has the wrong sign for flip marginal %r' % (nm, q, float(w[q]), m_)
    return None


def replay(r):
    rnd = random.Random(0)
    if 'weights' in r.get('name', ''):
        for direction, defo in (((0.7, 0.1, 0.2), None), ((0.2, 0.1, 0.7), 'XZZX'), ((1 / 3, 1 / 3, 1 / 3), None), ((0.8, 0.1, 0.1), 'XY')):
            for prate in (0.05, 0.2, 0.45, 0.7):
                why = native_weights(direction, defo, prate)
                if why:
                    return dict(confirmed=True, input=dict(direction=list(direction), deformation=defo, error_rate=prate, weights=True), detail=why)
    for cname, size in (('Toric2DCode', (2, 3)), ('Planar2DCode', (2, 3)), ('RotatedPlanar2DCode', (3, 3))):
        for direction, defo in (((0.7, 0.1, 0.2), None), ((0.2, 0.1, 0.7), 'XZZX'), ((1 / 3, 1 / 3, 1 / 3), None)):
            why = native_optimal(cname, size, direction, defo, 0.2, rnd, 10)
            if why:
                return dict(confirmed=True, input=dict(code=cname, size=list(size), direction=direction, deformation=defo), detail=why)
    return dict(confirmed=False, detail='matching corrections are minimum-weight on the tried lattices')


def replay_file(data):
    inp = data.get('input') or {}
    if inp.get('weights'):
        why = native_weights(tuple(inp['direction']), inp.get('deformation'), inp.get('error_rate', 0.2))
    elif 'direction' in inp:
        why = native_optimal(inp['code'], tuple(inp['size']), tuple(inp['direction']), inp.get('deformation'), 0.2, random.Random(0), 20)
    else:
        why, _ = native_correctable(inp.get('decoder', 'MatchingDecoder'), inp['code'], tuple(inp['size']), inp.get('maxw'))
    return dict(confirmed=bool(why), detail=why or 'holds', input=inp)


def bounded(tier, seed):
    rnd = random.Random(seed)
    ev, nt, viol, samples = 0, set(), [], []
    t0 = time.time()
    lattices = [('Toric2DCode', (2, 2)), ('Toric2DCode', (2, 3)), ('Planar2DCode', (2, 3)), ('Planar2DCode', (3, 3)), ('RotatedPlanar2DCode', (3, 3)), ('RotatedPlanar2DCode', (4, 3))]
    if tier != 'quick':
        lattices += [('Toric2DCode', (3, 3)), ('Planar2DCode', (3, 4)), ('RotatedPlanar2DCode', (4, 4))]
    noises = [((1 / 3, 1 / 3, 1 / 3), None, None), ((0.7, 0.1, 0.2), None, None), ((0.05, 0.05, 0.9), None, None), ((0.2, 0.1, 0.7), 'XZZX', None), ((0.2, 0.1, 0.7), 'XZZX', {'deformation_axis': 'x'}),
              ((0.20001, 0.1, 0.69999), 'XZZX', {'deformation_axis': 'x'}), ((0.8, 0.1, 0.1), 'XY', None),
              # infinite bias: zero flip marginals on some / all qubits of a sector (still below 1/2), with and without a deformation that moves the flips
              ((0, 0, 1), None, None), ((0, 0, 1), 'XZZX', None), ((1, 0, 0), 'XZZX', {'deformation_axis': 'x'}), ((0, 0, 1), 'XY', None)]
    budget = 150 if tier == 'quick' else 900
    truncated = False
    # small lattices first so that a time cut drops only the largest cosets
    for cname, size in sorted(lattices, key=lambda cs: int(np.prod(cs[1]))):
        for direction, defo, nkw in noises:
            for p in ((0.1, 0.3) if tier == 'quick' else (0.05, 0.1, 0.2, 0.3)):
                if time.time() - t0 > budget:
                    truncated = True
                    continue
                why = native_optimal(cname, size, direction, defo, p, rnd, 6 if tier == 'quick' else 25, nkw)
                ev += 1; nt.add((cname, size, direction, defo, p))
                if len(samples) < 3 and defo:
                    samples.append(dict(code=cname, size=size, direction=direction, noise_deformation=defo, p=p, ok=why is None))
                if why:
                    viol.append(dict(obligation='C09.bounded.optimal', input=dict(code=cname, size=list(size), direction=direction, deformation=defo, p=p), detail=why))
    corr = [('MatchingDecoder', 'Toric2DCode', (3, 3)), ('MatchingDecoder', 'Planar2DCode', (3, 3)), ('MatchingDecoder', 'RotatedPlanar2DCode', (3, 3)), ('MatchingDecoder', 'Toric2DCode', (5, 5) if tier != 'quick' else (4, 5)),
            ('MatchingDecoder', 'RotatedPlanar2DCode', (5, 5)), ('UnionFindDecoder', 'Toric2DCode', (3, 3)), ('UnionFindDecoder', 'Toric2DCode', (5, 5) if tier != 'quick' else (4, 5)),
            ('MatchingDecoder', 'Planar2DCode', (5, 5) if tier != 'quick' else (4, 4))]
    for dname, cname, size in corr:
        if time.time() - t0 > (170 if tier == 'quick' else 1800):
            truncated = True
            break
        why, cnt = native_correctable(dname, cname, size)
        ev += cnt; nt.add((dname, cname, size))
        samples.append(dict(decoder=dname, code=cname, size=size, errors_enumerated=cnt, ok=why is None))
        if why:
            viol.append(dict(obligation='C09.bounded.correctable[%s]' % dname, input=dict(decoder=dname, code=cname, size=list(size)), detail=why))
    # single-qubit errors are within the correctable set only for d >= 3, i.e. L >= 3
    for dname, cname, sizes in (('SweepMatchDecoder', 'Toric3DCode', [(3, 3, 3)] + ([(4, 4, 4), (3, 4, 5)] if tier != 'quick' else [])),
                                ('RotatedSweepMatchDecoder', 'RotatedPlanar3DCode', [(3, 3, 3)] + ([(4, 4, 4), (3, 4, 5)] if tier != 'quick' else []))):
        for size in sizes:
            if time.time() - t0 > (400 if tier == 'quick' else 2400):
                truncated = True
                continue
            why, cnt = native_correctable(dname, cname, size, maxw=1)
            ev += cnt; nt.add((dname, cname, size))
            if why:
                viol.append(dict(obligation='C09.bounded.single[%s]' % dname, input=dict(decoder=dname, code=cname, size=list(size), maxw=1), detail=why))
    out, seen = [], set()
    for v in viol:
        if v['obligation'] not in seen:
            seen.add(v['obligation']); out.append(v)
    return dict(bound='optimality vs full coset: %d lattices (<= 16 qubits per sector) x 11 noise models (incl. models differing only in deformation axis / 5th decimal, built in sequence, and infinite-bias models with and without deformation) x 2-4 rates; all errors of weight <= floor((d-1)/2) on the listed lattices (matching up to 5x5, union-find toric L>=3); all single-qubit errors for sweep-match on 3x3x3 (thorough: up to %d)' % (len(lattices), 3 if tier == 'quick' else 5),
                evaluations=ev, distinct_nontrivial=len(nt), truncated_by_time_budget=truncated, rule='real decoders; optimum by exhaustive enumeration of the solution coset; correctable sets exhaustively', samples=samples[:5], violations=out)
