"""C10 - sweep decoders track the true residual syndrome.

Functions under contract:
  SweepDecoder3D.flip_edge / RotatedSweepDecoder3D.flip_edge   (geometry, symbolic lattice size, symbolic edge and face)
  StabilizerCode.site                                           (GF(2) toggle of one Pauli)
  SweepDecoder3D.sweep_move / RotatedSweepDecoder3D.sweep_move  (update loop: flip_edge + correction toggle per flipped edge)
  get_initial_state, decode (structure)
"""
import ast, itertools, random, time
import numpy as np
import z3
from contracts.lattices import *
from contracts.common import result, cover
from pyvc.source import Module, FuncSrc, Unsupported, get_class
from pyvc.symex import X, St
from pyvc.values import T, E, D, M, Obj, Opaque, NONE, Z, B, eq, conc, Alt, Arr, ite
from pyvc.solve import check, minimise
from pyvc.lattice import effective
from pyvc.runner import Ob, load_known

PROPERTY = 'C10'
LEVEL = 'proof'
EXPLANATION = ('geometry lemma (flip set of an edge = face stabilizers anticommuting with Z on it) as an LIA VC with symbolic lattice size from the real flip_edge and '
               'get_stabilizer; Pauli-toggle contract of StabilizerCode.site; structure of the sweep_move update loop; all automaton steps on small lattices as bounded layer')
ASSUMPTIONS = [
    'R-builder summaries of qubit / stabilizer coordinates; supported-size families as preconditions',
    'signs is indexed through code.stabilizer_index only (checked: any other subscript is Unsupported)',
    'linearity of the syndrome in the error (C03) is used to lift the one-edge geometry lemma to accumulated corrections',
    'A-numpy: np.mod on short tuples is elementwise; signs.copy() is a fresh array',
    'the tie-break direction (rng.choice) is an arbitrary element of {0,1,2}',
]
TRUSTED_BASE = ['z3 5.1.0 (LIA)', 'pyvc executor + R-builder']
SW = 'panqec/decoders/sweepmatch/_sweep_decoder_3d.py'
RS = 'panqec/decoders/sweepmatch/_rotated_sweep_decoder.py'
PAIRS = [('SweepDecoder3D', SW, 'Toric3DCode'), ('SweepDecoder3D', SW, 'Planar3DCode'),
         ('RotatedSweepDecoder3D', RS, 'RotatedPlanar3DCode'), ('RotatedSweepDecoder3D', RS, 'RotatedToric3DCode')]
SG = z3.Function('sign_at', z3.IntSort(), z3.IntSort(), z3.IntSort(), z3.IntSort())


class IdxV:
    def __init__(self, loc):
        self.loc = loc


class IndexMap:
    """code.stabilizer_index / code.qubit_index as (membership, opaque position)"""
    def __init__(self, acc):
        self.acc = acc

    def acc_contains(self, x, st, item):
        return self.acc.member(item.items)

    def acc_index(self, x, st, key):
        if not isinstance(key, T):
            raise Unsupported('index key')
        return IdxV(key)

    def acc_attr(self, x, st, name):
        if name == 'get':
            return ('accmethod', self, 'get')
        raise Unsupported('attribute %s of IndexMap' % name)

    def acc_call(self, x, st, name, args, kwargs):
        if name == 'get' and 1 <= len(args) <= 2 and isinstance(args[0], T):
            return Alt([(self.acc.member(args[0].items), IdxV(args[0])), (z3.Not(self.acc.member(args[0].items)), args[1] if len(args) == 2 else NONE)])
        raise Unsupported('IndexMap.%s' % name)


def _idx_alts(key):
    """[(guard, IdxV)] of an index value that may be a guarded union (dict.get result under an `is not None` test)"""
    if isinstance(key, IdxV):
        return [(z3.BoolVal(True), key)]
    if isinstance(key, Alt):
        out = []
        for g, v in key.alts:
            if isinstance(v, IdxV):
                out.append((g, v))
            elif not isinstance(v, type(NONE)):
                return None
        return out
    return None


class Signs:
    def __init__(self):
        self.toggles, self.bad = [], []

    def acc_index(self, x, st, key):
        alts = _idx_alts(key)
        if not alts or any(len(k.loc.items) != 3 for _, k in alts):
            raise Unsupported('signs indexed by something other than stabilizer_index[location]')
        r = SG(*[Z(c) for c in alts[-1][1].loc.items])
        for g, k in alts[-2::-1]:
            r = z3.If(g, SG(*[Z(c) for c in k.loc.items]), r)
        return r

    def acc_store(self, x, st, key, val):
        alts = _idx_alts(key)
        if not alts:
            raise Unsupported('signs stored at something other than stabilizer_index[location]')
        for g, k in alts:
            cur = SG(*[Z(c) for c in k.loc.items])
            self.toggles.append((z3.And(st.live, g), k.loc, Z(val), cur))

    def acc_attr(self, x, st, name):
        if name == 'copy':
            return ('accmethod', self, 'copy')
        raise Unsupported('signs.%s' % name)


def decoder_executor(dec_path, dec_cls, lat):
    m = Module.load(dec_path)
    cls = m.classes[dec_cls]
    intr = lat._intr_common()
    intr[('attr', 'code', 'stabilizer_index')] = lambda x, st, o: IndexMap(lat.acc('get_stabilizer_coordinates'))
    intr[('attr', 'code', 'qubit_index')] = lambda x, st, o: IndexMap(lat.acc('get_qubit_coordinates'))
    x = X(m, intr)
    x.pos_div = True
    code = lat.selfobj()
    selfo = Obj(cls, {'code': code}, 'decoder')
    return x, cls, selfo


def seam_free(lat, q):
    """negated region of known finding F-C10-b (edges on the periodic x/y seam of RotatedToric3D)"""
    L = lat.L
    for f in load_known().get('findings', []):
        if f.get('id') == 'F-C10-b' and f.get('region'):
            return z3.Not(eval(f['region'], {'z3': z3, 'L': L, 'q': q, 'And': z3.And, 'Or': z3.Or, 'Not': z3.Not}))
    return z3.BoolVal(True)


def ob_geom(dec, path, cls, timeout=200):
    lat, pre = lattice(cls)
    x, dcls, selfo = decoder_executor(path, dec, lat)
    q = [z3.Int('q%d' % i) for i in range(3)]
    f = [z3.Int('f%d' % i) for i in range(3)]
    signs = Signs()
    fe = dcls.methods['flip_edge']
    st, ret = x.run(fe, [T(q), signs], {}, selfo)
    funcs = [fe] + funcs_of(lat, ['get_stabilizer', 'stabilizer_type', 'get_qubit_coordinates', 'get_stabilizer_coordinates'])
    # every store must be a toggle of the very element it reads
    nontoggle = z3.Or([z3.And(g, v != 1 - cur) for g, loc, v, cur in signs.toggles] + [z3.BoolVal(False)])
    tog = z3.Sum([z3.If(z3.And(g, eq(loc, T(f))), 1, 0) for g, loc, v, cur in signs.toggles] + [z3.IntVal(0)]) % 2 == 1
    m, st2 = lat.stabilizer(f)
    anti_ = z3.Sum([z3.If(z3.And(g, eq(k, T(q)), z3.Not(eq(v, E.const('Z')))), 1, 0) for g, k, v in effective(m)] + [z3.IntVal(0)]) % 2 == 1
    stype = lat.stab_type(f)
    hyp = [pre, lat.Q(q), lat.S(f), eq(stype, E.const('face'))]     # qe'd membership: 20x faster here than the Skolemised form
    if cls == 'RotatedToric3DCode':
        hyp.append(seam_free(lat, q))
    raises = z3.Or([c for c, _, _ in st.raises] + [z3.BoolVal(False)])
    goal = hyp + [z3.Or(tog != anti_, nontoggle, raises)]
    r = check(goal, timeout)
    if r['verdict'] == 'sat':
        mdl = minimise(goal, [z3.Sum(list(lat.L))] + q + f, timeout_s=20)
        if mdl is not None:
            r['model'] = {str(v): str(mdl.eval(v, model_completion=True)) for v in list(lat.L) + q + f}
    cov = check(hyp + [tog], 30, fallbacks=False)['verdict']
    out = result('geom', r, funcs, x, goal, detail='%d toggle sites' % len(signs.toggles), vacuity='some face toggled: %s' % cov, cls=cls, dec=dec)
    out['transparent'] = sorted(lat.transparent | x.transparent)
    if cov != 'sat' and out['verdict'] == 'discharged':
        out['verdict'] = 'refuted'; out['detail'] = 'vacuous'
    return out


# --------------------------------------------------------------------------------------- site: Pauli toggle
Loc = z3.DeclareSort('QLoc')


class LocV:
    def __init__(self, t):
        self.t = t


class FMap:
    """functional model of a dict location -> Pauli (0 absent, 1 X, 2 Y, 3 Z)"""
    def __init__(self, fn):
        self.fn = fn
        self.writes = 0

    def acc_contains(self, x, st, item):
        return self.fn(item.t) != 0

    def acc_index(self, x, st, key):
        return E([(self.fn(key.t) == k, 'IXYZ'[k]) for k in (1, 2, 3)])

    def _set(self, st, key, term):
        old, live = self.fn, st.live
        self.fn = lambda l, old=old, k=key.t, term=term, live=live: z3.If(z3.And(live, l == k), term, old(l))
        self.writes += 1

    def acc_store(self, x, st, key, val):
        v = val if isinstance(val, E) else E.const(val)
        term = z3.IntVal(-1)
        for c, ch in reversed(v.alts):
            term = z3.If(c, 'IXYZ'.index(ch), term)
        self._set(st, key, term)

    def acc_attr(self, x, st, name):
        if name == 'pop':
            return ('fmap_pop', self)
        if name == 'keys':
            return ('accmethod', self, 'keys')
        raise Unsupported('dict.%s' % name)


def _run_site(pauli):
    m = Module.load('panqec/codes/base/_stabilizer_code.py')
    cls = m.classes['StabilizerCode']
    f = cls.methods['site']
    opv = z3.Function('opv', Loc, z3.IntSort())
    fm = FMap(lambda l: opv(l))
    loc = z3.Const('site_loc', Loc)
    x = X(m, {})
    # operator.pop(location): handled as an expression statement on ('fmap_pop', fm)
    orig_apply = x.apply

    def apply(fv, args, kwargs, st, node=None):
        if isinstance(fv, tuple) and fv and fv[0] == 'fmap_pop':
            fv[1]._set(st, args[0], z3.IntVal(0)); return NONE
        return orig_apply(fv, args, kwargs, st, node)
    x.apply = apply
    st, ret = x.run(f, [fm, E.const(pauli), LocV(loc)], {}, Obj(cls, {}, 'code'))
    return f, x, st, fm, opv, loc


def ob_site(pauli, timeout=30):
    """site(op, P, loc): op'(loc) = P * op(loc) as single-qubit Paulis up to phase (BSF xor), all other keys unchanged, never raises"""
    f, x, st, fm, opv, loc = _run_site(pauli)
    l = z3.Const('l', Loc)
    bits = {0: (0, 0), 1: (1, 0), 2: (1, 1), 3: (0, 1)}
    pb = bits['IXYZ'.index(pauli)]
    want = z3.IntVal(0)
    for k, (xb, zb) in bits.items():
        nb = (xb ^ pb[0], zb ^ pb[1])
        code = [c for c, b in bits.items() if b == nb][0]
        want = z3.If(opv(loc) == k, code, want)
    dom = z3.ForAll([l], z3.And(opv(l) >= 0, opv(l) <= 3))
    goal = [dom, z3.Or(fm.fn(loc) != want, z3.And(l != loc, fm.fn(l) != opv(l)), z3.Or([c for c, _, _ in st.raises] + [z3.BoolVal(False)]))]
    r = check(goal, timeout)
    return result('site', r, [f], x, goal, detail='%d write(s)' % fm.writes)


# --------------------------------------------------------------------------------------- sweep_move update loop
def ob_update(dec, path, timeout=30):
    """in sweep_move, every flipped edge (i) toggles signs through flip_edge on the NEW signs array and (ii) toggles the correction at that
    edge with Z (GF(2) toggle: Z on an edge already in the correction removes it).  (iii) the sweep rule reads the OLD signs only."""
    m = Module.load(path)
    cls = m.classes[dec]
    f = cls.methods['sweep_move']
    body = f.node.body
    loops = [n for n in body if isinstance(n, ast.For)]
    last = loops[-1] if loops else None
    problems = []
    if last is None or not (isinstance(last.iter, ast.Name) and last.iter.id == 'flip_locations'):
        raise Unsupported('sweep_move does not end with a loop over flip_locations')
    loc = z3.Const('edge', Loc)
    opv = z3.Function('opv', Loc, z3.IntSort())
    fm = FMap(lambda l: opv(l))
    calls = []
    new_signs = Opaque('new_signs')
    intr = {'self.flip_edge': lambda x, st, a, k: calls.append(('flip_edge', a)) or NONE}
    # site is executed from the real source on the functional map
    sc = Module.load('panqec/codes/base/_stabilizer_code.py').classes['StabilizerCode']
    x = X(m, intr)
    orig_apply = x.apply

    def apply(fv, args, kwargs, st, node=None):
        if isinstance(fv, tuple) and fv and fv[0] == 'fmap_pop':
            fv[1]._set(st, args[0], z3.IntVal(0)); return NONE
        return orig_apply(fv, args, kwargs, st, node)
    x.apply = apply
    code = Obj(sc, {}, 'code')
    selfo = Obj(cls, {'code': code}, 'decoder')
    env = {'self': selfo, 'correction': fm, 'new_signs': new_signs, 'signs': Opaque('signs'), last.target.id: LocV(loc)}
    st = St()
    x._cur_class = cls
    x.block(last.body, env, st)
    if len(calls) != 1 or calls[0][1][0] is not env[last.target.id] or calls[0][1][1] is not new_signs:
        problems.append('flip_edge is not called exactly once per flipped edge on (edge, new_signs)')
    # new_signs must be a copy of signs made before the update loop, returned at the end
    src = ast.unparse(f.node)
    unrec = []
    if 'new_signs = signs.copy()' not in src or not (isinstance(body[-1], ast.Return) and ast.unparse(body[-1].value) == 'new_signs'):
        unrec.append('new_signs is not `signs.copy()` returned at the end')
    # sweep rule reads old signs only: no subscript of new_signs outside flip_edge
    for n in ast.walk(f.node):
        if isinstance(n, ast.Subscript) and isinstance(n.value, ast.Name) and n.value.id == 'new_signs':
            problems.append('sweep rule indexes new_signs directly (line %d)' % n.lineno)
    if problems:
        return dict(verdict='refuted', model=None, backend='pyvc-structural', seconds=0, kind='state', detail='; '.join(problems),
                    functions=[dict(function=f.ref, sha256_16=f.sha)], transparent=sorted(x.transparent))
    if unrec:
        raise Unsupported('source shape of sweep_move not recognised: %s' % unrec)
    l = z3.Const('l', Loc)
    want = z3.If(opv(loc) == 0, 3, z3.If(opv(loc) == 3, 0, z3.If(opv(loc) == 1, 2, 1)))       # xor with Z
    dom = z3.ForAll([l], z3.And(opv(l) >= 0, opv(l) <= 3))
    goal = [dom, z3.Or(fm.fn(loc) != want, z3.And(l != loc, fm.fn(l) != opv(l)), z3.Or([c for c, _, _ in st.raises] + [z3.BoolVal(False)]))]
    r = check(goal, timeout, eval_terms={'correction_at_edge_before': opv(loc)})
    out = result('update', r, [f, sc.methods['site']], x, goal, dec=dec)
    out['kind'] = 'state'
    return out


def ob_initial(dec, path, timeout=30):
    """get_initial_state: signs = copy of the syndrome with the vertex (Z-type) rows zeroed; decode returns to_bsf(correction) of a dict only
    modified inside sweep_move; loop exit condition `any(signs)`"""
    m = Module.load(path); cls = m.classes[dec]
    gi, de = cls.methods['get_initial_state'], cls.methods['decode']
    src = [ast.unparse(s) for s in gi.node.body if not (isinstance(s, ast.Expr) and isinstance(s.value, ast.Constant))]
    problems, unrec = [], []
    if src != ['signs = syndrome.copy()', 'signs[self.code.z_indices] = 0', 'return signs']:
        unrec.append('get_initial_state is not literally copy + zero the z rows: %s' % src)
    dsrc = ast.unparse(de.node)
    if 'signs = self.get_initial_state(syndrome)' not in dsrc or 'return self.code.to_bsf(correction)' not in dsrc:
        unrec.append('decode does not start from get_initial_state(syndrome) / return to_bsf(correction)')
    if 'correction: Dict = dict()' not in dsrc and 'correction = dict()' not in dsrc:
        unrec.append('correction does not start empty')
    for n in ast.walk(de.node):
        if isinstance(n, ast.Subscript) and isinstance(n.ctx, ast.Store) and isinstance(n.value, ast.Name) and n.value.id in ('correction', 'signs', 'syndrome'):
            problems.append('decode writes %s directly (line %d)' % (n.value.id, n.lineno))
        if isinstance(n, ast.While) and 'any(signs)' not in ast.unparse(n.test):
            problems.append('sweep loop does not stop on `not any(signs)`')
    # the dict handed to every sweep_move call is the very dict whose to_bsf is returned, and decode itself never calls a method on it
    # (update / pop / clear ...) nor rebinds it: otherwise "accumulated correction" is no longer what sweep_move toggles - undecided here, the
    # step-by-step run-time contract decides
    n_sm = 0
    for n in ast.walk(de.node):
        if isinstance(n, ast.Call) and ast.unparse(n.func) == 'self.sweep_move':
            n_sm += 1
            if len(n.args) < 2 or ast.unparse(n.args[0]) != 'signs' or ast.unparse(n.args[1]) != 'correction':
                unrec.append('sweep_move is called on %s (line %d), not on (signs, correction)' % (ast.unparse(n)[:60], n.lineno))
        if isinstance(n, ast.Call) and isinstance(n.func, ast.Attribute) and isinstance(n.func.value, ast.Name) and n.func.value.id == 'correction':
            unrec.append('decode calls correction.%s (line %d)' % (n.func.attr, n.lineno))
    if n_sm == 0:
        unrec.append('decode never calls self.sweep_move')
    n_bind = sum(1 for n in ast.walk(de.node) if isinstance(n, (ast.Assign, ast.AnnAssign, ast.AugAssign))
                 for t in (n.targets if isinstance(n, ast.Assign) else [n.target]) for t_ in ast.walk(t) if isinstance(t_, ast.Name) and t_.id == 'correction')
    if n_bind != 1:
        unrec.append('correction is bound %d times in decode' % n_bind)
    if unrec and not problems:
        raise Unsupported('source shape not recognised: %s' % unrec)
    return dict(verdict='refuted' if problems else 'discharged', model=None, backend='pyvc-structural', seconds=0, kind='state',
                detail='; '.join(problems) or 'initial state = face part of the syndrome; correction starts empty and is only updated by sweep_move',
                functions=[dict(function=f.ref, sha256_16=f.sha) for f in (gi, de)], transparent=[])

# --------------------------------------------------------------------------------------- composition lemma over the contracts
def ob_inv_lemma(timeout=30):
    """the tracking invariant  signs(f) = faceSyndrome(e0 + bsf(correction))(f)  is inductive over the update loop of sweep_move, from the
    CONTRACTS only (no code is read here): geom (flip set = anticommuting faces), the signs toggle of flip_edge, update/site (Z toggle of
    the correction at the flipped edge, every other key unchanged) and bilinearity of the syndrome (C03).  Also: the correction stays
    Z-only, the empty correction satisfies the invariant, and `not any(signs)` + invariant gives a zero face syndrome."""
    Face = z3.DeclareSort('Face')
    Corr = z3.DeclareSort('CorrState')                       # abstract value of the dict `correction`
    at = z3.Function('corr_at', Corr, Loc, z3.IntSort())     # 0 = absent/I, 1 = X, 2 = Y, 3 = Z   (same coding as ob_site / ob_update)
    syn = z3.Function('face_syndrome', Corr, Face, z3.IntSort())     # face syndrome bit of e0 + bsf(correction)
    anti = z3.Function('anti', Loc, Face, z3.BoolSort())     # Z on the edge anticommutes with the face stabilizer
    flip = z3.Function('flipset', Loc, Face, z3.BoolSort())  # flip_edge(edge, .) toggles signs at the face
    s0 = z3.Function('signs_before', Face, z3.IntSort()); s1 = z3.Function('signs_after', Face, z3.IntSort())
    c0, c1, cE = z3.Const('c0', Corr), z3.Const('c1', Corr), z3.Const('c_empty', Corr)
    q, l = z3.Const('q', Loc), z3.Const('l', Loc); f = z3.Const('f', Face)
    zt = lambda v: z3.If(v == 0, 3, z3.If(v == 3, 0, z3.If(v == 1, 2, 1)))          # the `want` of C10.update / C10.site[Z]
    bit = lambda b: z3.If(b, 1, 0)
    contracts = [
        z3.ForAll([l, f], flip(l, f) == anti(l, f)),                                                   # C10.geom
        z3.ForAll([f], s1(f) == (s0(f) + bit(flip(q, f))) % 2),                                        # flip_edge: toggle exactly the flip set
        at(c1, q) == zt(at(c0, q)), z3.ForAll([l], z3.Implies(l != q, at(c1, l) == at(c0, l))),         # C10.update (site toggle + frame)
        # C03 bilinearity: changing the correction by Z on one edge changes each face bit by anti(edge, face)
        z3.ForAll([f], z3.Implies(z3.And(at(c0, q) == 0, at(c1, q) == 3), syn(c1, f) == (syn(c0, f) + bit(anti(q, f))) % 2)),
        z3.ForAll([f], z3.Implies(z3.And(at(c0, q) == 3, at(c1, q) == 0), syn(c1, f) == (syn(c0, f) + bit(anti(q, f))) % 2)),
        z3.ForAll([f], z3.And(s0(f) >= 0, s0(f) <= 1, syn(c0, f) >= 0, syn(c0, f) <= 1)),
    ]
    inv0 = [z3.ForAll([f], s0(f) == syn(c0, f)), z3.ForAll([l], z3.Or(at(c0, l) == 0, at(c0, l) == 3))]
    bad = z3.Or(s1(f) != syn(c1, f), z3.And(at(c1, l) != 0, at(c1, l) != 3))
    r = check(contracts + inv0 + [bad], timeout)
    cov = check(contracts + inv0 + [anti(q, f), at(c0, q) == 3], 10, fallbacks=False)['verdict']
    # exit: no excitation tracked + invariant => zero face syndrome
    r2 = check(inv0 + [z3.ForAll([f], s0(f) == 0), syn(c0, f) != 0], timeout)
    if r['verdict'] == 'unsat' and r2['verdict'] != 'unsat':
        r = r2
    out = result('inv', r, [], None, contracts + inv0 + [bad], detail='inductive step + Z-only + exit; hypotheses satisfiable with a re-flipped anticommuting edge: %s' % cov)
    out['kind'] = 'lemma'
    if cov != 'sat' and out['verdict'] == 'discharged':
        out['verdict'] = 'refuted'; out['detail'] = 'vacuous'
    return out


def obligations(tier):
    to = 200 if tier == 'quick' else 900
    obs = []
    for dec, path, cls in PAIRS:
        obs.append(Ob('C10.geom[%s,%s]' % (dec, cls), ob_geom, dict(dec=dec, path=path, cls=cls, timeout=to), timeout=to))
    for p in 'XYZ':
        obs.append(Ob('C10.site[%s]' % p, ob_site, dict(pauli=p), timeout=30))
    for dec, path in (('SweepDecoder3D', SW), ('RotatedSweepDecoder3D', RS)):
        obs.append(Ob('C10.update[%s]' % dec, ob_update, dict(dec=dec, path=path), timeout=30, kind='state'))
        obs.append(Ob('C10.initial[%s]' % dec, ob_initial, dict(dec=dec, path=path), timeout=30, kind='state'))
    obs.append(Ob('C10.inv[lemma]', ob_inv_lemma, dict(), timeout=30, kind='lemma'))
    return obs


# ------------------------------------------------------------------------------------------------ native layer
from bounded import codes as BC    # noqa
from bounded.util import toint    # noqa

NATIVE = [('SweepDecoder3D', 'Toric3DCode', [(2, 2, 2), (3, 3, 3), (2, 3, 4)]), ('SweepDecoder3D', 'Planar3DCode', [(1, 1, 1), (2, 2, 2), (3, 2, 3)]),
          ('RotatedSweepDecoder3D', 'RotatedPlanar3DCode', [(2, 2, 2), (3, 3, 3), (4, 3, 2)]),
          ('RotatedSweepDecoder3D', 'RotatedToric3DCode', [(2, 2, 2), (4, 4, 2), (2, 4, 3)])]


def _mk(dec, cls, size, seed=0):
    import panqec.decoders as Dm
    from panqec.error_models import PauliErrorModel
    code = BC.make(cls, size)
    return code, getattr(Dm, dec)(code, PauliErrorModel(0, 0, 1), 0.1, seed=seed)


def is_seam(size, edge):
    return edge[0] <= 1 or edge[0] >= 2 * size[0] - 1 or edge[1] <= 1 or edge[1] >= 2 * size[1] - 1


def native_geom(dec, cls, size, edges=None):
    """flip_edge(q) toggles exactly the face stabilizers that anticommute with Z on q (real decoder, real code)"""
    code, d = _mk(dec, cls, size)
    faces = [loc for loc in code.stabilizer_coordinates if code.stabilizer_type(loc) == 'face']
    out = []
    for q in (edges or code.qubit_coordinates):
        signs = np.zeros(code.n_stabilizers, dtype=int)
        try:
            d.flip_edge(q, signs)
        except Exception as e:      # noqa
            out.append((q, 'flip_edge raises %s: %s' % (type(e).__name__, e))); continue
        want = {f for f in faces if code.get_stabilizer(f).get(q, 'Z') != 'Z'}
        got = {code.stabilizer_coordinates[i] for i in np.nonzero(signs % 2)[0]}
        if got != want:
            out.append((q, 'flip_edge(%s) toggles %s but Z on it anticommutes with faces %s' % (q, sorted(got), sorted(want))))
    return out


def native_track(dec, cls, size, err_qubits, seed=0):
    """every sweep step: tracked signs == face syndrome of (error + correction so far); correction Z-only; zero signs => zero face syndrome"""
    code, d = _mk(dec, cls, size, seed)
    e = code.to_bsf({q: 'Z' for q in err_qubits})
    orig = d.sweep_move
    bad = []

    def wrapped(signs, correction, *a):
        before = dict(correction)
        new = orig(signs, correction, *a)
        tot = (e + code.to_bsf(correction)) % 2
        syn = np.array(code.measure_syndrome(tot)).copy(); syn[code.z_indices] = 0
        if not bad:
            if not np.array_equal(syn, new):
                changed = [k for k in set(correction) ^ set(before)]
                bad.append(dict(why='tracked excitations %d != true residual face excitations %d after a sweep step' % (int(np.sum(new)), int(np.sum(syn))),
                                seam=any(is_seam(size, k) for k in changed) or any(is_seam(size, k) for k in correction)))
            elif any(v != 'Z' for v in correction.values()):
                bad.append(dict(why='correction contains a non-Z Pauli', seam=False))
        return new
    d.sweep_move = wrapped
    try:
        c = d.decode(code.measure_syndrome(e))
    except Exception as ex:     # noqa
        return dict(why='decode raises %s: %s' % (type(ex).__name__, ex), seam=False)
    if bad:
        return bad[0]
    n = code.n
    if np.any(np.asarray(c)[:n] != 0):
        return dict(why='returned correction has an X component', seam=False)
    return None


def replay(r):
    m = r.get('model') or {}
    nm = r['name']
    if nm.startswith('C10.geom'):
        dec, cls = r.get('dec'), r.get('cls')
        size = tuple(max(1, toint(m.get('L' + c), 2)) for c in 'xyz')
        q = tuple(toint(m.get('q%d' % i)) for i in range(3))
        bad = native_geom(dec, cls, size, [q])
        return dict(confirmed=bool(bad), input=dict(decoder=dec, code=cls, size=list(size), edge=list(q), seam=is_seam(size, q)),
                    detail=bad[0][1] if bad else 'geometry holds natively for edge %s on %s%s' % (q, cls, size))
    if nm.startswith('C10.update') or nm.startswith('C10.site') or nm.startswith('C10.initial'):
        dec = r.get('dec') or 'SweepDecoder3D'
        cls = 'Toric3DCode' if dec == 'SweepDecoder3D' else 'RotatedPlanar3DCode'
        rnd = random.Random(0)
        for size in [(3, 3, 3), (2, 2, 2)]:
            code = BC.make(cls, size)
            for trial in range(150):
                k = rnd.randint(1, 5)
                errq = rnd.sample(code.qubit_coordinates, k)
                w = native_track(dec, cls, size, errq)
                if w:
                    return dict(confirmed=True, input=dict(decoder=dec, code=cls, size=list(size), z_errors=[list(map(int, q)) for q in errq], seam=w['seam']), detail=w['why'])
        return dict(confirmed=None, detail='no failing decode found among 300 random low-weight Z errors')
    return None


def replay_file(data):
    inp = data.get('input') or {}
    if 'edge' in inp:
        bad = native_geom(inp['decoder'], inp['code'], tuple(inp['size']), [tuple(inp['edge'])])
        return dict(confirmed=bool(bad), detail=bad[0][1] if bad else 'holds', input=inp)
    if 'z_errors' in inp:
        w = native_track(inp['decoder'], inp['code'], tuple(inp['size']), [tuple(q) for q in inp['z_errors']])
        return dict(confirmed=bool(w), detail=w['why'] if w else 'holds', input=inp)
    return dict(confirmed=None, detail='nothing to replay')


def bounded(tier, seed):
    rnd = random.Random(seed)
    ev, nt, viol, samples = 0, set(), [], []
    t0 = time.time()
    # witnesses of listed known findings are always visited, so their KNOWN-FINDING lines are printed on every run while they persist
    for dec, cls, size, errq in [('RotatedSweepDecoder3D', 'RotatedToric3DCode', (2, 2, 3), [(1, 1, 3), (1, 3, 1)]),
                                 ('RotatedSweepDecoder3D', 'RotatedToric3DCode', (2, 2, 2), [(1, 1, 1)]),
                                 ('RotatedSweepDecoder3D', 'RotatedToric3DCode', (2, 2, 2), [(1, 1, 1), (3, 3, 1)])]:
        w = native_track(dec, cls, size, errq)
        ev += 1
        if w:
            viol.append(dict(obligation='C10.bounded.track[%s,%s]' % (dec, cls), input=dict(decoder=dec, code=cls, size=list(size), z_errors=[list(q) for q in errq], seam=w['seam']), detail=w['why']))
    # geometry clause alone on shape-covering lattices (every ordering of unequal extents: a bound written with the wrong axis shows only there)
    from bounded.util import supported
    shapes = sorted(set(itertools.permutations((2, 3, 4))) | set(itertools.permutations((1, 2, 3))) | set(itertools.permutations((2, 2, 4))) | set(itertools.permutations((1, 3, 1))))
    for dec, cls, _ in NATIVE:
        for size in shapes:
            if not supported(cls, size) or time.time() - t0 > (60 if tier == 'quick' else 600):
                continue
            try:
                found = native_geom(dec, cls, size)
            except Exception:       # noqa   (size outside the family the class accepts)
                continue
            ev += 1; nt.add((dec, cls, size, 'geom'))
            for q, why in found[:3]:
                viol.append(dict(obligation='C10.bounded.geom[%s,%s]' % (dec, cls), input=dict(decoder=dec, code=cls, size=list(size), edge=list(map(int, q)), seam=is_seam(size, q)), detail=why))
    for dec, cls, sizes in NATIVE:
        for size in sizes[: (2 if tier == 'quick' else 3)]:
            for q, why in native_geom(dec, cls, size):
                viol.append(dict(obligation='C10.bounded.geom[%s,%s]' % (dec, cls), input=dict(decoder=dec, code=cls, size=list(size), edge=list(map(int, q)), seam=is_seam(size, q)), detail=why))
            code = BC.make(cls, size)
            ev += code.n
            qs = code.qubit_coordinates
            cases = [[q] for q in qs] + [list(p) for p in itertools.combinations(qs, 2)]
            rnd.shuffle(cases)
            cases = cases[: (60 if tier == 'quick' else 600)]
            for rate in (0.05, 0.15, 0.3):
                for _ in range(8 if tier == 'quick' else 60):
                    cases.append([q for q in qs if rnd.random() < rate])
            for errq in cases:
                if time.time() - t0 > (60 if tier == "quick" else 1500):
                    break
                w = native_track(dec, cls, size, errq, seed=rnd.randint(0, 5))
                ev += 1
                if len(errq) >= 2:
                    nt.add((dec, cls, size, tuple(errq)))
                if len(samples) < 4 and len(errq) == 2:
                    samples.append(dict(decoder=dec, code=cls, size=size, z_errors=errq, ok=w is None))
                if w:
                    viol.append(dict(obligation='C10.bounded.track[%s,%s]' % (dec, cls), input=dict(decoder=dec, code=cls, size=list(size), z_errors=[list(map(int, q)) for q in errq], seam=w['seam']), detail=w['why']))
    from pyvc.runner import known_match
    out, seen = [], set()
    for v in viol:
        key = (v['obligation'], known_match(PROPERTY, v['obligation'], v['input']) is not None)
        if key not in seen:
            seen.add(key); out.append(v)
    return dict(bound='4 decoder/code pairs x 2-3 sizes: every edge (geometry), all weight-1 and sampled weight-2 Z errors, random Z errors at 3 rates, tie-break seeds 0..5; every sweep step checked',
                evaluations=ev, distinct_nontrivial=len(nt), rule='real decoder with sweep_move wrapped by the tracking contract; non-trivial iff weight >= 2',
                samples=samples, violations=out)
