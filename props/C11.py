"""C11 - Monte-Carlo trials are self-consistent, reproducible and calibrated.

Deductive:
  run_once.fields    each recorded field is the named function of error / correction (symbolic execution against tagged stand-ins)
  run_once.range     error rates outside [0,1] raise
  _run.lengths       one generic iteration of DirectSimulation._run appends exactly one element to every recorded list and adds 1 to n_runs
  results.formula    get_results: n_fail = #(not success), p_est = n_fail / n_runs, p_se = sqrt(p(1-p)/(n+1))
  rng.*              dependence analysis: on the path where an rng is supplied nothing on the trial path reads global random state
                     (random.*, np.random.* module functions, default_rng() without seed)
Lemma (over contracts, stated): per-trial success = C04's predicate, errors drawn from exactly C07's distribution, decode a function
of the syndrome alone (C06)  =>  E[n_fail/n_runs] = sum_e P(e) fail(e).
Bounded: exact failure probability by enumeration of all 4^n errors through the real decoder vs. the value obtained by driving the real
run_once with an enumerating stub model (deterministic, no statistics); seeded runs repeated bit-for-bit in a fresh process and in chunks.
"""
import ast, itertools, json, os, random, subprocess, sys, time, io, contextlib
import numpy as np
import z3
from contracts.common import *
from contracts.decoders import DECODERS, cls as dcls, class_cfg, PEM, BEM
from pyvc.effects import Effects
from pyvc.symex import red_const, _RED_TABLE
from pyvc.values import Alt
from pyvc.runner import Ob

PROPERTY = 'C11'
LEVEL = 'other'
EXPLANATION = ('field relations / counters / estimator formula as VCs from the symbolically executed run_once, _run body and get_results; RNG threading by dependence analysis; '
               'calibration (unbiasedness) is a lemma over C04+C06+C07 and is cross-checked exactly by 4^n enumeration on small codes')
ASSUMPTIONS = [
    'A-ext: numpy Generator draws are a deterministic function of the seed and the call sequence',
    'C04 (success predicate), C06 (decode is a function of the syndrome), C07 (sampling distribution) - used by the calibration lemma',
    'A-real for the estimator formula; sqrt uninterpreted',
    'decoders whose decode() is analysed in C06 do not read global random state (rng.* obligations cover generate/fast_choice/run_once and every decode())',
]
TRUSTED_BASE = ['pyvc executor', 'pyvc/effects.py', 'z3 5.1.0']
DS = 'panqec/simulation/_direct_simulation.py'
N, K = z3.Int('n'), z3.Int('k')


def sym_run_once(rate=None):
    m = Module.load(DS)
    f = m.funcs['run_once']
    Ef = z3.Function('err', INT, INT); Cf = z3.Function('corr', INT, INT); EFFf = z3.Function('eff', INT, INT)
    rec = dict(gen=[], meas=[], dec=[], eff=[], incs=[])
    error = Arr((2 * N,), lambda i: Ef(Z(i)), 'int', 'extret:generate')
    syn = Opaque('syndrome_of_error')
    corr = Arr((2 * N,), lambda i: Cf(Z(i)), 'int', 'extret:decode')
    eff = Arr((2 * K,), lambda i: EFFf(Z(i)), 'int', 'fresh')
    cs = z3.Bool('in_codespace')
    lx, lz = Opaque('logicals_x'), Opaque('logicals_z')
    code = Obj(None, {'logicals_x': lx, 'logicals_z': lz}, 'code')
    rng = Obj(None, {}, 'rng')
    p = z3.Real('error_rate') if rate is None else rate
    intr = {
        'error_model.generate': lambda x, st, a, k: (rec['gen'].append((a, k)) or error),
        'code.measure_syndrome': lambda x, st, a, k: (rec['meas'].append(a) or syn),
        'decoder.decode': lambda x, st, a, k: (rec['dec'].append(a) or corr),
        'get_effective_error': lambda x, st, a, k: (rec['eff'].append(a) or eff),
        'code.in_codespace': lambda x, st, a, k: (rec['incs'].append(a) or cs),
    }
    x = X(m, intr)
    st, ret = x.run(f, [code, Obj(None, {}, 'error_model'), Obj(None, {}, 'decoder'), p], {'rng': rng})
    return dict(f=f, x=x, st=st, ret=ret, rec=rec, error=error, syn=syn, corr=corr, eff=eff, cs=cs, Ef=Ef, Cf=Cf, EFFf=EFFf, code=code, rng=rng, lx=lx, lz=lz, p=p)


def ob_fields(timeout=30):
    s = sym_run_once()
    rec, ret = s['rec'], s['ret']
    problems = []
    if not isinstance(ret, D) or set(ret.kv) != {'error', 'syndrome', 'correction', 'effective_error', 'success', 'codespace'}:
        problems.append('result keys are %s' % (sorted(ret.kv) if isinstance(ret, D) else type(ret).__name__))
    else:
        if ret.kv['error'] is not s['error']:
            problems.append("results['error'] is not the generated error")
        if ret.kv['syndrome'] is not s['syn']:
            problems.append("results['syndrome'] is not measure_syndrome(error)")
        if ret.kv['correction'] is not s['corr']:
            problems.append("results['correction'] is not the decoder's return value")
        if ret.kv['effective_error'] is not s['eff']:
            problems.append("results['effective_error'] is not get_effective_error(total_error, ...)")
    if len(rec['gen']) != 1 or rec['gen'][0][0][0] is not s['code'] or rec['gen'][0][1].get('rng') is not s['rng'] \
            or not (isinstance(rec['gen'][0][1].get('error_rate'), z3.ExprRef) and rec['gen'][0][1]['error_rate'].eq(s['p'])):
        problems.append('error is not generated once by error_model.generate(code, error_rate=error_rate, rng=rng)')
    if len(rec['meas']) != 1 or rec['meas'][0][0] is not s['error']:
        problems.append('syndrome is not measured on the generated error')
    if len(rec['dec']) != 1 or rec['dec'][0][0] is not s['syn']:
        problems.append('the decoder is not called on the measured syndrome')
    if len(rec['eff']) != 1 or len(rec['incs']) != 1:
        problems.append('effective error / codespace not computed exactly once')
    elif rec['eff'][0][1] is not s['lx'] or rec['eff'][0][2] is not s['lz']:
        problems.append('get_effective_error is not called with (code.logicals_x, code.logicals_z)')
    if problems:
        return dict(verdict='refuted', model=dict(problems=problems), backend='pyvc-symex', seconds=0, detail='; '.join(problems), kind='state',
                    functions=[dict(function=s['f'].ref, sha256_16=s['f'].sha)], transparent=sorted(s['x'].transparent))
    i = z3.Int('i')
    tot_eff, tot_cs = rec['eff'][0][0], rec['incs'][0][0]
    want = (s['Cf'](i) + s['Ef'](i)) % 2
    succ = ret.kv['success']; cs = ret.kv['codespace']
    j = z3.Int('j')
    allzero = z3.ForAll([j], z3.Implies(z3.And(j >= 0, j < 2 * K), s['EFFf'](j) == 0))
    goal = [N >= 1, K >= 1, i >= 0, i < 2 * N, s['p'] >= 0, s['p'] <= 1,
            z3.Or(Z(tot_eff.f(i)) != want, Z(tot_cs.f(i)) != want, Z(tot_eff.shape[0]) != 2 * N, B(cs) != s['cs'],
                  B(succ) != z3.And(allzero, s['cs']), z3.Or([c for c, _, _ in s['st'].raises] + [z3.BoolVal(False)]))]
    return result('fields', check(goal, timeout), [s['f']], s['x'], goal, kind='state',
                  detail='syndrome=syndrome(error); effective_error and codespace computed on (correction+error) mod 2; success <=> codespace and effective_error == 0')


def ob_range(timeout=30):
    s = sym_run_once()
    raises = z3.Or([c for c, nm, _ in s['st'].raises if nm == 'ValueError'] + [z3.BoolVal(False)])
    goal = [z3.Or(s['p'] < 0, s['p'] > 1), z3.Not(raises)]
    return result('range', check(goal, timeout), [s['f']], s['x'], goal)


class SList:
    """list of symbolic length"""
    def __init__(self, name):
        self.name = name; self.len0 = z3.Int('len_' + name); self.appended = []

    def acc_append(self, x, st, item):
        self.appended.append((st.live, item))

    def acc_attr(self, x, st, name):
        raise Unsupported('list.%s' % name)


def ob_run_lengths(timeout=30):
    m = Module.load(DS); c = m.classes['DirectSimulation']
    f = c.methods['_run']
    loops = [n for n in f.node.body if isinstance(n, ast.For)]
    if len(loops) != 1 or ast.unparse(loops[0].iter) != 'range(n_runs)':
        raise Unsupported('_run is not one loop over range(n_runs)')
    keys = ['effective_error', 'success', 'codespace']
    lists = {k: SList(k) for k in keys}
    nr = z3.Int('n_runs_before')
    results = D(dict({k: lists[k] for k in keys}, n_runs=nr, wall_time=z3.Real('wall')))
    shot = D({k: Opaque('shot.' + k) for k in ['error', 'syndrome', 'correction', 'effective_error', 'success', 'codespace']})
    calls = []
    selfo = Obj(c, {'_results': results, 'code': Opaque('code'), 'error_model': Opaque('em'), 'decoder': Opaque('dec'), 'error_rate': z3.Real('p'), 'rng': Opaque('self.rng')}, 'sim')
    x = X(m, {'run_once': lambda x_, st, a, k: (calls.append((a, k)) or shot)})
    env = {'self': selfo, 'n_runs': z3.Int('n_target'), loops[0].target.id: z3.Int('i_run')}
    st = St()
    x._cur_class = c
    x.block(loops[0].body, env, st)
    res = selfo.fields['_results']
    problems = []
    if len(calls) != 1:
        problems.append('run_once called %d times per iteration' % len(calls))
    else:
        a, k = calls[0]
        # bind against the real signature of run_once: every trial must be run on the simulation's own code, noise model, decoder, error rate and generator
        sig = [q.arg for q in m.funcs['run_once'].node.args.args]
        bound = dict(zip(sig, a)); bound.update(k)
        if bound.get('rng') is None or not (isinstance(bound.get('rng'), Opaque) and bound['rng'].tag == 'self.rng'):
            problems.append('run_once is not given self.rng')
        for par, tag in (('code', 'code'), ('error_model', 'em'), ('decoder', 'dec')):
            if not (isinstance(bound.get(par), Opaque) and bound[par].tag == tag):
                problems.append('run_once is not given self.%s as %s' % (par, par))
        er = bound.get('error_rate')
        if not (isinstance(er, z3.ExprRef) and er.eq(z3.Real('p'))):
            problems.append('run_once is not given the simulation\'s own error_rate (got %s): errors would be sampled at a different rate than the one recorded' % (er,))
    for kk, l in lists.items():
        if len(l.appended) != 1 or not (isinstance(l.appended[0][1], Opaque) and l.appended[0][1].tag == 'shot.' + kk):
            problems.append('list %r does not receive exactly the shot value of the same key (got %d appends)' % (kk, len(l.appended)))
    if problems or not isinstance(res, D):
        return dict(verdict='refuted', model=dict(problems=problems), backend='pyvc-symex', seconds=0, detail='; '.join(problems), kind='state',
                    functions=[dict(function=f.ref, sha256_16=f.sha)], transparent=sorted(x.transparent))
    goal = [z3.Or([z3.Not(l.appended[0][0]) for l in lists.values()] + [Z(res.kv['n_runs']) != nr + 1])]
    return result('lengths', check(goal, timeout), [f], x, goal, kind='state',
                  detail='inductive step of the invariant len(results[k]) == n_runs for k in %s' % keys)


def ob_results_formula(timeout=30):
    m = Module.load(DS); c = m.classes['DirectSimulation']
    f = c.methods['get_results']
    n = z3.Int('n_trials')
    Sf = z3.Function('success_at', INT, z3.BoolSort())
    succ = Arr((n,), lambda i: Sf(Z(i)), 'bool', 'field:_results.success')
    selfo = Obj(c, {'results': D({'success': succ})}, 'sim')
    x = X(m, {'np.array': lambda x_, st, a, k: a[0], 'np.nan': None})
    del x.intr['np.nan']
    st, ret = x.run(f, [], {}, selfo, St(n >= 1))
    if isinstance(ret, Alt):
        ret = x._collapse(ret)
    if not isinstance(ret, D):
        raise Unsupported('get_results does not return a dict literal')
    # locate the reduction constants
    i = z3.Int('i')
    nf = ret.kv['n_fail']; ns = ret.kv['n_success']
    goals = [Z(ret.kv['n_runs']) != n]
    reds = {id(c_): r for c_, r in _RED_TABLE}

    def red_of(v):
        if isinstance(v, Alt):
            for _, a_ in v.alts:
                r = red_of(a_)
                if r is not None:
                    return r
            return None
        for c_, r in _RED_TABLE:
            if isinstance(v, z3.ExprRef) and v.eq(c_):
                return r
        return v if type(v).__name__ == 'Red' else None
    rf, rs = red_of(nf), red_of(ns)
    problems = []
    if rf is None or rf.kind != 'sum' or rs is None or rs.kind != 'sum':
        problems.append('n_fail / n_success are not sums over the success array')
    else:
        goals += [B(rf.arr.f(i)) != z3.Not(Sf(i)), B(rs.arr.f(i)) != Sf(i), Z(rf.arr.shape[0]) != n]
    nfc = red_const(rf) if rf is not None else z3.Int('nf')
    pe = Z(ret.kv['p_est']); pse = Z(ret.kv['p_se'])
    nfr = z3.ToReal(nfc) if nfc.is_int() else nfc
    goals += [pe != nfr / z3.ToReal(n), pse != UF['sqrt'](pe * (1 - pe) / (z3.ToReal(n) + 1))]
    if problems:
        return dict(verdict='refuted', model=dict(problems=problems), backend='pyvc-symex', seconds=0, detail='; '.join(problems), kind='state',
                    functions=[dict(function=f.ref, sha256_16=f.sha)], transparent=[])
    goal = [n >= 1, i >= 0, i < n, z3.Or(goals)]
    return result('formula', check(goal, timeout), [f], x, goal, detail='n_fail = #(not success); p_est = n_fail/n_runs; p_se = sqrt(p(1-p)/(n+1))')


def ob_rng(which):
    """no global random state on the seeded path"""
    if which == 'run_once':
        f = Module.load(DS).funcs['run_once']
        ef = Effects(class_cfg=class_cfg(), nullness={'rng': False}); r = ef.analyse(f)
    elif which == 'generate':
        f = PEM.methods['generate']
        ef = Effects(class_cfg=class_cfg(), nullness={'rng': False}); r = ef.analyse(f, self_cls=PEM)
    elif which == 'fast_choice':
        f = Module.load('panqec/error_models/_pauli_error_model.py').funcs['fast_choice']
        ef = Effects(class_cfg=class_cfg(), nullness={'rng': False}); r = ef.analyse(f)
    else:
        c = dcls(which); f = c.lookup('decode')
        ef = Effects(class_cfg=class_cfg()); r = ef.analyse(f, self_cls=c)
    bad = ['%s (line %d, %s)' % a for a in r.ambient]
    if 'global-rng' in r.ret.deps:
        bad.append('returned value depends on global random state')
    uses = sorted(d for d in r.ret.deps if d.startswith('rng:'))
    return dict(verdict='refuted' if bad else 'discharged', model=dict(function=which, reads=bad) if bad else None, backend='pyvc-effects', seconds=0, kind='state',
                detail=('global random state read on the seeded path: %s' % bad) if bad else 'no ambient randomness; generator uses: %s' % uses,
                functions=[dict(function=g.ref, sha256_16=g.sha) for g in r.funcs], transparent=[],
                vacuity='%d functions analysed' % len(r.funcs))


def obligations(tier):
    obs = [Ob('C11.run_once.fields', ob_fields, {}, timeout=60, kind='state'), Ob('C11.run_once.range', ob_range, {}, timeout=60),
           Ob('C11._run.lengths', ob_run_lengths, {}, timeout=60, kind='state'), Ob('C11.results.formula', ob_results_formula, {}, timeout=60)]
    for w in ['run_once', 'generate', 'fast_choice'] + list(DECODERS):
        obs.append(Ob('C11.rng[%s]' % w, ob_rng, dict(which=w), timeout=60, kind='state', backend='pyvc-effects'))
    return obs


# ------------------------------------------------------------------------------------------------ native layer
from bounded import decoders as BD    # noqa
from bounded import codes as BC    # noqa


def in_rowspace(H, v):
    """independent GF(2) oracle: v in row space of H"""
    rows = [int(''.join(map(str, r)), 2) for r in (np.asarray(H) % 2).astype(int).tolist()]
    x = int(''.join(map(str, (np.asarray(v) % 2).astype(int).tolist())), 2)
    basis = []
    for r in rows:
        for b in basis:
            r = min(r, r ^ b)
        if r:
            basis.append(r)
    for b in sorted(basis, reverse=True):
        x = min(x, x ^ b)
    return x == 0


def native_trial(code, em, dec, p, seed):
    from panqec.simulation._direct_simulation import run_once
    with contextlib.redirect_stdout(io.StringIO()):
        r = run_once(code, em, dec, p, rng=np.random.default_rng(seed))
    e, c = np.asarray(r['error']), np.asarray(r['correction'])
    tot = (e + c) % 2
    if not np.array_equal(np.asarray(r['syndrome']) % 2, np.asarray(code.measure_syndrome(e)) % 2):
        return "recorded syndrome != syndrome(error)"
    if not np.array_equal(np.asarray(r['effective_error']), np.asarray(code.logical_errors(tot))):
        return "recorded effective_error != logical effect of error+correction"
    cs = not np.any(np.asarray(code.measure_syndrome(tot)) % 2)
    if bool(r['codespace']) != cs:
        return "codespace flag != (residual syndrome is zero)"
    if bool(r['success']) != (cs and not np.any(r['effective_error'])):
        return "success flag != codespace and zero effective error"
    H = code.stabilizer_matrix.toarray()
    if bool(r['success']) != in_rowspace(H, tot):
        return "success flag != (error+correction is a product of generators) by independent GF(2) elimination"
    return None


def native_sim(code, em, dname, p, seed):
    from panqec.simulation import DirectSimulation
    def run(chunks):
        dec, _ = BD.build(dname, code)
        sim = DirectSimulation(code, em, dec, p, rng=np.random.default_rng(seed), verbose=False)
        with contextlib.redirect_stdout(io.StringIO()):
            for k in chunks:
                sim.run(k)
        return sim
    a, b, c = run([7]), run([7]), run([3, 4])
    ra = a.results
    for k in ('effective_error', 'success', 'codespace'):
        if len(ra[k]) != ra['n_runs'] or ra['n_runs'] != 7:
            return 'list %r has length %d, n_runs=%d after run(7)' % (k, len(ra[k]), ra['n_runs'])
    for other, what in ((b, 'a second run with the same seed'), (c, 'the same run split into chunks 3+4')):
        for k in ('effective_error', 'success', 'codespace'):
            if not all(np.array_equal(x, y) for x, y in zip(ra[k], other.results[k])):
                return 'results[%r] differ from %s' % (k, what)
    # a decoder set up with a fixed prior rate different from the simulated one: errors must still be drawn at the SIMULATION's rate
    from panqec.error_models import PauliErrorModel
    seen_rates = []

    class Spy(PauliErrorModel):
        def generate(s_, code_, error_rate, rng=None):
            seen_rates.append(float(error_rate))
            return PauliErrorModel.generate(s_, code_, error_rate, rng)
    spy = Spy(*em.direction)
    dec_fixed, _ = BD.build(dname, code, p=0.05)
    p_sim = 0.3
    sim = DirectSimulation(code, spy, dec_fixed, p_sim, rng=np.random.default_rng(seed), verbose=False)
    with contextlib.redirect_stdout(io.StringIO()):
        sim.run(3)
    if len(seen_rates) != 3 or any(r_ != p_sim for r_ in seen_rates):
        return 'DirectSimulation(error_rate=%r) with a decoder built for rate 0.05 drew its errors at rates %s' % (p_sim, seen_rates)
    g = a.get_results()
    nf = sum(1 for s_ in ra['success'] if not s_)
    if g['n_fail'] != nf or g['n_runs'] != 7 or not np.isclose(g['p_est'], nf / 7) or not np.isclose(g['p_se'], np.sqrt(g['p_est'] * (1 - g['p_est']) / 8)):
        return 'get_results: n_fail=%r p_est=%r p_se=%r for %d failures in 7 runs' % (g['n_fail'], g['p_est'], g['p_se'], nf)
    return None


def native_shared_model(dname, cname, size_a, size_b, defo, direction, p, seed):
    """a noise-model object shared between simulations (as get_simulations does for `ranges`): trials on code B after the model was used on code A must be
    bit-identical to trials with a fresh model object"""
    from panqec.simulation._direct_simulation import run_once
    from panqec.error_models import PauliErrorModel
    a, b = BC.make(cname, size_a), BC.make(cname, size_b)
    shared = PauliErrorModel(*direction, deformation_name=defo)
    deca, _ = BD.build(dname, a, direction=direction, noise_deformation=defo)
    with contextlib.redirect_stdout(io.StringIO()):
        for k in range(3):
            run_once(a, shared, deca, p, rng=np.random.default_rng(k))
    fresh = PauliErrorModel(*direction, deformation_name=defo)
    for k in range(6):
        decb1, _ = BD.build(dname, b, direction=direction, noise_deformation=defo)
        decb2, _ = BD.build(dname, b, direction=direction, noise_deformation=defo)
        with contextlib.redirect_stdout(io.StringIO()):
            r1 = run_once(b, shared, decb1, p, rng=np.random.default_rng(seed + k))
            r2 = run_once(b, fresh, decb2, p, rng=np.random.default_rng(seed + k))
        if not np.array_equal(r1['error'], r2['error']) or r1['success'] != r2['success']:
            return 'with the same seed, a trial on %s%s differs when the noise-model object was used on %s%s before (shared model vs fresh model)' % (cname, size_b, cname, size_a)
    return None


def native_calibration(code, em, dname, p):
    """exact failure probability sum_e P(e) fail(e) by enumeration vs the same sum accumulated from run_once driven by an enumerating stub model"""
    from panqec.simulation._direct_simulation import run_once
    n = code.n
    dec, _ = BD.build(dname, code)
    pi, px, py, pz = em.probability_distribution(code, p)
    H = code.stabilizer_matrix.toarray()
    exact, via = 0.0, 0.0

    class Stub:
        def __init__(s_):
            s_.e = None

        def generate(s_, code_, error_rate, rng=None):
            return s_.e
    stub = Stub()
    for bits in itertools.product((0, 1), repeat=2 * n):
        e = np.array(bits, dtype=np.uint8)
        w = 1.0
        for i in range(n):
            w *= {(0, 0): pi[i], (1, 0): px[i], (1, 1): py[i], (0, 1): pz[i]}[(bits[i], bits[n + i])]
        if w == 0:
            continue
        with contextlib.redirect_stdout(io.StringIO()):
            c = np.asarray(dec.decode(np.asarray(code.measure_syndrome(e))))
            exact += w * (0 if in_rowspace(H, (e + c) % 2) else 1)
            stub.e = e
            r = run_once(code, stub, dec, p, rng=np.random.default_rng(0))
        via += w * (0 if r['success'] else 1)
    if not np.isclose(exact, via, atol=1e-12):
        return 'exact failure probability %.12f but the trial loop accumulates %.12f' % (exact, via)
    return None


REPRO_SCRIPT = r'''
import sys, json, warnings, io, contextlib, hashlib
warnings.filterwarnings('ignore')
import numpy as np
sys.path.insert(0, %r)
from bounded import decoders as BD, codes as BC
from panqec.simulation import DirectSimulation
from panqec.error_models import PauliErrorModel
d, cname, size, seed = json.loads(sys.argv[1])
code = BC.make(cname, tuple(size)); dec, em = BD.build(d, code)
sim = DirectSimulation(code, em, dec, 0.15, rng=np.random.default_rng(seed), verbose=False)
with contextlib.redirect_stdout(io.StringIO()):
    sim.run(6)
h = hashlib.sha256()
for k in ('effective_error', 'success', 'codespace'):
    h.update(repr([np.asarray(v).tolist() for v in sim.results[k]]).encode())
print(h.hexdigest())
'''


def native_fresh_process(d, cname, size, seed):
    outs = []
    for hs in ('0', '5'):
        env = dict(os.environ, PYTHONHASHSEED=hs, PYTHONWARNINGS='ignore')
        p = subprocess.run([sys.executable, '-c', REPRO_SCRIPT % os.path.dirname(os.path.dirname(os.path.abspath(__file__))), json.dumps([d, cname, list(size), seed])],
                           capture_output=True, text=True, env=env, timeout=600)
        if p.returncode != 0:
            return 'subprocess failed: %s' % p.stderr[-300:]
        outs.append(p.stdout.strip().splitlines()[-1])
    return None if len(set(outs)) == 1 else 'seeded run differs between two fresh processes'


def replay(r):
    rnd = random.Random(0)
    from panqec.error_models import PauliErrorModel
    for (d, cname, size, defo, kw) in BD.cases('quick')[:40]:
        if d == 'MemoryBeliefPropagationDecoder':
            continue
        code = BC.make(cname, size, defo, kw)
        dec, em = BD.build(d, code)
        for seed in range(4):
            why = native_trial(code, em, dec, 0.15, seed)
            if why:
                return dict(confirmed=True, input=dict(decoder=d, code=cname, size=list(size), deformation=defo, seed=seed, error_rate=0.15), detail=why)
        why = native_sim(code, em, d, 0.15, 3)
        if why:
            return dict(confirmed=True, input=dict(decoder=d, code=cname, size=list(size), deformation=defo, seed=3), detail=why)
    return dict(confirmed=None, detail='no failing trial found on the bounded cases')


def replay_file(data):
    return replay({})


def bounded(tier, seed):
    from panqec.error_models import PauliErrorModel
    rnd = random.Random(seed)
    ev, nt, viol, samples = 0, set(), [], []
    t0 = time.time()
    for (d, cname, size, defo, kw) in BD.cases(tier):
        if time.time() - t0 > (100 if tier == 'quick' else 1500):
            break
        if d == 'MemoryBeliefPropagationDecoder' and tier == 'quick':
            continue
        code = BC.make(cname, size, defo, kw)
        try:
            dec, em = BD.build(d, code)
            why = None
            for k in range(4 if tier == 'quick' else 20):
                why = why or native_trial(code, em, dec, rnd.choice([0.05, 0.15, 0.3]), rnd.randint(0, 10 ** 6))
            why = why or native_sim(code, em, d, 0.15, rnd.randint(0, 1000))
        except Exception as e:      # noqa
            why = 'raises %s: %s' % (type(e).__name__, str(e)[:150])
        ev += 1; nt.add((d, cname, size, defo))
        if why:
            viol.append(dict(obligation='C11.bounded.trial[%s]' % d, input=dict(decoder=d, code=cname, size=list(size), deformation=defo), detail=why))
    # the trials are drawn from the stated channel: sampling contract of the real generate() on deformed, biased models (every deformation of the 2-D codes)
    from bounded import noise as N
    from bounded.util import deformation_variants
    import panqec.codes as Cm
    for cname, size in (('Toric2DCode', (2, 3)), ('Planar2DCode', (2, 2)), ('RotatedPlanar2DCode', (3, 3)), ('Toric3DCode', (2, 2, 2))):
        cls = getattr(Cm, cname); code = cls(*size)
        for defo, kw in deformation_variants(cls):
            for direction in ((0.05, 0.05, 0.9), (0.1, 0.8, 0.1)):
                em = PauliErrorModel(*direction, deformation_name=defo, deformation_kwargs=kw or None)
                try:
                    why = N.nat_generate(em, code, 0.2, [rnd.random() for _ in range(code.n)])
                except Exception as e:      # noqa
                    why = 'raises %s: %s' % (type(e).__name__, str(e)[:150])
                ev += 1; nt.add(('sampling', cname, size, defo, direction))
                if why:
                    viol.append(dict(obligation='C11.bounded.sampling', input=dict(code=cname, size=list(size), noise_deformation=defo, kwargs=kw, direction=list(direction), error_rate=0.2), detail=why))
    calib = [('MatchingDecoder', 'Planar2DCode', (2, 2)), ('BeliefPropagationOSDDecoder', 'Planar2DCode', (2, 2)), ('MatchingDecoder', 'RotatedPlanar2DCode', (2, 2)),
             ('BeliefPropagationOSDDecoder', 'RotatedPlanar2DCode', (2, 2))]
    if tier != 'quick':
        calib += [('MatchingDecoder', 'Toric2DCode', (2, 2)), ('BeliefPropagationOSDDecoder', 'Planar2DCode', (2, 3))]
    for d, cname, size in calib:
        code = BC.make(cname, size)
        em = PauliErrorModel(0.2, 0.3, 0.5)
        why = native_calibration(code, em, d, 0.2)
        ev += 1; nt.add(('calib', d, cname, size))
        samples.append(dict(calibration=dict(decoder=d, code=cname, size=size, n=code.n, errors=4 ** code.n), ok=why is None))
        if why:
            viol.append(dict(obligation='C11.bounded.calibration[%s]' % d, input=dict(decoder=d, code=cname, size=list(size)), detail=why))
    for d, cname, sa, sb, defo in [('BeliefPropagationOSDDecoder', 'RotatedPlanar2DCode', (2, 3), (3, 2), 'XZZX'), ('BeliefPropagationOSDDecoder', 'Toric2DCode', (2, 4), (4, 2), 'XZZX'),
                                    ('BeliefPropagationOSDDecoder', 'Toric3DCode', (2, 2, 3), (2, 3, 2), 'XZZX'), ('MatchingDecoder', 'Planar2DCode', (2, 3), (3, 2), None)]:
        try:
            why = native_shared_model(d, cname, sa, sb, defo, (0.1, 0.1, 0.8), 0.2, seed)
        except Exception as e:      # noqa
            why = 'raises %s: %s' % (type(e).__name__, str(e)[:150])
        ev += 1; nt.add(('shared', d, cname, sa, sb))
        if why:
            viol.append(dict(obligation='C11.bounded.shared_model[%s]' % d, input=dict(decoder=d, code=cname, size_a=list(sa), size_b=list(sb), deformation=defo), detail=why))
    for d, cname, size in [('MatchingDecoder', 'Toric2DCode', (3, 3)), ('SweepMatchDecoder', 'Toric3DCode', (2, 2, 2)), ('BeliefPropagationOSDDecoder', 'XCubeCode', (2, 2, 2))]:
        why = native_fresh_process(d, cname, size, seed)
        ev += 1
        if why:
            viol.append(dict(obligation='C11.bounded.repro[%s]' % d, input=dict(decoder=d, code=cname, size=list(size)), detail=why))
    out, seen = [], set()
    for v in viol:
        if v['obligation'] not in seen:
            seen.add(v['obligation']); out.append(v)
    return dict(bound='sampling contract of generate() on every deformation of 4 codes x 2 biased directions; trial contracts on every decoder x bounded cases (4 seeded trials + run(7) twice + chunks 3+4); exact calibration by 4^n enumeration for n <= 5 (quick) / 8 (thorough); 3 seeded runs repeated in fresh processes',
                evaluations=ev, distinct_nontrivial=len(nt), rule='real run_once / DirectSimulation; success compared with an independent GF(2) row-space membership oracle',
                samples=samples[:4], violations=out)
