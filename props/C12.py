"""C12 - interrupted batch runs resume without losing or duplicating trials.

Deductive (P* over a small assumed POSIX effect model):
  atomic[save_json]   crash invariant: after every file-system effect of save_json the target file holds either its old content or the complete new
                      serialisation.  Decided on the AST: the only effect allowed on the target path is an atomic os.replace(tmp, target) performed after
                      the temporary file (same directory) has been completely written and closed; opening the target itself for writing truncates it.
  adopt[load]         results are adopted only from the record whose 'inputs' equal this simulation's inputs, only for keys the simulation already has
  count[_run]         inductive invariant of BatchSimulation._run: after the iteration for trial index t every simulation holds
                      n = n0 if n0 >= N else min(N, n0 + (t+1-m)), m = min n0  =>  on return exactly max(N, n0) trials; a save happens in the last iteration
  compose             lemma over the three clauses (stated)
Bounded: the real BatchSimulation in a subprocess with os._exit injected at the k-th file-system effect for every k (plain and gzip), restart, compare.
"""
import ast, json, os, random, subprocess, sys, tempfile, time, shutil
import z3
from contracts.common import *
from pyvc.runner import Ob

PROPERTY = 'C12'
LEVEL = 'other'
EXPLANATION = ('crash-atomicity of save_json as a crash-invariant obligation over an assumed POSIX effect model, decided on the AST; adoption rule and counting invariant as VCs '
               'from the symbolically executed bodies; kill-at-every-effect replay on the real BatchSimulation as bounded layer')
ASSUMPTIONS = [
    'A-posix: open(f, "w") / gzip.open(f, "wb") truncate f at once; write() may stop after any prefix when the process dies; os.replace(a, b) is atomic; a completed close() is durable',
    'json.dump / json.dumps produce a complete serialisation only when they return normally',
    'DirectSimulation.run(1) adds exactly one trial (C11._run.lengths)',
    'byte-level torn states are reasoned about only through this model (NA otherwise)',
]
TRUSTED_BASE = ['pyvc executor', 'z3 5.1.0', 'the POSIX effect model above']
UT = 'panqec/utils.py'
BS = 'panqec/simulation/_base_simulation.py'
BA = 'panqec/simulation/_batch_simulation.py'

WRITE_OPENERS = {'open', 'gzip.open', 'io.open', 'os.open', 'bz2.open'}


def _mode(call):
    m = None
    if len(call.args) > 1:
        m = call.args[1]
    for k in call.keywords:
        if k.arg == 'mode':
            m = k.value
    if m is None:
        return 'r'
    return m.value if isinstance(m, ast.Constant) else '?'


def ob_atomic(timeout=10):
    m = Module.load(UT)
    f = m.funcs['save_json']
    target = f.node.args.args[1].arg          # the `file` parameter
    problems, effects = [], []
    tmp_names = set()
    # names assigned from expressions that mention the target (candidate temporary paths in the same directory)
    for n in ast.walk(f.node):
        if isinstance(n, ast.Assign) and len(n.targets) == 1 and isinstance(n.targets[0], ast.Name):
            names = {x.id for x in ast.walk(n.value) if isinstance(x, ast.Name)}
            if target in names or names & tmp_names:
                if n.targets[0].id != target:
                    tmp_names.add(n.targets[0].id)
    replaced = []
    order = []
    for n in ast.walk(f.node):
        if isinstance(n, ast.Call):
            fn = ast.unparse(n.func)
            if fn in WRITE_OPENERS and n.args:
                mode = _mode(n)
                path = ast.unparse(n.args[0])
                if any(ch in mode for ch in 'wax+?'):
                    effects.append((n.lineno, '%s(%s, %r)' % (fn, path, mode)))
                    if path == target:
                        problems.append('line %d: %s(%s, %r) truncates the results file in place: a crash before the write completes leaves neither the old nor the new content'
                                        % (n.lineno, fn, path, mode))
                    elif path not in tmp_names:
                        problems.append('line %d: writes to %s, which is not derived from the target path' % (n.lineno, path))
            if fn in ('os.replace', 'os.rename') and len(n.args) == 2:
                replaced.append((n.lineno, ast.unparse(n.args[0]), ast.unparse(n.args[1])))
                effects.append((n.lineno, '%s(%s, %s)' % (fn, ast.unparse(n.args[0]), ast.unparse(n.args[1]))))
            if fn in ('shutil.move', 'shutil.copy', 'shutil.copyfile', 'os.remove', 'os.unlink', 'os.truncate') and any(ast.unparse(a) == target for a in n.args):
                problems.append('line %d: non-atomic effect %s on the results file' % (n.lineno, fn))
    writes = [e for e in effects if not e[1].startswith(('os.replace', 'os.rename'))]
    if not problems:
        if not writes:
            problems.append('no write effect found in save_json (vacuous)')
        for ln, src, dst in replaced:
            if dst != target or src not in tmp_names:
                problems.append('line %d: replace(%s, %s) does not move a temporary file onto the target' % (ln, src, dst))
        if not replaced:
            problems.append('temporary file is never moved onto the target')
        # the replace must come after the with-block that writes the temporary file (closed => complete)
        for ln, src, dst in replaced:
            for n in ast.walk(f.node):
                if isinstance(n, ast.With) and any(isinstance(i.context_expr, ast.Call) and ast.unparse(i.context_expr.func) in WRITE_OPENERS for i in n.items):
                    end = max(getattr(x, 'end_lineno', n.lineno) for x in ast.walk(n))
                    if n.lineno <= ln <= end:
                        problems.append('line %d: replace happens while the temporary file is still open' % ln)
    return dict(verdict='refuted' if problems else 'discharged', model=dict(effects=effects, problems=problems) if problems else None, backend='pyvc-effects (POSIX model)', seconds=0,
                kind='state', detail='; '.join(problems) or 'effects on the target: only %s after the temporary file is closed' % [e[1] for e in effects if e[1].startswith('os.re')],
                functions=[dict(function=f.ref, sha256_16=f.sha)], transparent=[], vacuity='%d file-system effects found' % len(effects))


def ob_adopt(timeout=30):
    m = Module.load(BS); c = m.classes['BaseSimulation']
    f1, f2, f3 = c.methods['_find_current_simulation'], c.methods['load_results'], c.methods['load_results_from_dict']
    problems, unrec = [], []
    # _find_current_simulation: symbolic execution over a two-record list.  Inputs are records {code, error_model, decoder, method, error_rate}:
    # the first four opaque values with symbolic equality, the error rate a real number; np.isclose is NOT equality (modelled as `equal or CLOSE`)
    KEYS = ('code', 'error_model', 'decoder', 'method')
    eqs = {}

    def mk_inputs(tag):
        kv = {k: Opaque('%s.%s' % (tag, k)) for k in KEYS}
        kv['error_rate'] = z3.Real('rate_%s' % tag)
        return D(kv)
    inputs = mk_inputs('self')
    recs = [D({'inputs': mk_inputs('rec%d' % k), 'results': Opaque('res%d' % k)}) for k in range(2)]

    def opaque_eq(a, b):
        key = tuple(sorted((a.tag, b.tag)))
        return eqs.setdefault(key, z3.Bool('eq_%s_%s' % key))

    def dict_eq(a, b):
        if set(a.kv) != set(b.kv):
            return z3.BoolVal(False)
        cs = []
        for k in a.kv:
            va, vb = a.kv[k], b.kv[k]
            if isinstance(va, Opaque) and isinstance(vb, Opaque):
                cs.append(z3.BoolVal(True) if va is vb else opaque_eq(va, vb))
            elif isinstance(va, D) and isinstance(vb, D):
                cs.append(dict_eq(va, vb))
            elif isinstance(va, (Opaque, D)) or isinstance(vb, (Opaque, D)):
                cs.append(z3.BoolVal(False))
            else:
                cs.append(eq(va, vb))
        return z3.And(cs + [z3.BoolVal(True)])

    class EqX(X):
        def cmp(self, op, a, b, st):
            if isinstance(op, (ast.Eq, ast.NotEq)) and isinstance(a, Opaque) and isinstance(b, Opaque):
                v = opaque_eq(a, b)
                return v if isinstance(op, ast.Eq) else z3.Not(v)
            if isinstance(op, (ast.Eq, ast.NotEq)) and isinstance(a, D) and isinstance(b, D):
                r = dict_eq(a, b)
                return r if isinstance(op, ast.Eq) else z3.Not(r)
            return X.cmp(self, op, a, b, st)
    x = EqX(m, {})
    selfo = Obj(c, {'_inputs': inputs}, 'sim')
    st, ret = x.run(f1, [T(recs, 'list')], {}, selfo)
    e0 = dict_eq(recs[0].kv['inputs'], inputs); e1 = dict_eq(recs[1].kv['inputs'], inputs)
    # expected: first record with equal inputs, else {}
    if not problems:
        from pyvc.values import Alt
        alts = ret.alts if isinstance(ret, Alt) else [(z3.BoolVal(True), ret)]
        got0 = z3.Or([c_ for c_, v in alts if v is recs[0]] + [z3.BoolVal(False)])
        got1 = z3.Or([c_ for c_, v in alts if v is recs[1]] + [z3.BoolVal(False)])
        gote = z3.Or([c_ for c_, v in alts if isinstance(v, D) and not v.kv] + [z3.BoolVal(False)])
        other = z3.Or([c_ for c_, v in alts if v is not recs[0] and v is not recs[1] and not (isinstance(v, D) and not v.kv)] + [z3.BoolVal(False)])
        goal = [z3.Or(got0 != e0, got1 != z3.And(z3.Not(e0), e1), gote != z3.And(z3.Not(e0), z3.Not(e1)), other)]
        r = check(goal, timeout)
        if r['verdict'] == 'sat':
            problems.append('_find_current_simulation does not return exactly the first record whose inputs EQUAL self._inputs (else {}): %s' % str(r.get('model'))[:300])
        elif r['verdict'] != 'unsat':
            raise Unsupported('adoption query undecided: %s' % r['verdict'])
    # load_results_from_dict: only keys of self._results that are in data['results']
    src3 = ast.unparse(f3.node)
    if 'for key in self._results.keys()' not in src3 or "if key in data['results'].keys()" not in src3 or "self._results[key] = data['results'][key]" not in src3:
        unrec.append('load_results_from_dict does not literally copy the keys the simulation already has')
    for n in ast.walk(f3.node):
        if isinstance(n, ast.Subscript) and isinstance(n.ctx, ast.Store) and ast.unparse(n.value) not in ('self._results',):
            problems.append('load_results_from_dict writes %s' % ast.unparse(n))
    src2 = ast.unparse(f2.node)
    if 'data_simulation = self._find_current_simulation(data)' not in src2 or 'self.load_results_from_dict(data_simulation)' not in src2 or "if data_simulation != {}" not in src2:
        unrec.append('load_results does not literally adopt the record found by _find_current_simulation')
    if unrec and not problems:
        raise Unsupported('source shape not recognised: %s' % unrec)
    return dict(verdict='refuted' if problems else 'discharged', model=dict(problems=problems) if problems else None, backend='z3-' + z3.get_version_string(), seconds=0, kind='state',
                detail='; '.join(problems) or 'adoption only from the record with equal inputs, only existing keys',
                functions=[dict(function=g.ref, sha256_16=g.sha) for g in (f1, f2, f3)], transparent=sorted(x.transparent))


def ob_count(which, timeout=30):
    """generic iteration of the trial loop of BatchSimulation._run for one generic simulation"""
    m = Module.load(BA); c = m.classes['BatchSimulation']
    f = c.methods['_run']
    loops = [n for n in f.node.body if isinstance(n, ast.For)]
    if len(loops) != 1:
        raise Unsupported('_run is not a single trial loop')
    loop = loops[0]
    # loop shape (names free): for t in progress(list(range(<m>, n_trials))) with <m> = min over the simulations of n_results, possibly through temporaries;
    # load_results() called before the loop
    it = loop.iter
    rng = None
    for n_ in ast.walk(it):
        if isinstance(n_, ast.Call) and isinstance(n_.func, ast.Name) and n_.func.id == 'range' and len(n_.args) == 2:
            rng = n_
    if rng is None or not (isinstance(rng.args[0], ast.Name) and ast.unparse(rng.args[1]) == 'n_trials'):
        raise Unsupported('trial loop iterates %s' % ast.unparse(loop.iter))
    others = [n_.func.id for n_ in ast.walk(it) if isinstance(n_, ast.Call) and isinstance(n_.func, ast.Name) and n_.func.id not in ('range', 'list', 'progress')]
    if others:
        raise Unsupported('trial loop iterates %s' % ast.unparse(loop.iter))

    def defining(name, depth=0):
        for st_ in f.node.body:
            if isinstance(st_, ast.Assign) and any(isinstance(t_, ast.Name) and t_.id == name for t_ in st_.targets):
                return st_.value
        return None
    start = defining(rng.args[0].id)
    txt = ast.unparse(start) if start is not None else ''
    if start is not None and isinstance(start, ast.Call) and ast.unparse(start.func) == 'min' and len(start.args) == 1 and isinstance(start.args[0], ast.Name):
        inner = defining(start.args[0].id)
        txt = 'min(%s)' % (ast.unparse(inner) if inner is not None else '?')
    if not (txt.startswith('min(') and '.n_results for ' in txt and txt.rstrip(')').rstrip(']').endswith('in self._simulations')):
        raise Unsupported('_run prologue changed: the first trial index is %s' % (txt or 'not assigned'))
    if not any(isinstance(n_, ast.Call) and ast.unparse(n_.func) == 'self.load_results' for st_ in f.node.body[:f.node.body.index(loop)] for n_ in ast.walk(st_)):
        raise Unsupported('_run prologue changed: load_results() is not called before the trial loop')
    Nn, n, t = z3.Ints('N n t')
    ran, saves, updates = [], [], []

    class Sim:
        pass
    sim = Obj(None, {'n_results': n}, 'simulation')

    class Sims:
        def acc_loop(s_, x, st, s, env):
            env[s.target.id] = sim
            x.loop_body(s.body, env, st)
    selfo = Obj(c, {'_simulations': Sims(), 'update_frequency': z3.Int('uf'), 'save_frequency': z3.Int('sf')}, 'batch')
    intr = {'simulation.run': lambda x, st, a, k: (ran.append((st.live, a)) or NONE),
            'self.save_results': lambda x, st, a, k: (saves.append(st.live) or NONE),
            'self.on_update': lambda x, st, a, k: (updates.append(st.live) or NONE),
            'self._log_progress': lambda x, st, a, k: NONE}
    x = X(m, intr)
    env = {'self': selfo, 'n_trials': Nn, loop.target.id: t}
    st = St(z3.And(z3.Int('uf') >= 1, z3.Int('sf') >= 1))
    x._cur_class = c
    x.pos_div = True
    x.loop_body(loop.body, env, st)
    if len(ran) != 1 or not (len(ran[0][1]) == 1 and conc(ran[0][1][0]) == 1):
        return dict(verdict='refuted', model=None, backend='pyvc-symex', seconds=0, kind='state', detail='each simulation is not advanced by exactly run(1) at one site',
                    functions=[dict(function=f.ref, sha256_16=f.sha)], transparent=[])
    n2 = z3.If(ran[0][0], n + 1, n)
    n0, mm = z3.Ints('n0 m')

    def inv(nv, tv):      # state after the iterations for trial indices m .. tv-1
        return nv == z3.If(n0 >= Nn, n0, z3.If(n0 + (tv - mm) < Nn, n0 + (tv - mm), Nn))
    base = [mm >= 0, n0 >= mm, Nn >= 0, z3.Int('uf') >= 1, z3.Int('sf') >= 1]
    if which == 'step':
        goal = base + [t >= mm, t < Nn, inv(n, t), z3.Not(inv(n2, t + 1))]
    elif which == 'init':
        goal = base + [z3.Not(inv(n0, mm))]
    elif which == 'final':
        # loop ran for t = m .. N-1 (or not at all when m >= N): on exit every simulation has exactly max(N, n0)
        tend = z3.If(mm < Nn, Nn, mm)
        goal = base + [inv(n, tend), n != z3.If(n0 >= Nn, n0, Nn)]
    elif which == 'lastsave':
        goal = [z3.Int('uf') >= 1, z3.Int('sf') >= 1, t == Nn - 1, t >= 0, z3.Not(z3.Or(saves + [z3.BoolVal(False)]))]
    r = check(goal, timeout)
    return result('count.' + which, r, [f], x, goal, kind='state')


def ob_adopt_batch(timeout=10):
    """frame condition of BatchSimulation.load_results: what a run() adopts is read from the output file DURING that call - the method assigns no attribute of
    the batch object (no file content is carried from one run() call to the next on the same object) and hands the file name to every simulation's own load_results"""
    m = Module.load(BA); c = m.classes["BatchSimulation"]
    f = c.methods['load_results']
    problems, unrec, stored = [], [], set()
    for n in ast.walk(f.node):
        tg = []
        if isinstance(n, ast.Assign):
            tg = n.targets
        elif isinstance(n, (ast.AugAssign, ast.AnnAssign)):
            tg = [n.target]
        for t0 in tg:
            for t in ast.walk(t0):
                if isinstance(t, ast.Attribute) and isinstance(t.value, ast.Name) and t.value.id == 'self':
                    stored.add(t.attr)
                    problems.append('load_results stores self.%s (line %d): state derived from the file survives into the next run() call on the same object' % (t.attr, t.lineno))
    body = [s_ for s_ in f.node.body if not (isinstance(s_, ast.Expr) and isinstance(s_.value, ast.Constant))]
    src = [ast.unparse(s_) for s_ in body]
    if src != ['for simulation in self._simulations:\n    simulation.load_results(self._output_file)']:
        unrec.append('load_results is not literally one loop handing self._output_file to each simulation: %s' % src)
    r_ = c.methods['_run']
    first = [s_ for s_ in r_.node.body if not (isinstance(s_, ast.Expr) and isinstance(s_.value, ast.Constant))][0]
    if ast.unparse(first) != 'self.load_results()':
        unrec.append('_run does not start with self.load_results()')
    if unrec and not problems:
        raise Unsupported('source shape not recognised: %s' % unrec)
    witness = None
    if problems:
        # a stored attribute is a defect only if what it holds can go stale: decided on the real code by the run()-again histories (a store that
        # is never the source of adopted data, or a cache that is validated, passes them and the clause is then undecided, not refuted)
        from bounded import crash as CR_
        for plan, ints in (('ABB', (5, 12)), ('AAA', (3, 12)), ('ABBB', (3, 8, 13))):
            d = tempfile.mkdtemp(prefix='c12_')
            try:
                why = CR_.scenario_history(d, False, plan, ints)
            finally:
                shutil.rmtree(d, ignore_errors=True)
            if why:
                witness = dict(compress=False, history=plan, interrupts=list(ints)); problems.append(why); break
        if witness is None:
            raise Unsupported('load_results stores %s on the batch object; the run()-again histories still pass, frame clause undecided' % sorted(stored))
    return dict(verdict='refuted' if problems else 'discharged', model=dict(problems=problems, input=witness) if problems else None, backend='pyvc-structural', seconds=0, kind='state',
                detail='; '.join(problems) or 'every _run starts by re-reading the output file; load_results assigns nothing on the batch object',
                functions=[dict(function=g.ref, sha256_16=g.sha) for g in (f, r_)], transparent=[])


def obligations(tier):
    obs = [Ob('C12.atomic[save_json]', ob_atomic, {}, timeout=30, kind='state', backend='pyvc-effects'),
           Ob('C12.adopt[load_results]', ob_adopt, {}, timeout=60, kind='state'),
           Ob('C12.adopt[BatchSimulation.load_results]', ob_adopt_batch, {}, timeout=30, kind='state', backend='pyvc-structural')]
    for w in ('init', 'step', 'final', 'lastsave'):
        obs.append(Ob('C12.count[_run].' + w, ob_count, dict(which=w), timeout=60, kind='state'))
    return obs


# ------------------------------------------------------------------------------------------------ native layer
from bounded import crash as CR    # noqa


def replay(r):
    d = tempfile.mkdtemp(prefix='c12_')
    try:
        for compress in (False, True):
            for k in range(1, 40):
                why, crashed = CR.scenario(d, compress, k)
                if why:
                    return dict(confirmed=True, input=dict(compress=compress, crash_at_effect=k, trials_first=4, trials_restart=6), detail=why)
                if not crashed:
                    break
        return dict(confirmed=None, detail='kill-at-every-effect replay found no failing crash point')
    finally:
        shutil.rmtree(d, ignore_errors=True)


def replay_file(data):
    inp = data.get('input') or {}
    d = tempfile.mkdtemp(prefix='c12_')
    if inp.get('history'):
        try:
            why = CR.scenario_history(d, inp.get('compress', False), inp['history'], inp.get('interrupts', []))
            return dict(confirmed=bool(why), detail=why or 'holds', input=inp)
        finally:
            shutil.rmtree(d, ignore_errors=True)
    try:
        why, crashed = CR.scenario(d, inp.get('compress', False), inp.get('crash_at_effect', 1), extra_rate=inp.get('extra_rate'), interrupt_at=inp.get('interrupt_at'))
        return dict(confirmed=bool(why), detail=why or 'holds', input=inp)
    finally:
        shutil.rmtree(d, ignore_errors=True)


def _job(a):
    compress, k, extra, at = a
    d = tempfile.mkdtemp(prefix='c12_')
    if k == 'history':                       # (compress, 'history', plan, interrupts): several run() calls in one process
        try:
            return a, CR.scenario_history(d, compress, extra, at), False
        finally:
            shutil.rmtree(d, ignore_errors=True)
    try:
        why, crashed = CR.scenario(d, compress, k, extra_rate=extra, interrupt_at=at)
        return a, why, crashed
    finally:
        shutil.rmtree(d, ignore_errors=True)


def bounded(tier, seed):
    import multiprocessing as mp
    ev, nt, viol, samples = 0, set(), [], []
    jobs = []
    for compress in (False, True):
        d = tempfile.mkdtemp(prefix='c12_')
        try:
            p = CR.run_child(os.path.join(d, 'out.json' + ('.gz' if compress else '')), 0, 4)
            n_eff = json.loads(p.stdout.strip().splitlines()[-1])['effects'] if p.returncode == 0 else 0
        finally:
            shutil.rmtree(d, ignore_errors=True)
        if n_eff == 0:
            viol.append(dict(obligation='C12.bounded.crash', input=dict(compress=compress), detail='uninterrupted run failed or performed no file-system effect: %s' % p.stderr[-200:]))
        for k in range(1, n_eff + 1):
            jobs.append((compress, k, 0.3 if k % 4 == 0 else None, None))
        for at in ((2, 5) if tier == 'quick' else (1, 2, 3, 5, 7, 8)):
            jobs.append((compress, 0, None, at))
        # restart with an appended simulation whose error rate is ALMOST one already in the file (results of a different rate must not be adopted)
        for near in ((0.1000001, 0.2 * (1 + 1e-9)) if tier == 'quick' else (0.1000001, 0.2 * (1 + 1e-9), 0.1 + 1e-12, 0.09999999)):
            jobs.append((compress, 0, near, None))
            jobs.append((compress, 3, near, None))
        # run() called again on the SAME object after a KeyboardInterrupt (same letter = same object), with and without an earlier session's file
        for plan, ints in ((('AAA', (3, 12)), ('ABB', (5, 12)), ('ABBB', (3, 8, 13))) if tier == 'quick' else
                           (('AAA', (3, 12)), ('AAA', (2, 5)), ('ABB', (5, 12)), ('ABB', (4, 9)), ('ABBB', (3, 8, 13)), ('AABB', (3, 8, 13)), ('ABAB', (3, 8, 13)))):
            jobs.append((compress, 'history', plan, ints))
    with mp.get_context('fork').Pool(12) as pool:
        for (compress, k, extra, at), why, crashed in pool.imap_unordered(_job, jobs):
            ev += 1
            if k == 'history':
                nt.add((compress, extra, at))
                if why:
                    viol.append(dict(obligation='C12.bounded.history', input=dict(compress=compress, history=extra, interrupts=list(at)), detail=why))
                continue
            if crashed or at is not None:
                nt.add((compress, k, at))
            if len(samples) < 4 and crashed:
                samples.append(dict(compress=compress, crash_at_effect=k, extra_simulation_on_restart=extra is not None, ok=why is None))
            if why:
                viol.append(dict(obligation='C12.bounded.interrupt' if at is not None else 'C12.bounded.crash',
                                 input=dict(compress=compress, crash_at_effect=k, extra_rate=extra, interrupt_at=at), detail=why))
    out, seen = [], set()
    for v in sorted(viol, key=lambda v: (v['input'].get('compress', False), v['input'].get('crash_at_effect', 0), len(v['input'].get('history', '')))):
        if v['obligation'] not in seen:
            seen.add(v['obligation']); out.append(v)
    return dict(bound='2 simulations, 4 trials then restart to 6 (every 4th case with a third simulation appended; also appended simulations whose error rate differs from a stored one by 1e-6..1e-12 relative); os._exit at EVERY effect point of every save_json call of the run '
                      '(after open, mid-write, after close, before/after replace), plain and gzip; KeyboardInterrupt at trial boundaries; histories of several run() calls in one process '
                      '(run() again on the same object after KeyboardInterrupt, fresh object on an existing file then re-run), 8 trials',
                evaluations=ev, distinct_nontrivial=len(nt), exhaustive=True,
                rule='real BatchSimulation in a subprocess; trials tagged (pid, serial) so that prefix preservation is exact; non-trivial iff the first run actually died',
                samples=samples, violations=out)
