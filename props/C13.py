"""C13 - input specifications expand to exactly the requested simulations.

Deductive:
  registry[CODES|DECODERS|ERROR_MODELS]   every key of the dict literal equals the __name__ of the class bound to it (import aliases resolved on the AST)
  params.code                              StabilizerCode.__init__ / params: cls(**obj.params) stores the same (L_x, L_y, L_z) (symbolic execution, both dimensions, defaults)
  params.noise                             PauliErrorModel.__init__ / params round trip
  params.decoder[D]                        every key of D.params is a constructor parameter whose value is stored unmodified in the field params reads back
  range.cases                              _parse_parameters_range case table
  product.expand / product.simulations     one generic element of the itertools.product loop: the run / simulation built carries exactly its four components
                                           (enumeration "each element of the Cartesian product exactly once" is the assumed contract of itertools.product)
Bounded: generated specifications with 1..5 values per axis through the real get_simulations; results-file round trip for every registered name.
"""
import ast, itertools, random, time, io, contextlib
import numpy as np
import z3
from contracts.common import *
from contracts.decoders import DECODERS, cls as dcls
from contracts.lattices import CLASSES
from pyvc.values import Alt
from pyvc.runner import Ob

PROPERTY = 'C13'
LEVEL = 'proof'
EXPLANATION = 'registry and params round trips decided on the AST / by symbolic execution; the product loops by one generic iteration; bounded cross-check through real objects'
ASSUMPTIONS = [
    'A-ext: itertools.product enumerates every element of the Cartesian product exactly once, in order; zip pairs position-wise',
    'class __name__ is the identifier in the class statement (no metaclass renaming)',
    'decoders: constructor arguments code / error_model / error_rate are re-supplied by _parse_decoder_dict (checked in product.simulations)',
]
TRUSTED_BASE = ['pyvc executor', 'z3 5.1.0']
CFG = 'panqec/config.py'
BA = 'panqec/simulation/_batch_simulation.py'


def ob_registry(which):
    m = Module.load(CFG)
    node = m.globals.get(which)
    if not isinstance(node, ast.Dict):
        raise Unsupported('%s is not a dict literal' % which)
    problems = []
    for k, v in zip(node.keys, node.values):
        key = k.value if isinstance(k, ast.Constant) else None
        if not isinstance(v, ast.Name):
            problems.append('%r is bound to a non-name expression' % key); continue
        if v.id not in m.imports:
            problems.append('%r is bound to %s, which is not imported in config.py' % (key, v.id)); continue
        real = m.imports[v.id][1] or v.id           # original name behind an `as` alias
        if real != key:
            problems.append('%s[%r] is the class %s' % (which, key, real))
    # every library class of that kind is registered
    if which == 'CODES':
        missing = sorted(set(CLASSES) - {k.value for k in node.keys})
        if missing:
            problems.append('library code classes not registered: %s' % missing)
    if which == 'DECODERS':
        public = set(DECODERS) - {'SweepDecoder3D', 'RotatedSweepDecoder3D'}
        missing = sorted(public - {k.value for k in node.keys})
        if missing:
            problems.append('decoder classes not registered: %s' % missing)
    return dict(verdict='refuted' if problems else 'discharged', model=dict(table=which, problems=problems) if problems else None, backend='pyvc-structural', seconds=0, kind='plain',
                detail='; '.join(problems) or '%d names, each bound to the class of that name' % len(node.keys),
                functions=[dict(function='panqec/config.py::%s' % which, sha256_16=m.sha)], transparent=[], table=which)


def ob_params_code(dim, timeout=30):
    m = Module.load('panqec/codes/base/_stabilizer_code.py'); c = m.classes['StabilizerCode']
    lx, ly, lz = z3.Ints('a b c')
    from pyvc.values import NoneV

    def run_init(args):
        selfo = Obj(c, {'dimension': dim, 'n': z3.Int('n_unused')}, 'code')
        x = X(m, {'bsparse.empty_row': lambda x_, st, a, k: Opaque('empty')})
        st, _ = x.run(c.methods['__init__'], list(args), {}, selfo)
        st2, p = x.run(c.methods['params'], [], {}, selfo)
        return selfo, p, x
    goals, x = [], None
    for given in ([lx], [lx, ly], [lx, ly, lz]) if dim == 3 else ([lx], [lx, ly]):
        s1, p1, x = run_init(given)
        if not isinstance(p1, D) or set(p1.kv) != {'L_x', 'L_y', 'L_z'}:
            raise Unsupported('params is not a dict over L_x, L_y, L_z')
        # re-instantiate from params (keyword form, as _parse_code_dict does)
        s2 = Obj(c, {'dimension': dim, 'n': z3.Int('n_unused')}, 'code')
        x2 = X(m, {'bsparse.empty_row': lambda x_, st, a, k: Opaque('empty')})
        x2.run(c.methods['__init__'], [], dict(p1.kv), s2)
        for fld in ('L_x', 'L_y', 'L_z', '_size'):
            a_, b_ = s1.fields[fld], s2.fields[fld]
            goals.append(z3.Not(eq(a_, b_)) if not (isinstance(a_, NoneV) and isinstance(b_, NoneV)) else z3.BoolVal(False))
        want = given + [given[0]] * (dim - len(given))
        goals.append(z3.Not(eq(s1.fields['_size'], T(want[:dim]))))
    goal = [z3.Or(goals)]
    return result('params.code', check(goal, timeout), [c.methods['__init__'], c.methods['params']], x, goal,
                  detail='cls(**obj.params) stores the same L_x, L_y, L_z and size for every way of giving the sizes (dimension %d)' % dim)


def ob_params_noise(timeout=30):
    m = Module.load('panqec/error_models/_pauli_error_model.py'); c = m.classes['PauliErrorModel']
    rx, ry, rz = z3.Reals('rx ry rz')
    goals = []
    x = None
    for name, kw in ((NONE, NONE), (E.const('XZZX'), D({'deformation_axis': E.const('z')}))):
        s1 = Obj(c, {}, 'em')
        x = X(m, {})
        st, _ = x.run(c.methods['__init__'], [rx, ry, rz], {'deformation_name': name, 'deformation_kwargs': kw}, s1, St(rx + ry + rz == 1))
        _, p1 = x.run(c.methods['params'], [], {}, s1)
        if not isinstance(p1, D) or set(p1.kv) != {'r_x', 'r_y', 'r_z', 'deformation_name', 'deformation_kwargs'}:
            raise Unsupported('PauliErrorModel.params keys')
        s2 = Obj(c, {}, 'em')
        X(m, {}).run(c.methods['__init__'], [], dict(p1.kv), s2, St(rx + ry + rz == 1))
        goals.append(z3.Not(eq(s1.fields['_direction'], s2.fields['_direction'])))
        goals.append(z3.Not(eq(s1.fields['_direction'], T([rx, ry, rz]))))
        for fld in ('_deformation_name', '_deformation_kwargs'):
            a_, b_ = s1.fields[fld], s2.fields[fld]
            same = (a_ is b_) or (type(a_) is type(b_) and not isinstance(a_, (D, E))) or (isinstance(a_, E) and isinstance(b_, E) and a_.alts[0][1] == b_.alts[0][1]) \
                or (isinstance(a_, D) and isinstance(b_, D) and list(a_.kv) == list(b_.kv))
            goals.append(z3.BoolVal(not same))
    goal = [rx + ry + rz == 1, z3.Or(goals)]
    return result('params.noise', check(goal, timeout), [c.methods['__init__'], c.methods['params']], x, goal)


def ob_params_decoder(name):
    c = dcls(name)
    init, par = c.lookup('__init__'), c.lookup('params')
    problems = []
    ret = [n for n in ast.walk(par.node) if isinstance(n, ast.Return)]
    if len(ret) != 1 or not isinstance(ret[0].value, ast.Dict):
        raise Unsupported('params does not return a dict literal')
    unrec = []
    init_params = [a.arg for a in init.node.args.args[1:]]
    stored = {}         # field -> parameter it is assigned from (direct, unmodified)
    for n in ast.walk(init.node):
        if isinstance(n, ast.Assign) and len(n.targets) == 1 and isinstance(n.targets[0], ast.Attribute) and ast.unparse(n.targets[0].value) == 'self':
            fld = n.targets[0].attr
            stored[fld] = n.value.id if isinstance(n.value, ast.Name) and n.value.id in init_params else '<expr>' if fld not in stored else stored[fld]
    for k, v in zip(ret[0].value.keys, ret[0].value.values):
        key = k.value
        if key not in init_params:
            problems.append('params key %r is not a constructor parameter' % key); continue
        if key in ('code', 'error_model', 'error_rate'):
            problems.append('params must not include %r' % key)
        if not (isinstance(v, ast.Attribute) and ast.unparse(v.value) == 'self'):
            problems.append('params[%r] is not read from a field' % key); continue
        if stored.get(v.attr) == '<expr>':
            unrec.append('params[%r]: self.%s is filled from an expression, not directly from a parameter' % (key, v.attr))
        elif stored.get(v.attr) != key:
            problems.append('params[%r] reads self.%s, which the constructor fills from %s' % (key, v.attr, stored.get(v.attr)))
    optional = [a for a in init_params if a not in ('code', 'error_model', 'error_rate')]
    missing = [a for a in optional if a not in [k.value for k in ret[0].value.keys]]
    if missing:
        problems.append('constructor parameters not recorded in params (cannot be reproduced from a results file): %s' % missing)
    if unrec and not problems:
        raise Unsupported('; '.join(unrec))
    return dict(verdict='refuted' if problems else 'discharged', model=dict(decoder=name, problems=problems) if problems else None, backend='pyvc-structural', seconds=0, kind='plain',
                detail='; '.join(problems) or 'params keys %s <-> constructor parameters' % [k.value for k in ret[0].value.keys],
                functions=[dict(function=f.ref, sha256_16=f.sha) for f in (init, par)], transparent=[], decoder=name)


def ob_range_cases(timeout=30):
    m = Module.load(BA); f = m.funcs['_parse_parameters_range']
    x = X(m, {})
    a, b = Opaque('p1'), Opaque('p2')
    cases = [(T([a, b], 'list'), lambda r: isinstance(r, T) and r.items == [a, b]),
             (D({'L_x': 3}), lambda r: isinstance(r, T) and len(r.items) == 1 and isinstance(r.items[0], D) and r.items[0].kv == {'L_x': 3}),
             (T([], 'list'), lambda r: isinstance(r, T) and len(r.items) == 1 and isinstance(r.items[0], D) and not r.items[0].kv),
             (D({}), lambda r: isinstance(r, T) and len(r.items) == 1 and isinstance(r.items[0], D) and not r.items[0].kv)]
    problems = []
    for arg, ok in cases:
        try:
            st, r = x.run(f, [arg], {})
            if isinstance(r, Alt):
                r = x._collapse(r)
            if not ok(r):
                problems.append('case %s gives %s' % (type(arg).__name__ + str(len(getattr(arg, 'items', getattr(arg, 'kv', [])))), r))
        except Unsupported as e:
            raise
    return dict(verdict='refuted' if problems else 'discharged', model=dict(problems=problems) if problems else None, backend='pyvc-symex', seconds=0, kind='plain',
                detail='; '.join(problems) or 'list -> itself; dict -> [dict]; empty -> [{}]', functions=[dict(function=f.ref, sha256_16=f.sha)], transparent=[])


def ob_product_expand(timeout=30):
    """one generic element (em, dec, rate, code) of the product loop in expand_input_ranges"""
    m = Module.load(BA); f = m.funcs['expand_input_ranges']
    cp, ep, dp = D({'name': E.const('C'), 'parameters': Opaque('code_params')}), D({'name': E.const('N'), 'parameters': Opaque('noise_params')}), D({'name': E.const('Dd'), 'parameters': Opaque('dec_params')})
    er = Opaque('rate')
    ranges = [T([ep], 'list'), T([dp], 'list'), T([er], 'list'), T([cp], 'list')]
    seen = {}

    def parse_all(x, st, a, k):
        seen['arg'] = a[0]
        return T([T([cp], 'list'), T([ep], 'list'), T([dp], 'list'), T([er], 'list')])
    data = D({'label': Opaque('label'), 'code': D({'name': E.const('C'), 'parameters': Opaque('ignored')}), 'error_model': D({'name': E.const('N'), 'parameters': Opaque('ignored')}),
              'decoder': D({'name': E.const('Dd'), 'parameters': Opaque('ignored')}), 'error_rate': Opaque('ignored')})
    x = X(m, {'_parse_all_ranges': parse_all})
    st, ret = x.run(f, [data], {})
    problems = []
    if not isinstance(ret, T) or len(ret.items) != 1 or not isinstance(ret.items[0], D):
        problems.append('one element of the product does not give exactly one run')
    else:
        run = ret.items[0].kv
        def g(sec):
            v = run.get(sec)
            return v.kv.get('parameters') if isinstance(v, D) else None
        if g('code') is not cp.kv['parameters']:
            problems.append('run code parameters are not those of the code element')
        if g('error_model') is not ep.kv['parameters']:
            problems.append('run noise parameters are not those of the noise element')
        if g('decoder') is not dp.kv['parameters']:
            problems.append('run decoder parameters are not those of the decoder element')
        if run.get('error_rate') is not er:
            problems.append('run error rate is not the rate element')
        for sec, nm in (('code', 'C'), ('error_model', 'N'), ('decoder', 'Dd')):
            v = run.get(sec)
            if not (isinstance(v, D) and isinstance(v.kv.get('name'), E) and v.kv['name'].alts[0][1] == nm):
                problems.append('run %s name lost' % sec)
        if run.get('label') is not data.kv['label']:
            problems.append('other keys of the specification are not carried over')
    # the loop iterates itertools.product over the four ranges returned by _parse_all_ranges (any order, all four, once each)
    src = ast.unparse(f.node)
    if 'itertools.product(error_model_range, decoder_range, error_rate_range, code_range)' not in src and not problems:
        raise Unsupported('source shape of expand_input_ranges not recognised (product over the four ranges)')
    return dict(verdict='refuted' if problems else 'discharged', model=dict(problems=problems) if problems else None, backend='pyvc-symex', seconds=0, kind='plain',
                detail='; '.join(problems) or 'each element of product(noise, decoder, rate, code) yields one run carrying exactly those four components',
                functions=[dict(function=f.ref, sha256_16=f.sha)], transparent=sorted(x.transparent))


def ob_product_simulations(timeout=30):
    """get_simulations (ranges / direct): one generic element of product(codes, error_models, decoder_range, error_rates)"""
    m = Module.load(BA); f = m.funcs['get_simulations']
    code, em, dd, er = Opaque('code_obj'), Opaque('em_obj'), D({'name': E.const('Dd'), 'parameters': Opaque('dp')}), z3.Real('rate')
    made, parsed = [], []
    intr = {
        '_parse_all_ranges': lambda x, st, a, k: T([T([Opaque('cd')], 'list'), T([Opaque('nd')], 'list'), T([dd], 'list'), T([er], 'list')]),
        '_parse_code_dict': lambda x, st, a, k: code,
        '_parse_error_model_dict': lambda x, st, a, k: em,
        '_parse_decoder_dict': lambda x, st, a, k: (parsed.append(a) or Opaque('decoder_obj')),
        'DirectSimulation': lambda x, st, a, k: (made.append((a, k)) or Opaque('sim')),
        'print': lambda x, st, a, k: NONE,
    }
    x = X(m, intr)
    data = D({'ranges': D({'label': Opaque('l')})})
    st, ret = x.run(f, [data], {'verbose': False})
    problems = []
    if len(made) != 1 or len(parsed) != 1:
        problems.append('one element of the product does not give exactly one DirectSimulation')
    else:
        a, k = made[0]
        if a[0] is not code or a[1] is not em or not (isinstance(a[2], Opaque) and a[2].tag == 'decoder_obj') or not (isinstance(a[3], z3.ExprRef) and a[3].eq(er)):
            problems.append('DirectSimulation is not built from (code, error_model, decoder, error_rate) of the element')
        p = parsed[0]
        if p[0] is not dd or p[1] is not code or p[2] is not em or not (isinstance(p[3], z3.ExprRef) and p[3].eq(er)):
            problems.append('the decoder is not built for (this code, this error model, this error rate)')
    src = ast.unparse(f.node)
    if ('itertools.product(codes, error_models, decoder_range, error_rates)' not in src or "simulations += get_simulations(sub_data)" not in src) and not problems:
        raise Unsupported('source shape of get_simulations not recognised (product / concatenation of sub-ranges)')
    return dict(verdict='refuted' if problems else 'discharged', model=dict(problems=problems) if problems else None, backend='pyvc-symex', seconds=0, kind='plain',
                detail='; '.join(problems) or 'each element yields one DirectSimulation(code, noise, decoder built for exactly them, rate)',
                functions=[dict(function=f.ref, sha256_16=f.sha)], transparent=sorted(x.transparent))


def ob_parse(which, timeout=30):
    """_parse_code_dict / _parse_error_model_dict / _parse_decoder_dict return a NEW object of the registered class built from exactly the given parameters"""
    m = Module.load(BA)
    f = m.funcs[{'code': '_parse_code_dict', 'noise': '_parse_error_model_dict', 'decoder': '_parse_decoder_dict'}[which]]
    built = []

    class Registry:
        def acc_index(s_, x, st, key):
            return ('ctor', key)
    params = D({'p1': Opaque('v1'), 'p2': Opaque('v2')})
    name = E.const('SomeName')

    class CX(X):
        def apply(s_, fv, args, kwargs, st, node=None):
            if isinstance(fv, tuple) and fv and fv[0] == 'ctor':
                o = Opaque('instance#%d' % len(built)); built.append((fv[1], args, kwargs, o)); return o
            return X.apply(s_, fv, args, kwargs, st, node)
    reg = Registry()
    x = CX(m, {'name:CODES': lambda x_, st: reg, 'name:ERROR_MODELS': lambda x_, st: reg, 'name:DECODERS': lambda x_, st: reg})
    d = D({'name': name, 'parameters': params})
    if which == 'decoder':
        code, em, rate = Opaque('code'), Opaque('em'), z3.Real('rate')
        st, ret = x.run(f, [d, code, em, rate], {})
    else:
        st, ret = x.run(f, [d], {})
    problems = []
    if len(built) != 1:
        problems.append('expected exactly one constructor call, found %d' % len(built))
    else:
        key, a, k, o = built[0]
        if ret is not o:
            problems.append('the returned object is not the one just constructed (e.g. a cached / shared instance)')
        if not (isinstance(key, E) and key.is_const() and key.alts[0][1] == 'SomeName'):
            problems.append('the class is not looked up under the given name')
        want = dict(params.kv)
        if which == 'decoder':
            want.update(code=code, error_model=em, error_rate=rate)
        if a or set(k) != set(want) or any(k[q] is not want[q] and not (isinstance(k[q], z3.ExprRef) and isinstance(want[q], z3.ExprRef) and k[q].eq(want[q])) for q in want):
            problems.append('constructor is not called with exactly the given parameters: positional %s, keywords %s' % (len(a), sorted(k)))
    # no module-level state is read or written (instances must not be shared between simulations)
    for n in ast.walk(f.node):
        if isinstance(n, (ast.Global, ast.Nonlocal)):
            problems.append('uses global state')
        if isinstance(n, ast.Name) and n.id in m.globals and n.id not in ('CODES', 'ERROR_MODELS', 'DECODERS') and isinstance(m.globals[n.id], (ast.Dict, ast.List, ast.Call)):
            problems.append('reads/writes module-level container %s' % n.id)
    return dict(verdict='refuted' if problems else 'discharged', model=dict(problems=sorted(set(problems))) if problems else None, backend='pyvc-symex', seconds=0, kind='plain',
                detail='; '.join(sorted(set(problems))) or 'one fresh instance of the named class built from exactly the given parameters', functions=[dict(function=f.ref, sha256_16=f.sha)], transparent=[], parse=which)


def obligations(tier):
    obs = [Ob('C13.registry[%s]' % w, ob_registry, dict(which=w), timeout=30, backend='pyvc-structural') for w in ('CODES', 'DECODERS', 'ERROR_MODELS')]
    obs += [Ob('C13.params.code[dim=%d]' % d_, ob_params_code, dict(dim=d_), timeout=60) for d_ in (2, 3)]
    obs.append(Ob('C13.params.noise', ob_params_noise, {}, timeout=60))
    for name in DECODERS:
        obs.append(Ob('C13.params.decoder[%s]' % name, ob_params_decoder, dict(name=name), timeout=30, backend='pyvc-structural'))
    obs += [Ob('C13.parse[%s]' % w, ob_parse, dict(which=w), timeout=30) for w in ('code', 'noise', 'decoder')]
    obs += [Ob('C13.range.cases', ob_range_cases, {}, timeout=30), Ob('C13.product.expand', ob_product_expand, {}, timeout=30),
            Ob('C13.product.simulations', ob_product_simulations, {}, timeout=30)]
    return obs


# ------------------------------------------------------------------------------------------------ native layer
from bounded.util import supported, small_sizes    # noqa


def native_registry():
    import panqec.config as cfg
    for tab_name in ('CODES', 'DECODERS', 'ERROR_MODELS'):
        for k, v in getattr(cfg, tab_name).items():
            if v.__name__ != k:
                return '%s[%r] is the class %s' % (tab_name, k, v.__name__), dict(table=tab_name, name=k)
    return None, None


def native_roundtrip(rnd):
    """re-instantiating from recorded inputs reproduces the configuration"""
    import panqec.config as cfg
    from panqec.simulation._batch_simulation import _parse_code_dict, _parse_error_model_dict, _parse_decoder_dict
    from panqec.simulation import DirectSimulation
    from bounded import decoders as BD, codes as BC
    for name, cls in cfg.CODES.items():
        sizes = small_sizes(cls, name, 150, 3)
        if not sizes:
            continue
        size = rnd.choice(sizes)
        obj = cls(*size)
        again = _parse_code_dict({'name': obj.id, 'parameters': obj.params})
        if type(again) is not type(obj) or again.params != obj.params or again.size != obj.size or again.label != obj.label:
            return 'code %s%s re-instantiated from its recorded inputs is %s %s' % (name, size, type(again).__name__, again.params), dict(code=name, size=list(size))
    from panqec.error_models import PauliErrorModel
    for defo, kw in ((None, None), ('XZZX', {'deformation_axis': 'x'})):
        em = PauliErrorModel(0.2, 0.3, 0.5, deformation_name=defo, deformation_kwargs=kw)
        again = _parse_error_model_dict({'name': em.id, 'parameters': em.params})
        if again.params != em.params or again.label != em.label:
            return 'error model re-instantiated from params differs: %r vs %r' % (again.params, em.params), dict(model=em.params)
    for (d, cname, size, defo, kw) in BD.cases('quick'):
        if d not in cfg.DECODERS or d == 'MemoryBeliefPropagationDecoder':
            continue
        code = BC.make(cname, size)
        dec, em = BD.build(d, code)
        with contextlib.redirect_stdout(io.StringIO()):
            again = _parse_decoder_dict({'name': dec.id, 'parameters': dict(dec.params)}, code, em, 0.1)
        if type(again) is not type(dec) or again.params != dec.params:
            return 'decoder %s re-instantiated from params differs: %r vs %r' % (d, again.params, dec.params), dict(decoder=d)
    return None, None


def native_product(rnd):
    from panqec.simulation._batch_simulation import get_simulations, expand_input_ranges
    na, nb, nc, nd = [rnd.randint(1, 4) for _ in range(4)]
    sizes = rnd.sample([(2, 2), (2, 3), (3, 3), (3, 2), (4, 2)], na)
    dirs = rnd.sample([(1, 0, 0), (0, 0, 1), (0.5, 0, 0.5), (0.2, 0.3, 0.5)], nb)
    decs = [{'error_type': t} for t in rnd.sample([None, 'X', 'Z'], min(nc, 3))]
    rates = rnd.sample([0.01, 0.02, 0.05, 0.1, 0.2], nd)
    code_params = [{'L_x': a, 'L_y': b} for a, b in sizes]
    if rnd.random() < 0.3 and len(code_params) == 1:
        code_params = code_params[0]
    spec = {'ranges': {'label': 'x', 'code': {'name': 'Toric2DCode', 'parameters': code_params},
                       'error_model': {'name': 'PauliErrorModel', 'parameters': [{'r_x': a, 'r_y': b, 'r_z': c} for a, b, c in dirs]},
                       'decoder': {'name': 'MatchingDecoder', 'parameters': decs}, 'error_rate': rates}}
    with contextlib.redirect_stdout(io.StringIO()):
        sims = get_simulations(spec, verbose=False)
        runs = expand_input_ranges(spec['ranges'])
    want = sorted((tuple(s), tuple(d), dd['error_type'] or '', r) for s in sizes for d in dirs for dd in decs for r in rates)
    got = sorted(((s.code.params['L_x'], s.code.params['L_y']), tuple(s.error_model.direction), s.decoder.params['error_type'] or '', s.error_rate) for s in sims)
    if got != want:
        return 'get_simulations built %d simulations, the Cartesian product has %d; first difference %s' % (len(got), len(want), next((a, b) for a, b in zip(got + [None], want + [None]) if a != b)), spec
    got2 = sorted(((r['code']['parameters']['L_x'], r['code']['parameters']['L_y']), (r['error_model']['parameters']['r_x'], r['error_model']['parameters']['r_y'], r['error_model']['parameters']['r_z']),
                   r['decoder']['parameters']['error_type'] or '', r['error_rate']) for r in runs)
    if got2 != want:
        return 'expand_input_ranges gives %d runs, the Cartesian product has %d' % (len(got2), len(want)), spec
    # list of ranges = concatenation
    spec2 = {'ranges': [spec['ranges'], spec['ranges']]}
    with contextlib.redirect_stdout(io.StringIO()):
        sims2 = get_simulations(spec2, verbose=False)
    if len(sims2) != 2 * len(want):
        return 'a list of two ranges gives %d simulations, expected %d' % (len(sims2), 2 * len(want)), spec2
    return None, None


def native_exact_params(rnd):
    """each simulation is built with exactly the requested parameters - also when two requested noise models are nearly identical"""
    from panqec.simulation._batch_simulation import get_simulations
    cases = [[{'r_x': 1 / 3, 'r_y': 1 / 3, 'r_z': 1 / 3, 'deformation_name': 'XZZX', 'deformation_kwargs': {'deformation_axis': a}} for a in ('x', 'y')],
             [{'r_x': 0.00001 * j, 'r_y': 0.0, 'r_z': 1 - 0.00001 * j} for j in (1, 2, 3)],
             [{'r_x': 0.2, 'r_y': 0.3, 'r_z': 0.5}, {'r_x': 0.2, 'r_y': 0.3, 'r_z': 0.5, 'deformation_name': 'XY'}]]
    for nps in cases:
        for form in ('ranges', 'runs'):
            if form == 'ranges':
                spec = {'ranges': {'label': 'x', 'code': {'name': 'Toric2DCode', 'parameters': [{'L_x': 2, 'L_y': 2}, {'L_x': 3, 'L_y': 2}]},
                                   'error_model': {'name': 'PauliErrorModel', 'parameters': nps}, 'decoder': {'name': 'MatchingDecoder', 'parameters': {}}, 'error_rate': [0.1]}}
            else:
                spec = {'runs': [{'code': {'name': 'Toric2DCode', 'parameters': {'L_x': 2, 'L_y': 2}}, 'error_model': {'name': 'PauliErrorModel', 'parameters': dict(np_)},
                                  'decoder': {'name': 'MatchingDecoder', 'parameters': {}}, 'error_rate': 0.1} for np_ in nps]}
            with contextlib.redirect_stdout(io.StringIO()):
                sims = get_simulations(json_copy(spec), verbose=False)
            got = sorted((round(s_.error_model.params['r_x'], 9), str(s_.error_model.params['deformation_name']), str(sorted((s_.error_model.params['deformation_kwargs'] or {}).items()))) for s_ in sims)
            mult = 2 if form == 'ranges' else 1
            want = sorted((round(np_['r_x'], 9), str(np_.get('deformation_name')), str(sorted((np_.get('deformation_kwargs') or {}).items()))) for np_ in nps for _ in range(mult))
            if got != want:
                return 'requested noise models %s, simulations were built with %s (%s form)' % (want, got, form), spec
            if len({id(s_.error_model) for s_ in sims}) != len(sims) and form == 'runs':
                return 'two simulations share one error-model instance', spec
    return None, None


def json_copy(o):
    import json
    return json.loads(json.dumps(o))


def replay(r):
    nm = r['name']
    rnd = random.Random(0)
    if 'parse' in nm or 'product' in nm:
        why, inp = native_exact_params(rnd)
        if why:
            return dict(confirmed=True, input=inp, detail=why)
    if 'registry' in nm:
        why, inp = native_registry()
    elif 'params' in nm:
        why, inp = native_roundtrip(rnd)
    else:
        why, inp = None, None
        for _ in range(20):
            why, inp = native_product(rnd)
            if why:
                break
    return dict(confirmed=bool(why) if (why or 'registry' in nm or 'params' in nm) else None, input=inp, detail=why or 'contract holds natively')


def replay_file(data):
    return replay({'name': data.get('obligation', 'registry')})


def bounded(tier, seed):
    rnd = random.Random(seed)
    ev, nt, viol, samples = 0, set(), [], []
    why, inp = native_registry(); ev += 1
    if why:
        viol.append(dict(obligation='C13.bounded.registry', input=inp, detail=why))
    for k in range(3 if tier == 'quick' else 12):
        why, inp = native_roundtrip(rnd); ev += 1; nt.add(('rt', k))
        if why:
            viol.append(dict(obligation='C13.bounded.roundtrip', input=inp, detail=why)); break
    why, inp = native_exact_params(rnd); ev += 1; nt.add(('exact',))
    if why:
        viol.append(dict(obligation='C13.bounded.exact_params', input=inp, detail=why))
    for k in range(25 if tier == 'quick' else 200):
        why, inp = native_product(rnd); ev += 1; nt.add(('prod', k))
        if k < 2:
            samples.append(dict(kind='random specification with 1..4 values per axis', ok=why is None))
        if why:
            viol.append(dict(obligation='C13.bounded.product', input=inp, detail=why)); break
    return dict(bound='%d random specifications with 1..4 values per axis (list and dict parameter forms, list-of-ranges); every registered name re-instantiated from recorded inputs' % (25 if tier == 'quick' else 200),
                evaluations=ev, distinct_nontrivial=len(nt), rule='real get_simulations / expand_input_ranges: multiset of (size, direction, decoder params, rate) equals the Cartesian product',
                samples=samples, violations=viol)
