"""C14 - parallel runs execute exactly the requested trials per input.

Function under contract: panqec/cli.py::run_parallel (the click callback's body), executed
symbolically in full; external calls are replaced by assumed contracts (listed in ASSUMPTIONS):
os.makedirs/print are effect-free for the split, multiprocessing.cpu_count() is an unknown n_cpu >= 1,
glob() returns an unknown list of I file names, multiprocessing.Process(...) is recorded as a *spawn
effect* (target, args) - the obligations speak about the arguments of that spawn, i.e. about what is
actually launched.  The loop `for i_core in range(n_cores)` is handled by one generic iteration with
a fresh i_core (its body carries no state between iterations except `procs.append`; checked on the AST).
"""
import ast, os, subprocess, sys, json, tempfile, itertools
import z3
from pyvc.source import Module, Unsupported
from pyvc.symex import X, St, S, to_S, PYSTR, ZFILL, ABSPATH
from pyvc.values import T, E, D, Obj, Opaque, NONE, Z, B, conc
from pyvc.solve import check, minimise
from pyvc.runner import Ob

PROPERTY = 'C14'
LEVEL = 'proof'
EXPLANATION = ('nonlinear-integer VCs over the symbolically executed body of run_parallel for all '
               '(n_nodes, n_cores, n_inputs, trials, job_idx); bounded grid through the real click callback')
ASSUMPTIONS = [
    'A-ext: os.makedirs / print / proc.start / proc.join do not influence the trial split',
    'A-ext: multiprocessing.cpu_count() returns some n_cpu >= 1; glob() returns a list of I distinct file names',
    'A-str: k -> str(k).zfill(w) is injective on non-negative ints (int(str(k).zfill(w)) == k); os.path.abspath(os.path.join(d, f)) is injective in plain file name f',
    'python ints unbounded (z3 Int), // and % floor semantics',
    'n_cores=None is modelled as 0 (same truthiness)',
    'the tasks of one invocation (one node) are the iterations of the loop; all nodes run the same code with job_idx = 1..n_nodes',
]
TRUSTED_BASE = ['z3 5.1.0 (nonlinear integer arithmetic)', 'pyvc symbolic executor (cross-checked against CPython on the bounded grid)']

PARSE = z3.Function('parse_int', z3.StringSort(), z3.IntSort())


def sym_run_parallel(tag=''):
    """symbolically execute the real run_parallel; returns dict of symbolic inputs, spawn args, St"""
    m = Module.load('panqec/cli.py')
    f = m.funcs['run_parallel']
    N, C0, I, R, J, NCPU = [z3.Int(n + tag) for n in ('n_nodes', 'n_cores', 'n_inputs', 'trials', 'job_idx', 'n_cpu')]
    icore = z3.Int('i_core' + tag)
    FNAME = z3.Function('input_name', z3.IntSort(), z3.StringSort())
    spawns = []
    loops = []

    def loop_range(x, st, s, rng, env):
        # generic iteration rule: the body may only carry `procs` between iterations
        assigned = {t.id for n in ast.walk(ast.Module(body=s.body, type_ignores=[])) if isinstance(n, (ast.Assign, ast.AugAssign))
                    for t in ([n.target] if isinstance(n, ast.AugAssign) else n.targets) for t in ast.walk(t) if isinstance(t, ast.Name)}
        # every name assigned in the body must be assigned before it is read in the body (no loop-carried scalar)
        seen = set()
        for stmt in s.body:
            reads = {n.id for n in ast.walk(stmt) if isinstance(n, ast.Name) and isinstance(n.ctx, ast.Load)}
            # AugAssign reads its own target
            carried = (reads & assigned) - seen
            if isinstance(stmt, ast.AugAssign) and isinstance(stmt.target, ast.Name) and stmt.target.id not in seen:
                carried.add(stmt.target.id)
            if isinstance(stmt, ast.If):
                # names read in the test/branches before assignment inside this statement
                inner_assigned = {t.id for n in ast.walk(stmt) if isinstance(n, ast.Assign) for t in n.targets if isinstance(t, ast.Name)}
                carried -= set()    # conservative: keep
            if carried - {'procs'}:
                raise Unsupported('loop-carried variable(s) %s in run_parallel' % sorted(carried))
            seen |= {t.id for n in ast.walk(stmt) if isinstance(n, (ast.Assign, ast.AugAssign))
                     for t in ([n.target] if isinstance(n, ast.AugAssign) else n.targets) for t in ast.walk(t) if isinstance(t, ast.Name)}
        if not (conc(rng.st) == 1 and isinstance(s.target, ast.Name)):
            raise Unsupported('unexpected loop shape')
        # generic iteration number icore in [0, b - a); the loop variable is a + icore (range(n) and range(first, first + n) alike)
        env[s.target.id] = icore if conc(rng.a) == 0 else Z(rng.a) + icore
        st.live = z3.And(st.live, icore >= 0, icore < Z(rng.b) - Z(rng.a))
        loops.append(dict(var=s.target.id, bound=rng.b))
        x.block(s.body, env, st)

    def spawn(x, st, args, kwargs):
        spawns.append(dict(live=st.live, target=kwargs.get('target'), args=kwargs.get('args'), kwargs=kwargs.get('kwargs')))
        return Opaque('proc')

    strlist = Obj(None, {}, 'strlist')
    intr = {
        'os.makedirs': lambda x, st, a, k: NONE,
        'print': lambda x, st, a, k: NONE,
        'multiprocessing.cpu_count': lambda x, st, a, k: NCPU,
        'glob': lambda x, st, a, k: strlist,
        ('len', 'strlist'): lambda x, st, v: I,
        ('index', 'strlist'): lambda x, st, b, i: S(FNAME(Z(i))),
        'multiprocessing.Process': spawn,
        'proc.start': lambda x, st, a, k: NONE,
        'proc.join': lambda x, st, a, k: NONE,
        'os.path.exists': lambda x, st, a, k: z3.Bool('exists!%d' % next(x.fresh_id)),
        'os.remove': lambda x, st, a, k: NONE,
        'loop:range': loop_range,
    }
    x = X(m, intr)
    st = St()
    args = dict(data_dir=S(z3.String('data_dir')), trials=R, n_nodes=N, job_idx=J, n_cores=C0,
                delete_existing=z3.Bool('delete_existing'))
    st, ret = x.run(f, [], args, None, st)
    if len(spawns) != 1 or len(loops) != 1:
        raise Unsupported('expected exactly one spawn site inside one loop, got %d/%d' % (len(spawns), len(loops)))
    return dict(N=N, C0=C0, I=I, R=R, J=J, NCPU=NCPU, icore=icore, spawn=spawns[0], st=st, func=f, x=x, FNAME=FNAME,
                loop=loops[0])


def _facts(tag=''):
    s = sym_run_parallel(tag)
    N, C0, I, R, J, NCPU, icore = s['N'], s['C0'], s['I'], s['R'], s['J'], s['NCPU'], s['icore']
    C = z3.If(C0 == 0, NCPU, C0)                 # contract-level definition of the core count
    Tt = N * C                                   # total number of tasks
    t = C * (J - 1) + icore                      # global task index of this iteration
    sp = s['spawn']
    a = sp['args']
    if not (isinstance(a, T) and len(a.items) == 3):
        raise Unsupported('spawn args are not (input_file, result_file, n_runs)')
    input_file, result_file, n_runs = a.items
    # call-site well-formedness (the property's own quantifier): valid job index, cores within the machine
    wf = z3.And(N >= 1, NCPU >= 1, C0 >= 0, C0 <= NCPU, J >= 1, J <= N, I >= 0, icore >= 0, icore < C)
    pre = z3.And(wf, I >= 1, Tt >= I)            # "at least as many tasks as input files"
    return dict(s=s, C=C, Tt=Tt, t=t, wf=wf, pre=pre, input_file=input_file, result_file=result_file, n_runs=Z(n_runs),
                live=sp['live'])


def _ghost(fx):
    """ghost definitions of the contract: block structure of the task -> input map"""
    s = fx['s']; I, R, Tt, t = s['I'], s['R'], fx['Tt'], fx['t']
    q = Tt / I                                   # floor: I >= 1
    j = z3.Int('j')
    lo = j * q
    hi = z3.If(j == I - 1, Tt, (j + 1) * q)
    return dict(q=q, j=j, lo=lo, hi=hi, size=hi - lo)


def _input_index(fx):
    """the index i with input_file == abspath(join(input_dir, basename(list_inputs[i])))"""
    # recover i_input from the spawned input file term: it must be built from input_name(i) for one int term i
    term = to_S(fx['input_file'])
    found = []

    def walk(e):
        if z3.is_app(e) and e.decl().name() == 'input_name':
            found.append(e.arg(0))
        for c in e.children():
            walk(c)
    walk(term)
    uniq = []
    for f in found:
        if not any(f.eq(u) for u in uniq):
            uniq.append(f)
    if len(uniq) != 1:
        raise Unsupported('spawned input file does not name exactly one list_inputs element')
    return uniq[0]


def _result(name, r, fx, hyps_goal=None, extra=None):
    out = dict(verdict={'unsat': 'discharged', 'sat': 'refuted', 'unknown': 'unknown'}[r['verdict']], model=r.get('model'),
               backend=r['backend'], seconds=r['seconds'], tried=r.get('tried'),
               functions=[dict(function=fx['s']['func'].ref, sha256_16=fx['s']['func'].sha)],
               transparent=sorted(fx['s']['x'].transparent))
    if hyps_goal is not None:
        sol = z3.Solver(); sol.add(*hyps_goal); out['smt2'] = sol.to_smt2()[:1500]
    if extra:
        out.update(extra)
    return out


def ob(which, timeout=60):
    fx = _facts()
    s = fx['s']; st = s['st']
    I, R, Tt, t = s['I'], s['R'], fx['Tt'], fx['t']
    g = _ghost(fx)
    j, q, lo, hi, size = g['j'], g['q'], g['lo'], g['hi'], g['size']
    pre, live = fx['pre'], fx['live']
    iin = _input_index(fx)
    n_runs = fx['n_runs']
    inblock = z3.And(j >= 0, j < I, t >= lo, t < hi)
    if which == 'noraise':
        # no configuration with T >= I raises: every modelled exception + every division side condition
        bad = [c for c, nm, ln in st.raises]
        side = [z3.And(c, z3.Not(f)) for nm, c, f in st.side]
        goal = [pre, R >= 1, z3.Or(bad + side + [z3.BoolVal(False)])]
        r = check(goal, timeout)
        return _result(which, r, fx, goal, dict(detail='raise sites: %s; division sites: %d' % ([(nm, ln) for _, nm, ln in st.raises], len(st.side)),
                                               vacuity=_cover([pre, R >= 1, live])))
    if which == 'cover':
        r = check([pre, R >= size, inblock, live], timeout)
        v = 'discharged' if r['verdict'] == 'sat' else 'refuted' if r['verdict'] == 'unsat' else 'unknown'
        out = _result(which, r, fx); out['verdict'] = v; out['detail'] = 'precondition + spawn site reachable (cover query must be sat)'
        out['model'] = None if v == 'discharged' else out['model']
        return out
    if which == 'block':
        # the spawned input is j  <=>  the task lies in block j  (blocks partition [0,T))
        goal = [pre, live, j >= 0, j < I, z3.Not((iin == j) == z3.And(t >= lo, t < hi))]
        r = check(goal, timeout)
        return _result(which, r, fx, goal)
    if which == 'range':
        goal = [pre, live, z3.Not(z3.And(iin >= 0, iin < I))]
        r = check(goal, timeout); return _result(which, r, fx, goal)
    if which in ('total.last', 'total.notlast'):
        # per-input total: non-last tasks of block j run base = trials // size_j, the last one the rest.
        # Lemmas used as hypotheses (each discharged as its own obligation): C14.block (inblock => spawned input is j)
        # and C14.divdef (a == b*(a div b) + a mod b, 0 <= a mod b < b for b > 0), instantiated at the three divisions.
        base = R / size
        want = z3.If(t == hi - 1, R - (size - 1) * base, base)
        sz, qq = z3.Int('sz'), z3.Int('qq')
        hints = [iin == j,
                 Tt == I * (Tt / I) + Tt % I, Tt % I >= 0, Tt % I < I,
                 qq == q, t == qq * (t / qq) + t % qq, t % qq >= 0, t % qq < qq,
                 sz == size, R == sz * (R / sz) + R % sz, R % sz >= 0, R % sz < sz]
        case = (j == I - 1) if which == 'total.last' else (j < I - 1)
        goal = [pre, live, inblock, R >= size, case] + hints + [n_runs != want]
        r = check(goal, timeout)
        return _result(which, r, fx, goal)
    if which == 'divdef':
        a, b = z3.Ints('a b')
        goal = [b > 0, z3.Not(z3.And(a == b * (a / b) + a % b, a % b >= 0, a % b < b))]
        r = check(goal, timeout); return _result(which, r, fx, goal)
    if which == 'sumlemma':
        # sum over a contiguous block of `size` tasks of which size-1 run `base` and one runs trials-(size-1)*base
        sz, b, tr = z3.Ints('sz b tr')
        goal = [sz >= 1, (sz - 1) * b + (tr - (sz - 1) * b) != tr]
        r = check(goal, timeout); return _result(which, r, fx, goal)
    if which == 'positive':
        goal = [pre, live, inblock, R >= size, n_runs < 1]
        r = check(goal, timeout); return _result(which, r, fx, goal)
    if which == 'files':
        # two different tasks (possibly on different nodes) never share a result file
        fy = _facts('_b')
        t2 = fy['t']
        rf1, rf2 = to_S(fx['result_file']), to_S(fy['result_file'])
        sy = fy['s']
        same = [sy['N'] == s['N'], sy['C0'] == s['C0'], sy['NCPU'] == s['NCPU'], sy['I'] == s['I'], sy['R'] == s['R'],
                z3.String('data_dir') == z3.String('data_dir')]
        # A-str instantiated at the two terms that occur
        ax = []
        for term in (rf1, rf2):
            for zf in _find(term, 'zfill'):
                arg = zf.arg(0)
                if z3.is_app(arg) and arg.decl().name() == 'pystr':
                    k = arg.arg(0)
                    ax.append(z3.Implies(k >= 0, PARSE(zf) == k))
        # abspath(join(d, f)) injective in f: abspath(p) = absdir ++ p  (same d on both sides)
        absax = []
        for term in (rf1, rf2):
            for ap in _find(term, 'abspath'):
                absax.append(ap == z3.Concat(z3.String('cwd_prefix'), ap.arg(0)))
        goal = [pre, fy['pre'], live, fy['live']] + same + ax + absax + [t != t2, rf1 == rf2]
        r = check(goal, timeout)
        return _result(which, r, fx, goal, dict(detail='axiom instances: %d zfill, %d abspath' % (len(ax), len(absax)),
                                               vacuity=None if ax else 'NO zfill/str term found in result file name'))
    raise KeyError(which)


def _find(term, name):
    out = []

    def walk(e):
        if z3.is_app(e):
            if e.decl().name() == name and not any(e.eq(o) for o in out):
                out.append(e)
            for c in e.children():
                walk(c)
    walk(term)
    return out


def _cover(hyps):
    r = check(hyps, 20, fallbacks=False)
    return 'precondition/site cover: %s' % r['verdict']


def obligations(tier):
    names = ['cover', 'noraise', 'range', 'block', 'divdef', 'total.last', 'total.notlast', 'sumlemma', 'positive', 'files']
    return [Ob('C14.' + n, ob, dict(which=n, timeout=60 if tier == 'quick' else 300), timeout=60 if tier == 'quick' else 300) for n in names]


# ----------------------------------------------------------------------------------------------- native harness
def native_split(N, C, I, trials, ncpu=None):
    """run the REAL click callback for every node with stubs for glob / Process / cpu_count;
    returns list of (job, input_file, result_file, n_runs) or raises what the code raises"""
    import panqec.cli as cli
    import multiprocessing
    launched = []

    class P:
        def __init__(self, target=None, args=(), kwargs=None):
            launched.append((cur[0],) + tuple(args))

        def start(self):
            pass

        def join(self):
            pass
    cur = [0]
    tmp = tempfile.mkdtemp(prefix='c14_')
    files = [os.path.join(tmp, 'inputs', 'in_%02d.json' % k) for k in range(I)]
    og, op, oc, opr = cli.glob, cli.multiprocessing.Process, cli.multiprocessing.cpu_count, cli.print if hasattr(cli, 'print') else None
    try:
        cli.glob = lambda pat: list(files)
        cli.multiprocessing.Process = P
        cli.multiprocessing.cpu_count = lambda: (ncpu or C)
        import io, contextlib
        for job in range(1, N + 1):
            cur[0] = job
            with contextlib.redirect_stdout(io.StringIO()):
                cli.run_parallel.callback(data_dir=tmp, trials=trials, n_nodes=N, job_idx=job, n_cores=C, delete_existing=False)
    finally:
        cli.glob, cli.multiprocessing.Process, cli.multiprocessing.cpu_count = og, op, oc
        import shutil; shutil.rmtree(tmp, ignore_errors=True)
    return launched


def contract_native(N, C, I, trials):
    """post-condition of the property on one concrete configuration; returns None or a failure string"""
    T_ = N * C
    if not (I >= 1 and T_ >= I):
        return None
    q = T_ // I
    maxsize = q + T_ % I
    try:
        launched = native_split(N, C, I, trials)
    except Exception as e:                                  # noqa
        return 'raises %s: %s' % (type(e).__name__, e)
    if trials < maxsize:
        return None            # fewer trials than tasks: 'at least one trial per task' is unsatisfiable by any split
    if len(launched) != T_:
        return 'launched %d tasks, expected %d' % (len(launched), T_)
    per = {}
    for job, inp, res, n in launched:
        per[inp] = per.get(inp, 0) + n
        if n < 1:
            return 'task with %d trials' % n
    if len(per) != I:
        return 'only %d of %d inputs run' % (len(per), I)
    bad = {os.path.basename(k): v for k, v in per.items() if v != trials}
    if bad:
        return 'per-input totals %s != requested %d' % (bad, trials)
    if len({r for _, _, r, _ in launched}) != T_:
        return 'result files shared between tasks'
    return None


def replay(r):
    m = r.get('model') or {}
    def g(k, d=1):
        try:
            return int(m.get(k, d))
        except Exception:
            return d
    N, C0, I, R, ncpu = g('n_nodes'), g('n_cores', 0), g('n_inputs'), g('trials'), g('n_cpu')
    C = C0 if C0 else ncpu
    # shrink: search the neighbourhood of the model for the smallest failing configuration
    best = None
    cands = [(N, C, I, R)] + [(n, c, i, tr) for n in range(1, 4) for c in range(1, 6) for i in range(1, 6) for tr in range(1, 24)
                              if n * c >= i]
    for (n, c, i, tr) in cands[:1] + sorted(cands[1:], key=lambda z: sum(z)):
        if n * c > 64 or tr > 10 ** 6:
            continue
        why = contract_native(n, c, i, tr)
        if why:
            best = (n, c, i, tr, why)
            if (n, c, i, tr) != (N, C, I, R) or True:
                break
    if best is None:
        return dict(confirmed=False, detail='model (N=%d,C=%d,I=%d,trials=%d) and its neighbourhood satisfy the property natively' % (N, C, I, R))
    n, c, i, tr, why = best
    return dict(confirmed=True, input=dict(n_nodes=n, n_cores=c, n_inputs=i, trials=tr), detail=why)


def replay_file(data):
    inp = data.get('input') or {}
    if 'n_runs' in inp:
        why = native_task_writes(inp['n_runs'], inp.get('compressed', False))
        return dict(confirmed=bool(why), detail=why or 'the task writes its result file', input=inp)
    why = contract_native(inp['n_nodes'], inp['n_cores'], inp['n_inputs'], inp['trials'])
    return dict(confirmed=bool(why), detail=why or 'property holds on this input', input=inp)


def native_task_writes(n_runs, compressed):
    """the process target of run_parallel, called directly: its result file exists afterwards and holds n_runs trials per simulation"""
    import io, contextlib, json, shutil, tempfile, os
    from panqec.simulation import run_file
    from panqec.utils import load_json
    d = tempfile.mkdtemp(prefix='c14_')
    try:
        spec = {'ranges': {'label': 't', 'code': {'name': 'Toric2DCode', 'parameters': [{'L_x': 2, 'L_y': 2}]},
                           'error_model': {'name': 'PauliErrorModel', 'parameters': {'r_x': 1 / 3, 'r_y': 1 / 3, 'r_z': 1 / 3}},
                           'decoder': {'name': 'MatchingDecoder', 'parameters': {}}, 'error_rate': [0.1, 0.2]}}
        inp = os.path.join(d, 'in.json'); json.dump(spec, open(inp, 'w'))
        out = os.path.join(d, 'out.json' + ('.gz' if compressed else ''))
        with contextlib.redirect_stdout(io.StringIO()), contextlib.redirect_stderr(io.StringIO()):
            run_file(inp, out, n_runs, verbose=False)
        if not os.path.exists(out):
            return 'a task given %d trial(s) wrote no result file' % n_runs
        data = load_json(out)
        counts = [r_['results']['n_runs'] for r_ in data]
        if counts != [n_runs, n_runs]:
            return 'a task given %d trial(s) recorded %s trials for its two simulations' % (n_runs, counts)
        return None
    finally:
        shutil.rmtree(d, ignore_errors=True)


def bounded(tier, seed):
    import random
    rnd = random.Random(seed)
    lim = (4, 5, 7, 40) if tier == 'quick' else (6, 6, 9, 80)
    cases, viol, samples, nontriv = 0, [], [], set()
    grid = [(n, c, i, tr) for n in range(1, lim[0] + 1) for c in range(1, lim[1] + 1) for i in range(1, lim[2] + 1)
            for tr in range(1, lim[3] + 1) if n * c >= i and tr >= (n * c) // i + (n * c) % i]
    if tier == 'quick':
        rnd.shuffle(grid); grid = grid[:1500]
    for (n, c, i, tr) in grid:
        why = contract_native(n, c, i, tr)
        cases += 1
        if (n * c) % i or tr % max(1, (n * c) // i):
            nontriv.add((n, c, i, tr))
        if len(samples) < 3:
            samples.append(dict(n_nodes=n, n_cores=c, n_inputs=i, trials=tr, ok=why is None))
        if why and len(viol) < 5:
            viol.append(dict(obligation='C14.bounded', input=dict(n_nodes=n, n_cores=c, n_inputs=i, trials=tr), detail=why))
    # "a result file of its own": the task function that run_parallel starts (the real run_file) writes its result file for every trial count a task can be
    # given - in particular for exactly one trial, the minimum the split hands out
    for n_runs in (1, 2, 3):
        for gz in (False, True):
            why = native_task_writes(n_runs, gz); cases += 1
            if why:
                viol.append(dict(obligation='C14.bounded.task_file', input=dict(n_runs=n_runs, compressed=gz), detail=why))
    return dict(bound='real run_file with 1, 2, 3 trials (plain / gzip); n_nodes<=%d, n_cores<=%d, n_inputs<=%d, trials<=%d (quick: 1500 sampled grid points)' % lim,
                evaluations=cases, distinct_nontrivial=len(nontriv),
                rule='grid of (n_nodes,n_cores,n_inputs,trials) through the real click callback with glob/Process/cpu_count stubbed; '
                     'non-trivial iff tasks do not divide evenly over inputs or trials not over tasks',
                samples=samples, violations=viol)
