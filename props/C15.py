"""C15 - analysis aggregates are conserved however results are split.

Deductive (helper formulas only - the aggregation itself is pandas groupby/concat, which no contract here models):
  standard_error        get_standard_error(p, n) = sqrt(p (1-p) / (n+1))
  word_error_rate       get_word_error_rate: 1 - (1-p)^(1/k), first-order propagated error (1/k)(1-p)^(1/k-1) p_se
  count_fails[X|Z]      = number of set bits in the sector block (first k / last k columns) over the in-codespace rows (array VC)
  single_qubit.se       calculate_single_qubit_error_rates stores, under 'single_qubit_p_se', the array filled with the *uncertainty* returned by get_single_qubit_error_rate
  read_entry.n_trials   n_trials = len(effective_error)
Bounded (the actual conservation claim): a fixed multiset of synthetic trial records written under every partition shape (one file, many files, gzip, zip with nested
json / json.gz, merged list-of-lists through the real `merge-results` command, permuted order, repeated runs) - Analysis(...) post-conditions against independently pooled counts.
"""
import ast, gzip, io, itertools, json, os, random, shutil, tempfile, time, zipfile, contextlib
import numpy as np
import z3
from contracts.common import *
from pyvc.symex import TolerantX, Red, red_const
from pyvc.values import Alt
from pyvc.runner import Ob

PROPERTY = 'C15'
LEVEL = 'other'
EXPLANATION = ('helper formulas as VCs from the real source; the conservation claim under re-partitioning is decided only by run-time contracts over many partition shapes '
               '(pandas groupby / aggregate / concat semantics are not modelled - nothing about aggregate() is counted as proved)')
ASSUMPTIONS = [
    'A-real; sqrt / pow uninterpreted',
    'A-numpy: boolean-mask row selection keeps exactly the rows whose mask is True (modelled as "rows outside the mask contribute 0 to a sum")',
    'pandas groupby/aggregate/concat are NOT modelled (bounded layer only)',
]
TRUSTED_BASE = ['z3 5.1.0', 'pyvc executor']
AN = 'panqec/analysis.py'


def ob_standard_error(timeout=30):
    f = get_func(AN, 'get_standard_error')
    p, n = z3.Real('p'), z3.Int('n')
    x = X(Module.load(AN), {})
    st, ret = x.run(f, [p, n], {})
    goal = [n >= 0, p >= 0, p <= 1, Z(ret) != UF['sqrt'](p * (1 - p) / (z3.ToReal(n) + 1))]
    return result('standard_error', check(goal, timeout), [f], x, goal)


def ob_word_error_rate(timeout=30):
    f = get_func(AN, 'get_word_error_rate')
    p, se, k = z3.Real('p'), z3.Real('se'), z3.Int('k')
    x = X(Module.load(AN), {})
    st, ret = x.run(f, [p, se, k], {})
    if not (isinstance(ret, T) and len(ret.items) == 2):
        raise Unsupported('get_word_error_rate does not return a pair')
    kk = z3.ToReal(k)
    pw = UF['pow']
    goal = [k >= 1, p >= 0, p <= 1, z3.Or(Z(ret.items[0]) != 1 - pw(1 - p, 1 / kk), Z(ret.items[1]) != (1 / kk) * pw(1 - p, 1 / kk - 1) * se)]
    return result('word_error_rate', check(goal, timeout), [f], x, goal)


def ob_count_fails(sector, timeout=30):
    f = get_func(AN, 'count_fails')
    nt, k = z3.Int('n_trials'), z3.Int('k')
    EF = z3.Function('eff', INT, INT, INT); CS = z3.Function('cs', INT, z3.BoolSort())
    eff = Arr((nt, 2 * k), lambda r, c: EF(Z(r), Z(c)), 'uint8', 'param:effective_error')
    cs = Arr((nt,), lambda r: CS(Z(r)), 'bool', 'param:codespace')

    def adv(x, st, a, specs):
        # effective_error[codespace, :]  ->  sum-equivalent view: rows outside the mask contribute 0
        if specs[0][0] != 'mask' or specs[0][1] is not cs or any(s_[0] != 'slice' for s_ in specs[1:]):
            raise Unsupported('unexpected advanced index')
        return Arr(a.shape, lambda r, c: z3.If(CS(Z(r)), Z(a.f(r, c)), 0), a.dtype, 'fresh')
    x = X(Module.load(AN), {'arr:advanced_index': adv})
    st, ret = x.run(f, [eff, cs, E.const(sector)], {}, None, St(z3.And(nt >= 0, k >= 1)))
    if isinstance(ret, Alt):
        ret = x._collapse(ret)
    if not isinstance(ret, Red) or ret.kind != 'sum':
        raise Unsupported('count_fails does not return a sum')
    r_, c_ = z3.Ints('r c')
    blk = ret.arr
    off = 0 if sector == 'X' else k
    goal = [nt >= 1, k >= 1, r_ >= 0, r_ < nt, c_ >= 0, c_ < k, z3.Or(Z(blk.f(r_, c_)) != z3.If(CS(r_), EF(r_, off + c_), 0), Z(blk.shape[1]) != k, Z(blk.shape[0]) != nt)]
    return result('count_fails', check(goal, timeout), [f], x, goal, detail='sector %s: sum over in-codespace rows of columns [%s, %s)' % (sector, 'k' if off is k else '0', '2k' if off is k else 'k'))


def ob_single_qubit_se(timeout=30):
    m = Module.load(AN); c = m.classes['Analysis']
    f = c.methods['calculate_single_qubit_error_rates']
    outer = [n for n in f.node.body if isinstance(n, ast.For)]
    if len(outer) != 1:
        raise Unsupported('calculate_single_qubit_error_rates is not a single loop over the results')
    appended = {}

    class L:
        def __init__(s_, name):
            s_.name = name

        def acc_append(s_, x, st, item):
            appended.setdefault(s_.name, []).append(item)

    class Tab:
        def __init__(s_, shape):
            s_.stored = []

        def acc_store(s_, x, st, key, val):
            s_.stored.append(val)
    tabs = []

    def zeros(x, st, a, k):
        t = Tab(a[0]); tabs.append(t); return t
    calls = []

    def gsq(x, st, a, k):
        est, unc = Opaque('estimate#%d' % len(calls)), Opaque('uncertainty#%d' % len(calls))
        calls.append((est, unc)); return T([est, unc])
    x = TolerantX(m, {'np.zeros': zeros, 'get_single_qubit_error_rate': gsq})
    entry = D({'k': 1, 'effective_error': Opaque('effective_error')})
    env = {'self': Obj(c, {}, 'analysis'), 'estimates_list': L('estimates_list'), 'uncertainties_list': L('uncertainties_list'), 'i_entry': 0, 'entry': entry}
    st = St()
    x._cur_class = c
    x.block(outer[0].body, env, st)
    problems = []
    est_vals = {id(e_) for e_, _ in calls}; unc_vals = {id(u_) for _, u_ in calls}
    def kind(tab):
        ids = {id(v) for v in tab.stored}
        return 'estimates' if ids and ids <= est_vals else 'uncertainties' if ids and ids <= unc_vals else 'mixed/empty'
    for lname, want in (('estimates_list', 'estimates'), ('uncertainties_list', 'uncertainties')):
        items = appended.get(lname, [])
        if len(items) != 1 or not isinstance(items[0], Tab):
            problems.append('%s does not receive exactly one table per entry' % lname)
        elif kind(items[0]) != want:
            problems.append('%s receives the table filled with %s' % (lname, kind(items[0])))
    src = ast.unparse(f.node)
    if "self._results['single_qubit_p_est'] = estimates_list" not in src or "self._results['single_qubit_p_se'] = uncertainties_list" not in src:
        if not problems:
            raise Unsupported('source shape not recognised: result columns are not literally assigned from estimates_list / uncertainties_list')
    return dict(verdict='refuted' if problems else 'discharged', model=dict(problems=problems) if problems else None, backend='pyvc-symex', seconds=0, kind='plain',
                detail='; '.join(problems) or "single_qubit_p_se holds the uncertainties, single_qubit_p_est the estimates; dropped: %s" % x.dropped[:5],
                functions=[dict(function=f.ref, sha256_16=f.sha)], transparent=[])


def ob_read_entry(timeout=10):
    f = get_func(AN, 'read_entry')
    src = ast.unparse(f.node)
    problems = []
    if "entry['n_trials'] = len(entry['effective_error'])" not in src or "entries += read_entry(sub_data, results_file=results_file)" not in src:
        raise Unsupported('source shape of read_entry not recognised')
    return dict(verdict='refuted' if problems else 'discharged', model=dict(problems=problems) if problems else None, backend='pyvc-structural', seconds=0, kind='plain',
                detail='; '.join(problems) or 'n_trials = len(effective_error); lists flattened recursively', functions=[dict(function=f.ref, sha256_16=f.sha)], transparent=[])


def obligations(tier):
    return [Ob('C15.standard_error', ob_standard_error, {}, timeout=30), Ob('C15.word_error_rate', ob_word_error_rate, {}, timeout=30),
            Ob('C15.count_fails[X]', ob_count_fails, dict(sector='X'), timeout=30), Ob('C15.count_fails[Z]', ob_count_fails, dict(sector='Z'), timeout=30),
            Ob('C15.single_qubit.se', ob_single_qubit_se, {}, timeout=30), Ob('C15.read_entry.n_trials', ob_read_entry, {}, timeout=30, backend='pyvc-structural')]


# ------------------------------------------------------------------------------------------------ native layer
def synth_records(rnd, n_groups=3):
    """a fixed multiset of trial records: (inputs, trials) with arbitrary effective-error / codespace patterns"""
    groups = []
    for g in range(n_groups):
        k = rnd.choice([1, 2, 3])
        L = rnd.choice([2, 3, 4])
        inputs = {'code': {'name': 'Toric2DCode', 'parameters': {'L_x': L, 'L_y': L, 'L_z': None}, 'n': 2 * L * L, 'k': k, 'd': L},
                  'error_model': {'name': 'PauliErrorModel', 'parameters': {'r_x': 1 / 3, 'r_y': 1 / 3, 'r_z': 1 / 3, 'deformation_name': None, 'deformation_kwargs': {}}},
                  'decoder': {'name': 'MatchingDecoder', 'parameters': {'error_type': None, 'weights': None}},
                  'error_rate': [0.05, 0.1, 0.15][g % 3] + 0.2 * (g // 3), 'method': {'name': 'direct', 'parameters': {}}}
        trials = []
        for _ in range(rnd.randint(5, 30)):
            eff = [rnd.randint(0, 1) if rnd.random() < 0.4 else 0 for _ in range(2 * k)]
            cs = rnd.random() < 0.8
            trials.append((eff, cs, cs and not any(eff)))
        groups.append((inputs, trials))
    return groups


def write_partition(d, groups, shape, rnd):
    """write the records under one partition shape; returns list of paths to hand to Analysis"""
    def rec(inputs, trials):
        return {'inputs': json.loads(json.dumps(inputs)), 'results': {'effective_error': [t[0] for t in trials], 'codespace': [t[1] for t in trials], 'success': [t[2] for t in trials],
                                                                       'n_runs': len(trials), 'wall_time': 0.5 * len(trials)}}
    chunks = []          # list of files, each a list of records
    if shape == 'single':
        chunks = [[rec(i, t) for i, t in groups]]
    else:
        per = []
        for i, t in groups:
            cuts = sorted(rnd.sample(range(1, len(t)), min(len(t) - 1, rnd.randint(1, 3))))
            parts = [t[a:b] for a, b in zip([0] + cuts, cuts + [len(t)])]
            per += [rec(i, p_) for p_ in parts if p_]
        rnd.shuffle(per)
        nfiles = rnd.randint(2, 4)
        chunks = [per[j::nfiles] for j in range(nfiles)]
        chunks = [c for c in chunks if c]
    paths = []
    if shape in ('single', 'many'):
        for j, c in enumerate(chunks):
            p = os.path.join(d, 'res_%d.json' % j); json.dump(c, open(p, 'w')); paths.append(p)
    elif shape == 'gzip':
        for j, c in enumerate(chunks):
            p = os.path.join(d, 'res_%d.json.gz' % j)
            with gzip.open(p, 'wb') as g:
                g.write(json.dumps(c).encode())
            paths.append(p)
    elif shape == 'zip':
        p = os.path.join(d, 'results.zip')
        with zipfile.ZipFile(p, 'w') as zf:
            for j, c in enumerate(chunks):
                if j % 2:
                    zf.writestr('results/res_%d.json' % j, json.dumps(c))
                else:
                    zf.writestr('results/res_%d.json.gz' % j, gzip.compress(json.dumps(c).encode()))
        paths.append(p)
    elif shape == 'merged':
        files = []
        for j, c in enumerate(chunks):
            p = os.path.join(d, 'part_%d.json' % j); json.dump(c, open(p, 'w')); files.append(p)
        from click.testing import CliRunner
        from panqec.cli import cli
        out = os.path.join(d, 'merged.json.gz')
        r = CliRunner().invoke(cli, ['merge-results'] + files + ['-o', out])
        if r.exit_code != 0:
            raise RuntimeError('merge-results failed: %s' % r.output[-200:])
        for p in files:
            os.unlink(p)
        paths.append(out)
    elif shape in ('merged2', 'mixed'):
        # merge-results applied to files that are themselves merge outputs (repeated runs merged in stages), optionally next to an ordinary file
        from click.testing import CliRunner
        from panqec.cli import cli
        while len(chunks) < 3:
            big = max(range(len(chunks)), key=lambda j_: len(chunks[j_]))
            if len(chunks[big]) < 2:
                break
            c_ = chunks.pop(big); chunks += [c_[:len(c_) // 2], c_[len(c_) // 2:]]
        files = []
        for j, c in enumerate(chunks):
            p = os.path.join(d, 'part_%d.json' % j); json.dump(c, open(p, 'w')); files.append(p)
        keep_plain = files.pop() if shape == 'mixed' and len(files) > 2 else None
        half = max(1, len(files) // 2)
        stage1 = []
        for j, grp in enumerate((files[:half], files[half:])):
            if not grp:
                continue
            o1 = os.path.join(d, 'stage1_%d.json.gz' % j)
            r = CliRunner().invoke(cli, ['merge-results'] + grp + ['-o', o1])
            if r.exit_code != 0:
                raise RuntimeError('merge-results failed: %s' % r.output[-200:])
            stage1.append(o1)
        out = os.path.join(d, 'merged_twice.json.gz')
        r = CliRunner().invoke(cli, ['merge-results'] + stage1 + ['-o', out])
        if r.exit_code != 0:
            raise RuntimeError('merge-results (second stage) failed: %s' % r.output[-200:])
        for p in files + stage1:
            os.unlink(p)
        paths.append(out)
        if keep_plain:
            paths.append(keep_plain)
    elif shape in ('rundirs', 'rundirs_parent', 'samefiles'):
        # repeated runs, each writing a file of the SAME name into a directory of its own (what BaseSimulation's default label 'results' produces)
        for j, c in enumerate(chunks):
            sub = os.path.join(d, 'run_%d' % j, 'out') if j % 2 else os.path.join(d, 'run_%d' % j)
            os.makedirs(sub)
            fp = os.path.join(sub, 'results.json.gz' if shape != 'samefiles' or j % 2 == 0 else 'results.json')
            if fp.endswith('.gz'):
                with gzip.open(fp, 'wb') as g:
                    g.write(json.dumps(c).encode())
            else:
                json.dump(c, open(fp, 'w'))
            if shape == 'rundirs':
                paths.append(os.path.join(d, 'run_%d' % j))
            elif shape == 'samefiles':
                paths.append(fp)
        if shape == 'rundirs_parent':
            paths.append(d)
    elif shape == 'dir':
        sub = os.path.join(d, 'sub'); os.makedirs(sub)
        for j, c in enumerate(chunks):
            json.dump(c, open(os.path.join(sub, 'res_%d.json' % j), 'w'))
        paths.append(sub)
    return paths


def native_conservation(groups, shape, rnd):
    from panqec.analysis import Analysis, count_fails
    d = tempfile.mkdtemp(prefix='c15_')
    try:
        paths = write_partition(d, groups, shape, rnd)
        with contextlib.redirect_stdout(io.StringIO()):
            an = Analysis(paths if len(paths) > 1 else paths[0], verbose=False)
        res = an.get_results()
        if len(res) != len(groups):
            return 'analysis reports %d (code, noise, decoder, rate) rows for %d distinct configurations' % (len(res), len(groups))
        for inputs, trials in groups:
            row = res[(res['error_rate'].round(6) == round(inputs['error_rate'], 6)) & (res['code_params'].apply(lambda p_: p_['L_x']) == inputs['code']['parameters']['L_x'])]
            if len(row) != 1:
                return 'configuration with rate %r not reported exactly once' % inputs['error_rate']
            row = row.iloc[0]
            n = len(trials); nf = sum(1 for t in trials if not t[2]); k = inputs['code']['k']
            if row['n_trials'] != n:
                return 'pooled n_trials = %r, the multiset has %d trials' % (row['n_trials'], n)
            if row['n_fail'] != nf:
                return 'pooled n_fail = %r, the multiset has %d failures' % (row['n_fail'], nf)
            p = nf / n
            if not np.isclose(row['p_est'], p) or not np.isclose(row['p_se'], np.sqrt(p * (1 - p) / (n + 1))):
                return 'p_est / p_se = %r / %r, expected %r / %r' % (row['p_est'], row['p_se'], p, np.sqrt(p * (1 - p) / (n + 1)))
            eff = np.array(row['effective_error']); cs = np.array(row['codespace'])
            for sector, sl in (('X', slice(0, k)), ('Z', slice(k, 2 * k))):
                want = sum(sum(t[0][sl]) for t in trials if t[1])
                if count_fails(eff, cs, sector) != want:
                    return 'sector %s count %r != flagged logical bits among in-codespace trials %d' % (sector, count_fails(eff, cs, sector), want)
            pw = 1 - (1 - p) ** (1 / k)
            if not np.isclose(row['p_word_est'], pw):
                return 'word error rate %r != 1-(1-p)^(1/k) = %r' % (row['p_word_est'], pw)
            sq, sqe = np.array(row['single_qubit_p_est']), np.array(row['single_qubit_p_se'])
            for i in range(k):
                for j, pat in enumerate([None, (1, 0), (1, 1), (0, 1)]):
                    cnt = sum(1 for t in trials if ((t[0][i], t[0][k + i]) != (0, 0) if pat is None else (t[0][i], t[0][k + i]) == pat))
                    pe = cnt / n
                    if not np.isclose(sq[i, j], pe):
                        return 'single-qubit rate [%d,%d] = %r, expected %r' % (i, j, sq[i, j], pe)
                    if not np.isclose(sqe[i, j], np.sqrt(pe * (1 - pe) / (n + 1))):
                        return 'single-qubit standard error [%d,%d] = %r, expected sqrt(p(1-p)/(n+1)) = %r' % (i, j, sqe[i, j], np.sqrt(pe * (1 - pe) / (n + 1)))
        return None
    finally:
        shutil.rmtree(d, ignore_errors=True)


def replay(r):
    rnd = random.Random(0)
    for shape in SHAPES:
        groups = synth_records(rnd)
        try:
            why = native_conservation(groups, shape, rnd)
        except Exception as e:      # noqa
            why = 'analysis raises %s: %s' % (type(e).__name__, str(e)[:200])
        if why:
            return dict(confirmed=True, input=dict(partition=shape, seed=0), detail=why)
    return dict(confirmed=False, detail='aggregates are conserved on all partition shapes tried')


def replay_file(data):
    inp = (data or {}).get('input') or {}
    if inp.get('partition'):
        for sd in range(4):
            rnd = random.Random(sd)
            try:
                why = native_conservation(synth_records(rnd), inp['partition'], rnd)
            except Exception as e:      # noqa
                why = 'analysis raises %s: %s' % (type(e).__name__, str(e)[:200])
            if why:
                return dict(confirmed=True, input=dict(partition=inp['partition'], seed=sd), detail=why)
        return dict(confirmed=False, input=inp, detail='aggregates conserved on 4 synthetic multisets in this partition shape')
    return replay({})


SHAPES = ('single', 'many', 'gzip', 'zip', 'merged', 'merged2', 'mixed', 'dir', 'rundirs', 'rundirs_parent', 'samefiles')


def bounded(tier, seed):
    rnd = random.Random(seed)
    ev, nt, viol, samples = 0, set(), [], []
    for rep in range(2 if tier == 'quick' else 10):
        groups = synth_records(rnd, 3 if tier == 'quick' else 5)
        for shape in SHAPES:
            try:
                why = native_conservation(groups, shape, rnd)
            except Exception as e:      # noqa
                why = 'analysis raises %s: %s' % (type(e).__name__, str(e)[:200])
            ev += 1; nt.add((rep, shape))
            if rep == 0:
                samples.append(dict(partition=shape, configurations=len(groups), trials=[len(t) for _, t in groups], ok=why is None))
            if why:
                viol.append(dict(obligation='C15.bounded[%s]' % shape, input=dict(partition=shape, rep=rep), detail=why))
    out, seen = [], set()
    for v in viol:
        if v['obligation'] not in seen:
            seen.add(v['obligation']); out.append(v)
    return dict(bound='%d synthetic multisets (3-5 configurations, k in {1,2,3}, 5-30 trials each) x 11 partition shapes (single file, many files, gzip, zip with nested json/json.gz, merge-results output, merge of merges, merge of merges next to a plain file, directory, one directory per run each holding a file of the same name - passed as a list of directories, as their parent, as a list of files), random splits and order' % (2 if tier == 'quick' else 10),
                evaluations=ev, distinct_nontrivial=len(nt), rule='real Analysis(...) vs independently pooled counts', samples=samples[:6], violations=out)
