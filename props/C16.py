"""C16 - threshold estimation recovers a planted finite-size-scaling threshold.

Deductive (small): fit_function(p, d; p_th, nu, A, B, C) = A + B x + C x^2 with x = (p - p_th) d^nu (= utils.quadratic o utils.rescale_prob);
the threshold entry takes median / 0.16 / 0.84 quantiles and std of column 0 of the SAME bootstrap array; get_fit_status decision table.
Everything else - convergence and accuracy of scipy.optimize.curve_fit, the bootstrap - has no contract within reach:
bounded only: planted parameters on a grid, several distances and rates, rows and files permuted (deterministic: the bootstrap RNG is seeded in the code).
"""
import ast, io, json, os, random, shutil, tempfile, time, contextlib
import numpy as np
import z3
from contracts.common import *
from pyvc.values import Alt
from pyvc.runner import Ob

PROPERTY = 'C16'
LEVEL = 'other'
EXPLANATION = ('ansatz formula and the structure of the threshold entry are checked on the real source; recovery of a planted threshold depends on scipy curve_fit convergence, '
               'for which no contract is within reach - decided only by bounded runs with planted parameters')
ASSUMPTIONS = ['A-real; pow uninterpreted', 'numpy quantile/median are order statistics of the same column (left <= median <= right)',
               'NA: convergence / accuracy of scipy.optimize.curve_fit (bounded evidence only)']
TRUSTED_BASE = ['z3 5.1.0', 'pyvc executor', 'scipy.optimize.curve_fit (untrusted, exercised)']
AN = 'panqec/analysis.py'
UT = 'panqec/utils.py'


def ob_ansatz(timeout=30):
    f = get_func(AN, 'fit_function')
    p, d, pth, nu, A, Bc, C = z3.Reals('p d p_th nu A B C')
    x = X(Module.load(AN), {})
    st, ret = x.run(f, [T([p, d]), pth, nu, A, Bc, C], {})
    xx = (p - pth) * UF['pow'](d, nu)
    goal = [d > 0, Z(ret) != A + Bc * xx + C * xx * xx]
    r1 = check(goal, timeout)
    # utils.rescale_prob / quadratic agree with it
    m = Module.load(UT); x2 = X(m, {})
    _, rx = x2.run(m.funcs['rescale_prob'], [T([p, d]), pth, nu, A, Bc, C], {})
    _, rq = x2.run(m.funcs['quadratic'], [rx, pth, nu, A, Bc, C], {})
    goal2 = [d > 0, z3.Or(Z(rx) != xx, Z(rq) != A + Bc * xx + C * xx * xx)]
    r2 = check(goal2, timeout)
    r = r1 if r1['verdict'] != 'unsat' else r2
    return result('ansatz', r, [f, m.funcs['rescale_prob'], m.funcs['quadratic']], x, goal + goal2)


def ob_entry(timeout=10):
    """threshold entry: estimate, CI and SE are order statistics / std of column 0 of one bootstrap array"""
    m = Module.load(AN); f = m.classes['Analysis'].methods['calculate_thresholds']
    found = {}
    for n in ast.walk(f.node):
        if isinstance(n, ast.Dict):
            for k, v in zip(n.keys, n.values):
                if isinstance(k, ast.Constant) and k.value in ('p_th_fss', 'p_th_fss_left', 'p_th_fss_right', 'p_th_fss_se'):
                    found[k.value] = ast.unparse(v)
    want = {'p_th_fss': 'np.median(params_bs[:, 0])', 'p_th_fss_left': 'np.quantile(params_bs[:, 0], 0.16)',
            'p_th_fss_right': 'np.quantile(params_bs[:, 0], 0.84)', 'p_th_fss_se': 'params_bs[:, 0].std()'}
    if set(found) != set(want):
        raise Unsupported('threshold entry keys not found as a dict literal')
    import re
    pats = {'p_th_fss': r"np\.median\(params_bs\[:, (\d+)\]\)$", 'p_th_fss_left': r"np\.quantile\(params_bs\[:, (\d+)\], ([0-9.]+)\)$",
            'p_th_fss_right': r"np\.quantile\(params_bs\[:, (\d+)\], ([0-9.]+)\)$", 'p_th_fss_se': r"params_bs\[:, (\d+)\]\.std\(\)$"}
    problems, q = [], {}
    for k in want:
        mm = re.match(pats[k], found[k])
        if not mm:                                     # written some other way: not decided here, the bounded clause decides
            raise Unsupported('threshold entry %s written as %s' % (k, found[k]))
        if mm.group(1) != '0':
            problems.append('%s reads column %s of the bootstrap array, the threshold is column 0' % (k, mm.group(1)))
        if len(mm.groups()) > 1:
            q[k] = float(mm.group(2))
    if not (0 < q['p_th_fss_left'] <= 0.5 <= q['p_th_fss_right'] < 1):
        problems.append('quantile levels %s do not bracket the median' % q)
    return dict(verdict='refuted' if problems else 'discharged', model=dict(problems=problems) if problems else None, backend='pyvc-structural', seconds=0, kind='plain',
                detail='; '.join(problems) or 'median / 16% / 84% quantiles / std of column 0 of the same bootstrap array => left <= estimate <= right',
                functions=[dict(function=f.ref, sha256_16=f.sha)], transparent=[])


def ob_status(timeout=10):
    """get_fit_status returns 'success' only when none of its listed defects holds (decision table read off the AST: every other return is a non-success string)"""
    m = Module.load(AN); f = m.classes['Analysis'].methods['get_fit_status']
    rets = sorted([n for n in ast.walk(f.node) if isinstance(n, ast.Return)], key=lambda n: n.lineno)
    vals = [n.value.value if isinstance(n.value, ast.Constant) else None for n in rets]
    problems = []
    if vals.count('success') != 1 or not (isinstance(f.node.body[-1], ast.Return) and vals[-1] == 'success'):
        problems.append("'success' is not returned exactly once, at the end")
    if any(v is None or not isinstance(v, str) for v in vals):
        problems.append('a non-literal status is returned')
    src = ast.unparse(f.node)
    for needed in ("entry['p_th_fss'] < entry['p_left']", "entry['p_th_fss'] > entry['p_right']", "np.isclose(entry['p_th_fss_left'], entry['p_th_fss_right'])", "pd.isna(entry['fss_params'])"):
        if needed not in src and not problems:
            raise Unsupported('source shape of get_fit_status not recognised (check %r not found literally)' % needed)
    return dict(verdict='refuted' if problems else 'discharged', model=dict(problems=problems) if problems else None, backend='pyvc-structural', seconds=0, kind='plain',
                detail='; '.join(problems) or '%d defect checks precede the single success return' % (len(vals) - 1), functions=[dict(function=f.ref, sha256_16=f.sha)], transparent=[])


def ob_pairing(timeout=10):
    """fit_fss_params: the bootstrap value drawn for row i (from n_fail / n_trials of row i) is fitted against the (p, d) of the SAME row - the table is not re-ordered,
    re-indexed, filtered or re-bound between the extraction of p_list / d_list / f_list and the bootstrap loop; the resample index is applied to all three arrays alike"""
    f = get_func(AN, 'fit_fss_params')
    body = f.node.body
    extract_line = None
    for n in ast.walk(f.node):
        if isinstance(n, ast.Assign) and isinstance(n.targets[0], ast.Name) and n.targets[0].id in ('p_list', 'd_list', 'f_list'):
            extract_line = max(extract_line or n.lineno, n.lineno)
    problems = []
    if extract_line is None:
        raise Unsupported('p_list / d_list / f_list not extracted')
    REORDER = {'sort_values', 'sort_index', 'sample', 'reindex', 'reset_index', 'drop', 'dropna', 'drop_duplicates', 'query', 'groupby', 'iloc', 'loc', 'head', 'tail', 'merge'}
    for n in ast.walk(f.node):
        if getattr(n, 'lineno', 0) <= extract_line:
            continue
        if isinstance(n, ast.Assign):
            for t in n.targets:
                if isinstance(t, ast.Name) and t.id in ('df_trunc', 'p_list', 'd_list', 'f_list'):
                    problems.append('line %d re-binds %s after the rows were extracted' % (n.lineno, t.id))
        if isinstance(n, ast.Call) and isinstance(n.func, ast.Attribute) and ast.unparse(n.func.value) == 'df_trunc' and n.func.attr in REORDER:
            inplace = any(k.arg == 'inplace' and isinstance(k.value, ast.Constant) and k.value.value for k in n.keywords)
            if inplace:
                problems.append('line %d re-orders df_trunc in place (%s)' % (n.lineno, n.func.attr))
    src = ast.unparse(f.node)
    for needed in ('p_list[resample_index]', 'd_list[resample_index]', 'f_bs[resample_index]', 'df_trunc[n_trials_label].iloc[i]', 'df_trunc[n_fail_label].iloc[i]',
                   "d_list = df_trunc['d'].values", "p_list = df_trunc['error_rate'].values"):
        if needed not in src and not problems:
            raise Unsupported('source shape of fit_fss_params not recognised (%r not found literally)' % needed)
    return dict(verdict='refuted' if problems else 'discharged', model=dict(problems=problems) if problems else None, backend='pyvc-structural', seconds=0, kind='plain',
                detail='; '.join(problems) or 'row i of the bootstrap is paired with (p, d) of row i; one resample index for all three arrays', functions=[dict(function=f.ref, sha256_16=f.sha)], transparent=[])


def obligations(tier):
    return [Ob('C16.pairing', ob_pairing, {}, timeout=30, backend='pyvc-structural'), Ob('C16.ansatz', ob_ansatz, {}, timeout=30), Ob('C16.entry', ob_entry, {}, timeout=30, backend='pyvc-structural'), Ob('C16.status', ob_status, {}, timeout=30, backend='pyvc-structural')]


# ------------------------------------------------------------------------------------------------ native layer
def planted_files(d, pth, nu, A, Bc, C, dists, rates, n_trials, rnd, nfiles=1):
    recs = []
    for L in dists:
        for p in (rates[L] if isinstance(rates, dict) else rates):
            x = (p - pth) * L ** nu
            f = min(max(A + Bc * x + C * x * x, 0.0), 1.0)
            nf = int(round(f * n_trials))
            succ = [False] * nf + [True] * (n_trials - nf)
            rnd.shuffle(succ)
            inputs = {'code': {'name': 'Toric2DCode', 'parameters': {'L_x': L, 'L_y': L, 'L_z': None}, 'n': 2 * L * L, 'k': 2, 'd': L},
                      'error_model': {'name': 'PauliErrorModel', 'parameters': {'r_x': 1 / 3, 'r_y': 1 / 3, 'r_z': 1 / 3, 'deformation_name': None, 'deformation_kwargs': {}}},
                      'decoder': {'name': 'MatchingDecoder', 'parameters': {'error_type': None, 'weights': None}}, 'error_rate': p, 'method': {'name': 'direct', 'parameters': {}}}
            recs.append({'inputs': inputs, 'results': {'effective_error': [[0, 0, 0, 0] if s_ else [1, 0, 0, 0] for s_ in succ], 'codespace': [True] * n_trials,
                                                       'success': succ, 'n_runs': n_trials, 'wall_time': 1.0}})
    rnd.shuffle(recs)
    paths = []
    for j in range(nfiles):
        p_ = os.path.join(d, 'res_%d.json' % j); json.dump(recs[j::nfiles], open(p_, 'w')); paths.append(p_)
    return paths


def native_planted(pth, nu, A, Bc, C, rnd, nfiles=1, tol=None, grids=None, dists=None, half_frac=0.12):
    from panqec.analysis import Analysis
    d = tempfile.mkdtemp(prefix='c16_')
    try:
        dists = dists or [4, 6, 8, 10]
        half = half_frac * pth
        rates = [round(pth - half + 2 * half * j / 12, 6) for j in range(13)]
        n_trials = 20000
        if grids:                   # ragged grid: distance -> its own list of error rates
            dists = sorted(grids)
            paths = planted_files(d, pth, nu, A, Bc, C, dists, grids, n_trials, rnd, nfiles)
            rates = sorted({r_ for v in grids.values() for r_ in v})
        else:
            paths = planted_files(d, pth, nu, A, Bc, C, dists, rates, n_trials, rnd, nfiles)
        import warnings
        with contextlib.redirect_stdout(io.StringIO()), warnings.catch_warnings():
            warnings.simplefilter('ignore')
            an = Analysis(paths if nfiles > 1 else paths[0], verbose=False)
            th = an.thresholds
        if len(th) != 1:
            return 'expected one threshold row, got %d' % len(th), None
        row = th.iloc[0]
        est, lo, hi = row['p_th_fss'], row['p_th_fss_left'], row['p_th_fss_right']
        tol = tol or 0.01 * pth            # fixed fit tolerance (not scaled by the reported CI)
        if not (abs(est - pth) <= tol):
            return 'planted threshold %r, reported %r (CI [%r, %r])' % (pth, est, lo, hi), None
        if not grids and (hi - lo) > 0.05 * pth:        # (rectangular grids only: on a ragged grid the threshold is partly extrapolated and a wide interval is legitimate)
            return 'confidence interval [%r, %r] is wider than 5%% of the planted threshold with 20000 trials per point' % (lo, hi), None
        if not (lo <= est <= hi):
            return 'reported threshold %r outside its own confidence interval [%r, %r]' % (est, lo, hi), None
        if not (min(rates) <= est <= max(rates)):
            return 'reported threshold outside the data range', None
        if row['fit_status'] != 'success' if 'fit_status' in row else False:
            return 'fit flagged %r' % row['fit_status'], None
        return None, (float(est), float(lo), float(hi))
    finally:
        shutil.rmtree(d, ignore_errors=True)


def native_direct(pth, nu, A, Bc, C, order, rnd):
    """fit_fss_params called directly on a planted table whose rows come in the given order"""
    import pandas as pd, warnings
    from panqec.analysis import fit_fss_params
    dists = [5, 7, 9, 11]
    half = 0.12 * pth
    rates = [round(pth - half + 2 * half * j / 12, 6) for j in range(13)]
    rows = []
    for L in dists:
        for p in rates:
            x = (p - pth) * L ** nu
            f = min(max(A + Bc * x + C * x * x, 0.0), 1.0)
            rows.append(dict(d=L, error_rate=p, p_est=round(f * 20000) / 20000, n_trials=20000, n_fail=int(round(f * 20000)), code='Toric %dx%d' % (L, L)))
    if order == 'by_rate':
        rows.sort(key=lambda r_: (r_['error_rate'], r_['d']))
    elif order == 'shuffled':
        rnd.shuffle(rows)
    elif order == 'by_distance_desc':
        rows.sort(key=lambda r_: (-r_['d'], r_['error_rate']))
    df = pd.DataFrame(rows)
    with contextlib.redirect_stdout(io.StringIO()), warnings.catch_warnings():
        warnings.simplefilter('ignore')
        params_opt, params_bs, _ = fit_fss_params(df, min(rates), max(rates), p_nearest=pth, n_bs=40)
    est, lo, hi = np.median(params_bs[:, 0]), np.quantile(params_bs[:, 0], 0.16), np.quantile(params_bs[:, 0], 0.84)
    if abs(params_opt[0] - pth) > 0.01 * pth:
        return 'best-fit threshold %r for planted %r (rows %s)' % (float(params_opt[0]), pth, order)
    if abs(est - pth) > 0.01 * pth:
        return 'bootstrap threshold %r for planted %r (rows %s)' % (float(est), pth, order)
    if not (lo <= est <= hi) or (hi - lo) > 0.05 * pth:
        return 'confidence interval [%r, %r] around %r is not a tight interval containing the estimate (rows %s; 20000 trials per point)' % (float(lo), float(hi), float(est), order)
    if len(params_bs) < 36:
        return '%d of 40 bootstrap fits failed (rows %s)' % (40 - len(params_bs), order)
    return None


def native_ansatz(pts):
    """the fitting model is the documented ansatz at every point, also where the quadratic leaves [0, 1] (no clipping, no other transformation)"""
    from panqec.analysis import fit_function
    for (pv, dv, pth, nu, A, Bc, C) in pts:
        x = (pv - pth) * dv ** nu
        want = A + Bc * x + C * x * x
        got = float(np.asarray(fit_function((np.array([pv]), np.array([dv])), pth, nu, A, Bc, C)).reshape(-1)[0])
        if not np.isclose(got, want, rtol=1e-9, atol=1e-12):
            return 'fit_function((p=%r, d=%r), p_th=%r, nu=%r, A=%r, B=%r, C=%r) = %r, the ansatz A + Bx + Cx^2 with x = (p - p_th) d^nu gives %r' % (pv, dv, pth, nu, A, Bc, C, got, want)
    return None


ANSATZ_POINTS = [(0.1, 5.0, 0.1, 1.0, 0.3, 1.0, 1.0), (0.12, 9.0, 0.1, 1.2, 0.3, 2.0, 1.5), (0.30, 17.0, 0.25, 0.9, 0.3, 0.5, 0.2), (0.35, 21.0, 0.25, 2.0, 0.4, 1.0, 1.0),
                 (0.05, 13.0, 0.25, 1.0, 0.1, 1.0, 0.0), (0.2, 3.0, 0.1, 1.0, -0.5, 1.0, 1.0)]


def replay(r):
    rnd = random.Random(0)
    if 'ansatz' in r.get('name', ''):
        from bounded.util import frac
        m = r.get('model') or {}
        pts = list(ANSATZ_POINTS)
        try:
            mp_ = tuple(frac(m[k_]) for k_ in ('p', 'd', 'p_th', 'nu', 'A', 'B', 'C'))
            if mp_[1] > 0 and float(mp_[3]).is_integer():
                pts.insert(0, mp_)
        except Exception:       # noqa
            pass
        why = native_ansatz(pts)
        return dict(confirmed=bool(why), input=dict(ansatz_points=[list(t) for t in pts[:3]]), detail=why or 'fit_function equals the ansatz on %d points incl. values outside [0, 1]' % len(pts))
    for order in ('by_distance', 'by_rate', 'shuffled', 'by_distance_desc'):
        why = native_direct(0.10, 1.0, 0.3, 1.5, 2.0, order, rnd)
        if why:
            return dict(confirmed=True, input=dict(p_th=0.10, nu=1.0, A=0.3, B=1.5, C=2.0, row_order=order), detail=why)
    why, _ = native_planted(0.10, 1.0, 0.3, 1.5, 2.0, rnd)
    return dict(confirmed=bool(why), input=dict(p_th=0.10, nu=1.0, A=0.3, B=1.5, C=2.0), detail=why or 'planted threshold recovered')


def replay_file(data):
    inp = (data or {}).get('input') or {}
    if inp.get('ansatz_points'):
        why = native_ansatz([tuple(t) for t in inp['ansatz_points']] + ANSATZ_POINTS)
        return dict(confirmed=bool(why), input=inp, detail=why or 'fit_function equals the ansatz')
    if inp.get('dists'):
        why, _ = native_planted(inp['p_th'], inp['nu'], inp['A'], inp['B'], inp['C'], random.Random(0), inp.get('files', 1), tol=0.02 * inp['p_th'], dists=inp['dists'], half_frac=inp.get('half_frac', 0.18))
        return dict(confirmed=bool(why), input=inp, detail=why or 'planted threshold recovered')
    if inp.get('grids'):
        grids = {int(k): v for k, v in inp['grids'].items()}
        why, _ = native_planted(inp['p_th'], inp['nu'], inp['A'], inp['B'], inp['C'], random.Random(0), inp.get('files', 1), tol=0.02 * inp['p_th'], grids=grids)
        return dict(confirmed=bool(why), input=inp, detail=why or 'planted threshold recovered on the ragged grid')
    if inp.get('row_order'):
        why = native_direct(inp['p_th'], inp['nu'], inp['A'], inp['B'], inp['C'], inp['row_order'], random.Random(0))
        return dict(confirmed=bool(why), input=inp, detail=why or 'holds')
    if 'p_th' in inp and 'nu' in inp:
        why, _ = native_planted(inp['p_th'], inp['nu'], inp['A'], inp['B'], inp['C'], random.Random(0), inp.get('files', 1))
        return dict(confirmed=bool(why), input=inp, detail=why or 'planted threshold recovered')
    return replay({})


def bounded(tier, seed):
    ev, nt, viol, samples = 0, set(), [], []
    grid = [(0.10, 1.0, 0.3, 1.5, 2.0), (0.05, 1.2, 0.2, 2.0, 1.0), (0.15, 0.8, 0.4, 1.0, 3.0)]
    if tier != 'quick':
        grid += [(0.03, 1.5, 0.25, 3.0, 5.0), (0.2, 1.0, 0.35, 1.2, 0.5), (0.08, 0.9, 0.15, 2.5, 4.0)]
    for g in grid:
        ests = []
        for nfiles, sd in ((1, seed), (3, seed + 1)):
            try:
                why, e_ = native_planted(*g, random.Random(sd), nfiles)
            except Exception as ex:      # noqa
                why, e_ = 'analysis raises %s: %s' % (type(ex).__name__, str(ex)[:200]), None
            ev += 1; nt.add((g, nfiles))
            ests.append(e_)
            if why:
                viol.append(dict(obligation='C16.bounded.planted', input=dict(p_th=g[0], nu=g[1], A=g[2], B=g[3], C=g[4], files=nfiles), detail=why))
        if all(ests) and not np.allclose(ests[0], ests[1], rtol=1e-6, atol=1e-9):
            viol.append(dict(obligation='C16.bounded.order', input=dict(p_th=g[0]), detail='threshold depends on file/row order: %r vs %r' % (ests[0], ests[1])))
        samples.append(dict(planted=g, reported=ests[0]))
    why = native_ansatz(ANSATZ_POINTS); ev += 1
    if why:
        viol.append(dict(obligation='C16.bounded.ansatz', input=dict(ansatz_points=[list(t) for t in ANSATZ_POINTS[:3]]), detail=why))
    # high thresholds, wide windows, large distances: (p_max - p_min) d_max^nu is large, so the quadratic leaves [0, 1] at the optimiser's starting point
    for g, dists_h, hf in (((0.25, 0.9, 0.3, 0.45, 0.15), [5, 9, 13, 17], 0.18), ((0.30, 1.0, 0.3, 0.3, 0.1), [5, 9, 13, 17], 0.15)):
        try:
            why, e_ = native_planted(*g, random.Random(seed), 1, tol=0.02 * g[0], dists=dists_h, half_frac=hf)
        except Exception as ex:      # noqa
            why = 'analysis raises %s: %s' % (type(ex).__name__, str(ex)[:200])
        ev += 1; nt.add((g, 'high'))
        if why:
            viol.append(dict(obligation='C16.bounded.high_threshold', input=dict(p_th=g[0], nu=g[1], A=g[2], B=g[3], C=g[4], files=1, dists=dists_h, half_frac=hf), detail=why))
    # ragged grids: only the smallest code was run at the highest rates and the planted threshold lies beyond the last rate common to all distances
    common = [round(0.080 + 0.005 * j, 6) for j in range(7)]
    for pth_r, extra in ((0.112, [0.115, 0.120]), (0.1135, [0.115, 0.120, 0.125])):
        g = (pth_r, 0.9, 0.25, 0.6, 0.5)
        grids = {5: common + extra, 7: common, 9: common}
        for nfiles, sd in ((1, seed), (3, seed + 1)):
            try:
                why, e_ = native_planted(*g, random.Random(sd), nfiles, tol=0.02 * pth_r, grids=grids)
            except Exception as ex:      # noqa
                why, e_ = 'analysis raises %s: %s' % (type(ex).__name__, str(ex)[:200]), None
            ev += 1; nt.add((g, nfiles, 'ragged'))
            if why:
                viol.append(dict(obligation='C16.bounded.ragged', input=dict(p_th=g[0], nu=g[1], A=g[2], B=g[3], C=g[4], files=nfiles, grids={str(k): v for k, v in grids.items()}), detail=why))
    for g in grid[:2]:
        for order in ('by_distance', 'by_rate', 'shuffled', 'by_distance_desc'):
            try:
                why = native_direct(*g, order, random.Random(seed))
            except Exception as ex:      # noqa
                why = 'fit_fss_params raises %s: %s' % (type(ex).__name__, str(ex)[:200])
            ev += 1; nt.add((g, order))
            if why:
                viol.append(dict(obligation='C16.bounded.row_order', input=dict(p_th=g[0], nu=g[1], A=g[2], B=g[3], C=g[4], row_order=order), detail=why))
    out, seen = [], set()
    for v in viol:
        if v['obligation'] not in seen:
            seen.add(v['obligation']); out.append(v)
    return dict(bound='%d planted parameter sets x {1 file, 3 files with permuted rows}; 4 distances x 13 rates, 20000 trials per point; 2 ragged grids with the threshold beyond the last common rate' % len(grid),
                evaluations=ev, distinct_nontrivial=len(nt), rule='real Analysis(...).thresholds on synthetic results lying exactly on the ansatz (rounded to counts)', samples=samples, violations=out)
