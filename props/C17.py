"""C17 - reported distance d is the true code distance.

Deductive: StabilizerCode.d is executed symbolically over abstract logical matrices of symbolic shape (k x 2n):
  d = min_i min(wt(LX_i), wt(LZ_i)),  wt(row) = #{j < n : row[j] != 0 or row[n+j] != 0}
With C01 (every listed row is a non-trivial logical operator) this gives  distance <= d  for every class and size.
Bounded (NOT proved): distance >= d - exact search "exists e: He = 0, some logical bit set, wt(e) <= d-1" must be unsat
(z3 pseudo-Boolean over the real matrices) for every class at every supported size up to a qubit bound.
"""
import itertools, random, time, multiprocessing as mp
import numpy as np
import z3
from contracts.common import *
from pyvc.symex import Red
from pyvc.runner import Ob

PROPERTY = 'C17'
LEVEL = 'other'
EXPLANATION = ('proof part: d = minimum row weight of the listed logicals (VC from the AST of StabilizerCode.d over abstract arrays) => d is an upper bound on the distance given C01; '
               'the lower bound has no contract within reach for unbounded L and is decided only by exact minimum-weight search (z3 pseudo-Boolean) on real matrices up to a stated qubit bound')
ASSUMPTIONS = [
    'C01: every listed logical commutes with all generators and anticommutes with its partner (non-trivial logical) - proved/checked there',
    'A-numpy: np.logical_or / np.sum(axis=1) / np.min are elementwise / row reductions',
    'NOT proved: no lighter logical operator exists (lower bound) - bounded search only (undeformed and deformed objects)',
]
TRUSTED_BASE = ['z3 5.1.0 (array VC; pseudo-Boolean search in the bounded layer)']
SC = 'panqec/codes/base/_stabilizer_code.py'


def ob_formula(timeout=30):
    m = Module.load(SC)
    cls = m.classes['StabilizerCode']
    f = cls.methods['d']
    n, k = z3.Int('n'), z3.Int('k')
    LXf = z3.Function('LX', INT, INT, INT); LZf = z3.Function('LZ', INT, INT, INT)
    lx = Arr((k, 2 * n), lambda r, c: LXf(Z(r), Z(c)), 'int', 'field:_logicals_x')
    lz = Arr((k, 2 * n), lambda r, c: LZf(Z(r), Z(c)), 'int', 'field:_logicals_z')
    selfo = Obj(cls, {'_d': NONE, 'n': n, 'logicals_x': lx, 'logicals_z': lz}, 'code')
    x = X(m, {})
    st, ret = x.run(f, [], {}, selfo)
    # expected shape: min( Red(min, Red(sum, W_x, axis=1)), Red(min, Red(sum, W_z, axis=1)) )  in either order
    parts = []

    def collect(v):
        if isinstance(v, Red) and v.kind == 'min' and isinstance(v.arr, T):
            for a in v.arr.items:
                collect(a)
        elif isinstance(v, Red) and v.kind == 'min':
            parts.append(v)
        elif isinstance(v, Alt):
            for _, a in v.alts:
                collect(a)
        elif isinstance(v, z3.ExprRef):
            raise Unsupported('d is not a minimum of two reductions')
    from pyvc.values import Alt
    if isinstance(ret, Alt):
        collect(ret)
    else:
        # ite(c, a, b) over Red values becomes an Alt; a plain Red means only one of the two matrices is used
        collect(ret)
    problems = []
    seen = {'x': False, 'z': False}
    r_, c_ = z3.Int('r'), z3.Int('c')
    goals = []
    for p in parts:
        inner = p.arr
        if not (isinstance(inner, Red) and inner.kind == 'sum' and conc(inner.axis) == 1 and isinstance(inner.arr, Arr) and inner.arr.rank == 2):
            problems.append('row weights are not a sum over axis 1 of a 2-D array'); continue
        W = inner.arr
        el = B(W.f(r_, c_))
        for nm, F in (('x', LXf), ('z', LZf)):
            want = z3.Or(F(r_, c_) != 0, F(r_, n + c_) != 0)
            g = [n >= 1, k >= 1, r_ >= 0, r_ < k, c_ >= 0, c_ < n, el != want]
            if check(g, timeout, fallbacks=False)['verdict'] == 'unsat':
                seen[nm] = True
                goals.append(g)
                gs = [n >= 1, k >= 1, z3.Or(Z(W.shape[0]) != k, Z(W.shape[1]) != n)]
                if check(gs, timeout, fallbacks=False)['verdict'] != 'unsat':
                    problems.append('weight array of logicals_%s has shape other than (k, n)' % nm)
    if not (seen['x'] and seen['z']):
        problems.append('d does not take the minimum over BOTH logical matrices with weight = |supp x U supp z| (x: %s, z: %s)' % (seen['x'], seen['z']))
    if len(parts) != 2:
        problems.append('expected two min-reductions, found %d' % len(parts))
    stored = selfo.fields.get('_d')
    v = 'refuted' if problems else 'discharged'
    sol = z3.Solver()
    for g in goals[:1]:
        sol.add(*g)
    return dict(verdict=v, model=None, backend='z3-' + z3.get_version_string(), seconds=0, detail='; '.join(problems) or 'd = min over rows of both logical matrices of |supp x U supp z|',
                functions=[dict(function=f.ref, sha256_16=f.sha)], transparent=sorted(x.transparent), smt2=sol.to_smt2()[:800], kind='state')


def ob_no_override(timeout=10):
    """every library class inherits d (and n, k, logicals_x/z, size) from StabilizerCode: the formula obligation speaks about the code that runs"""
    from contracts.lattices import CLASSES
    from pyvc.source import get_class
    base = get_class(SC, 'StabilizerCode')
    problems, funcs = [], []
    for name, (path, _) in CLASSES.items():
        c = get_class(path, name)
        for attr in ('d', 'n', 'k', 'logicals_x', 'logicals_z', 'size', 'stabilizer_matrix'):
            f = c.lookup(attr)
            if f is not base.methods[attr]:
                problems.append('%s overrides %s' % (name, attr))
        for attr in ('_d',):
            if attr in c.attrs:
                problems.append('%s presets %s' % (name, attr))
    return dict(verdict='refuted' if problems else 'discharged', model=dict(overrides=problems) if problems else None, backend='pyvc-structural', seconds=0, kind='plain',
                detail='; '.join(problems) or 'd, n, k, logicals_x/z, size, stabilizer_matrix are inherited unmodified by all %d classes' % len(CLASSES),
                functions=[dict(function=base.methods['d'].ref, sha256_16=base.methods['d'].sha)], transparent=[])


def obligations(tier):
    return [Ob('C17.d.formula', ob_formula, {}, timeout=60, kind='state'), Ob('C17.d.inherited', ob_no_override, {}, timeout=30, backend='pyvc-structural')]


# ------------------------------------------------------------------------------------------------ bounded: exact distance
from bounded import codes as BC    # noqa
from bounded.util import all_code_classes, small_sizes, supported    # noqa


def lighter_logical(code, w, timeout_ms=120000):
    """a non-trivial logical operator of weight <= w, or None (exact, z3 pseudo-Boolean)"""
    H = code.stabilizer_matrix.toarray(); n = code.n
    lx, lz = code.logicals_x, code.logicals_z
    xs = [z3.Bool('x%d' % i) for i in range(n)]; zs = [z3.Bool('z%d' % i) for i in range(n)]
    s = z3.Solver(); s.set('timeout', timeout_ms)

    def par(row):
        terms = [zs[j] for j in np.nonzero(row[:n])[0]] + [xs[j] for j in np.nonzero(row[n:])[0]]
        if not terms:
            return z3.BoolVal(False)
        r = terms[0]
        for t in terms[1:]:
            r = z3.Xor(r, t)
        return r
    for row in H:
        s.add(z3.Not(par(row)))
    s.add(z3.Or([par(r) for r in lx] + [par(r) for r in lz]))
    s.add(z3.PbLe([(z3.Or(xs[i], zs[i]), 1) for i in range(n)], w))
    r = s.check()
    if r == z3.sat:
        mdl = s.model()
        e = [int(z3.is_true(mdl.eval(v, model_completion=True))) for v in xs + zs]
        return 'sat', e
    return str(r), None


def distance_job(a):
    name, size = a[0], a[1]
    defo, kw = (a[2], dict(a[3])) if len(a) > 2 else (None, {})
    try:
        code = BC.make(name, size, defo, kw)
        d = int(code.d)
        # contract on the reported value itself
        wts = [int(np.count_nonzero(np.logical_or(r[:code.n], r[code.n:]))) for r in list(code.logicals_x) + list(code.logicals_z)]
        if d != min(wts):
            return a, code.n, d, 'd=%d is not the minimum listed-logical weight %d' % (d, min(wts))
        # upper bound witness, independent of C01: a listed operator of weight d really is a logical operator - it commutes with every generator and is not a
        # product of generators (GF(2) rank of H with the row appended)
        H = code.stabilizer_matrix.toarray() % 2
        n = code.n
        rows = list(code.logicals_x) + list(code.logicals_z)
        w_ = np.asarray(rows[int(np.argmin(wts))]).astype(int) % 2
        if np.any((H[:, :n] @ w_[n:] + H[:, n:] @ w_[:n]) % 2):
            return a, code.n, d, 'd=%d is the weight of a listed logical that anticommutes with a stabilizer generator (not a logical operator at all)' % d
        from bounded.codes import gf2_rank
        if gf2_rank(np.vstack([H, w_]).astype(int).tolist()) == gf2_rank(H.astype(int).tolist()):
            return a, code.n, d, 'd=%d is the weight of a listed "logical" that is a product of stabilizer generators' % d
        if d > 1:
            v, e = lighter_logical(code, d - 1)
            if v == 'sat':
                # replay: check the witness natively
                e = np.array(e, dtype=np.uint8)
                assert code.in_codespace(e) and code.is_logical_error(e)
                wt = int(np.count_nonzero(np.logical_or(e[:code.n], e[code.n:])))
                return a, code.n, d, 'reported d=%d but a logical operator of weight %d exists: %s' % (d, wt, ''.join(map(str, e)))
            if v != 'unsat':
                return a, code.n, d, 'UNDECIDED'
        return a, code.n, d, None
    except Exception as e:      # noqa
        return a, 0, 0, 'raises %s: %s' % (type(e).__name__, e)


def replay(r):
    # structural / formula obligation: look for a real code whose reported d is not the exact distance
    for name, cls in all_code_classes():
        for size in small_sizes(cls, name, 40, 5)[:12]:
            a, n, d, why = distance_job((name, size))
            if why and why != 'UNDECIDED':
                return dict(confirmed=True, input=dict(code=name, size=list(size)), detail=why)
    return dict(confirmed=None, detail='no real code with a wrong reported distance found among codes with n <= 40')


def replay_file(data):
    inp = data.get('input') or {}
    job = (inp['code'], tuple(inp['size'])) + ((inp['deformation'], tuple(sorted((inp.get('kwargs') or {}).items()))) if inp.get('deformation') else ())
    a, n, d, why = distance_job(job)
    return dict(confirmed=bool(why) and why != 'UNDECIDED', detail=why or 'reported d is exact', input=inp)


def bounded(tier, seed):
    maxn = 110 if tier == 'quick' else 200
    jobs = []
    for name, cls in all_code_classes():
        for size in small_sizes(cls, name, maxn, 4 if tier == 'quick' else 6):
            jobs.append((name, size))
    rnd = random.Random(seed); rnd.shuffle(jobs)
    if tier == 'quick':
        # at most 6 sizes per class, smallest n first
        by = {}
        for j in sorted(jobs, key=lambda j: np.prod(j[1])):
            by.setdefault(j[0], []).append(j)
        jobs = [j for v in by.values() for j in v[:8]]
    # deformed objects (logicals may then contain Y): every deformation / axis of every class at up to 3 sizes, non-square shapes first
    from bounded.util import deformation_variants
    for name, cls in all_code_classes():
        variants = [v for v in deformation_variants(cls) if v[0]]
        if not variants:
            continue
        sizes = sorted(small_sizes(cls, name, 60 if tier == 'quick' else 120, 4), key=lambda s_: (len(set(s_)) == 1, int(np.prod(s_))))
        sizes = [s_ for s_ in sizes if max(s_) >= 2][: (3 if tier == 'quick' else 8)]
        for defo, kw in variants:
            for size in sizes:
                jobs.append((name, size, defo, tuple(sorted(kw.items()))))
    ev, nt, viol, samples, und = 0, set(), [], [], []
    with mp.get_context('fork').Pool(min(16, max(1, len(jobs)))) as pool:
        for a, n, d, why in pool.imap_unordered(distance_job, jobs):
            ev += 1
            if d > 1:
                nt.add(a)
            if len(samples) < 4 and d > 2:
                samples.append(dict(code=a[0], size=a[1], n=n, reported_d=d, exact=why is None))
            if why == 'UNDECIDED':
                und.append(a)
            elif why:
                viol.append(dict(obligation='C17.bounded[%s]' % a[0], input=dict(code=a[0], size=list(a[1]), deformation=a[2] if len(a) > 2 else None, kwargs=dict(a[3]) if len(a) > 2 else {}), detail=why))
    return dict(bound='every class, every supported size with L <= %d and n <= %d%s, plus every deformation / axis at up to 3 (quick) / 8 sizes, non-square first; exact minimum-weight search by z3 pseudo-Boolean constraints' % (4 if tier == 'quick' else 6, maxn, ' (<= 8 sizes per class)' if tier == 'quick' else ''),
                evaluations=ev, distinct_nontrivial=len(nt), undecided=[list(map(str, u)) for u in und],
                rule='(class, size): "exists e with He=0, a logical bit set, wt(e) <= d-1" must be unsat; non-trivial iff d > 1', samples=samples, violations=viol)
