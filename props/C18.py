"""C18 - error probabilities multiply per qubit and normalise.

Functions under contract:
  panqec/error_models/_base_error_model.py::BaseErrorModel.error_probability
  panqec/simulation/_splitting_simulation.py::SplittingSimulation.get_next_error   (Metropolis ratio)
Pointwise contract, hence for every n (symbolic qubit index i, symbolic n):  with (x,z) = (error[i], error[n+i]) in {0,1}^2
  prob_vector[i] = p_I[i] if (0,0), p_X[i] if (1,0), p_Y[i] if (1,1), p_Z[i] if (0,1)
result = prod(prob_vector)  /  sum(log(prob_vector)).
"""
import itertools, random
import numpy as np
import z3
from contracts.common import *
from pyvc.values import Alt
from pyvc.runner import Ob

PROPERTY = 'C18'
LEVEL = 'proof'
EXPLANATION = 'pointwise real-arithmetic VCs (symbolic qubit index, symbolic n) over the symbolically executed error_probability; 4^n sums as bounded cross-check'
ASSUMPTIONS = [
    'A-real: float arithmetic treated as real arithmetic',
    'A-numpy: np.logical_and/not/==, slicing a[:n], a[n:], +=, np.prod/np.sum/np.log are elementwise / reductions as documented',
    'the error vector is binary (entries 0/1) of length 2n (type invariant of BSF vectors, precondition)',
    'M-distrib: sum over all 4^n errors of a product of per-qubit factors = product of per-qubit sums (textbook distributivity; per-qubit sum is proved)',
    'exp/log are uninterpreted with exp(log x)=x for x>0, exp(0)=1, exp(a-b)=exp(a)/exp(b) (only for the Metropolis lemma)',
    'np.random.choice([0,1], p=[1-q,q]) returns 1 with probability q (A-ext)',
]
TRUSTED_BASE = ['z3 5.1.0 (linear real arithmetic + UF)', 'pyvc symbolic executor (array domain)']
PATH = 'panqec/error_models/_base_error_model.py'


def sym_error_probability(log_output, ename='error'):
    m = Module.load(PATH)
    cls = m.classes['BaseErrorModel']
    f = cls.methods['error_probability']
    n = z3.Int('n')
    fs, arrs = prob_tables(n)
    ef, err = bsf_error(n, ename)
    code = Obj(None, {'n': n}, 'code')
    selfo = Obj(cls, {}, 'error_model')
    intr = {('method', 'error_model', 'probability_distribution'):
            lambda x, st, obj, a, k: T([arrs['i'], arrs['x'], arrs['y'], arrs['z']])}
    x = X(m, intr)
    st, ret = x.run(f, [err, code, z3.Real('error_rate')], {'log_output': log_output}, selfo)
    return dict(n=n, fs=fs, ef=ef, ret=ret, st=st, f=f, x=x)


def _spec_factor(fs, ef, n, i):
    xi, zi = ef(i), ef(n + i)
    return z3.If(z3.And(xi == 0, zi == 0), fs['i'](i), z3.If(z3.And(xi == 1, zi == 0), fs['x'](i),
                 z3.If(z3.And(xi == 1, zi == 1), fs['y'](i), fs['z'](i))))


def ob(which, timeout=60):
    if which in ('factor.prod', 'factor.log', 'shape.prod', 'shape.log', 'noraise'):
        log = which.endswith('log')
        s = sym_error_probability(log)
        n, fs, ef, ret = s['n'], s['fs'], s['ef'], s['ret']
        i = z3.Int('i')
        binary = z3.And(z3.Or(ef(i) == 0, ef(i) == 1), z3.Or(ef(n + i) == 0, ef(n + i) == 1))
        pre = [n >= 1, i >= 0, i < n, binary]
        if which == 'noraise':
            goal = pre + [z3.Or([c for c, _, _ in s['st'].raises] + [z3.And(c, z3.Not(g)) for _, c, g in s['st'].side] + [z3.BoolVal(False)])]
            return result(which, check(goal, timeout), [s['f']], s['x'], goal)
        if not isinstance(ret, Red) or ret.kind != ('sum' if log else 'prod'):
            raise Unsupported('result is not a %s-reduction' % ('sum' if log else 'prod'))
        arr = ret.arr
        if which.startswith('shape'):
            goal = [n >= 1, z3.Not(z3.And(arr.rank == 1, Z(arr.shape[0]) == n))] if arr.rank == 1 else [z3.BoolVal(True)]
            return result(which, check(goal, timeout), [s['f']], s['x'], goal)
        elem = Z(arr.f(i))
        spec = _spec_factor(fs, ef, n, i)
        spec = UF['log'](spec) if log else spec
        goal = pre + [elem != spec]
        return result(which, check(goal, timeout), [s['f']], s['x'], goal)
    if which == 'qubitsum':
        # per-qubit normalisation: sum over the four (x,z) patterns of the factor = p_I+p_X+p_Y+p_Z  (= 1 by C07.normal)
        i = z3.Int('i')
        terms, hyp = [], []
        for k, (xv, zv) in enumerate(itertools.product((0, 1), repeat=2)):
            s = sym_error_probability(False, 'error%d' % k)     # one symbolic error per (x,z) pattern at qubit i
            n, fs, ef, ret = s['n'], s['fs'], s['ef'], s['ret']
            terms.append(Z(ret.arr.f(i)))
            hyp += [ef(i) == xv, ef(n + i) == zv]
        goal = [n >= 1, i >= 0, i < n] + hyp + [z3.Sum(terms) != fs['i'](i) + fs['x'](i) + fs['y'](i) + fs['z'](i)]
        return result(which, check(goal, timeout), [s['f']], s['x'], goal)
    if which == 'cover':
        s = sym_error_probability(False)
        n, ef = s['n'], s['ef']; i = z3.Int('i')
        r = check([n >= 1, i >= 0, i < n, ef(i) == 1, ef(n + i) == 1, s['st'].live], timeout)
        return cover(which, r, [s['f']], s['x'])
    if which == 'metropolis':
        return ob_metropolis(timeout)
    if which == 'metropolis.lemma':
        a, b = z3.Reals('Pnew Pprev')
        ex, lg = UF['exp'], UF['log']
        ax = [ex(lg(a)) == a, ex(lg(b)) == b, ex(z3.RealVal(0)) == 1, ex(lg(a) - lg(b)) == ex(lg(a)) / ex(lg(b)),
              z3.Implies(lg(a) - lg(b) < 0, a < b), z3.Implies(lg(a) - lg(b) >= 0, a >= b)]     # log strictly increasing
        d = lg(a) - lg(b)
        q = ex(z3.If(d < 0, d, z3.RealVal(0)))
        goal = [a > 0, b > 0] + ax + [q != z3.If(a / b < 1, a / b, z3.RealVal(1))]
        f = get_func('panqec/simulation/_splitting_simulation.py', 'SplittingSimulation.get_next_error')
        return result(which, check(goal, timeout), [f], None, goal)
    raise KeyError(which)


def ob_metropolis(timeout):
    """in get_next_error: q = exp(min(0, logP(new) - logP(prev))) with both logs from error_probability(..., log_output=True)
    of the same model / code / rate, and the move is accepted with probability q"""
    path = 'panqec/simulation/_splitting_simulation.py'
    m = Module.load(path)
    cls = m.classes['SplittingSimulation']
    f = cls.methods['get_next_error']
    n = z3.Int('n')
    calls, choices = [], []
    prev = Arr((2 * n,), lambda i: z3.Function('prev', INT, INT)(Z(i)), 'int', 'param:previous_error')
    fs, arrs = prob_tables(n)

    def errprob(x, st, obj, a, k):
        v = z3.Real('logp!%d' % len(calls))
        calls.append(dict(error=a[0], code=a[1], rate=a[2], log=k.get('log_output', a[3] if len(a) > 3 else False), val=v))
        return v

    def choice(x, st, a, k):
        v = z3.Int('choice!%d' % len(choices))
        choices.append(dict(args=a, p=k.get('p'), val=v))
        lst = a[0]
        alts = lst.alts if isinstance(lst, Alt) else [(z3.BoolVal(True), lst)]
        if all(isinstance(l, T) and all(isinstance(it, E) for it in l.items) for _, l in alts):
            return E([(z3.And(c, v == j), it.alts[0][1]) for c, l in alts for j, it in enumerate(l.items)])
        return v
    code = Obj(None, {'n': n}, 'code')
    em = Obj(None, {}, 'error_model')
    selfo = Obj(cls, {'code': code, 'error_model': em}, 'sim')
    dec = Obj(None, {}, 'decoder')
    intr = {
        ('attr', 'error_model', 'error_probability'): lambda x, st, o: ('intr', 'ep'),
        'self.error_model.error_probability': lambda x, st, a, k: errprob(x, st, em, a, k),
        'self.error_model.probability_distribution': lambda x, st, a, k: T([arrs['i'], arrs['x'], arrs['y'], arrs['z']]),
        'np.random.choice': choice,
        'np.exp': lambda x, st, a, k: UF['exp'](Z(a[0])),
        'self.code.measure_syndrome': lambda x, st, a, k: Opaque('syndrome'),
        'decoder.decode': lambda x, st, a, k: Arr((2 * n,), lambda i: z3.Function('corr', INT, INT)(Z(i)), 'int'),
        'self.code.is_logical_error': lambda x, st, a, k: z3.Bool('is_logical_error'),
        'self.code.in_codespace': lambda x, st, a, k: z3.Bool('in_codespace'),
    }
    x = X(m, intr)
    rate = z3.Real('error_rate')
    # the list `paulis` is built by conditional appends -> guarded alternatives; E-valued choice needs a T: force X,Y,Z all nonzero
    st = St(z3.And(rate >= 0, rate <= 1))
    st, ret = x.run(f, [dec, rate, prev], {}, selfo, st)
    logcalls = [c for c in calls if conc(c['log']) is True]
    if len(logcalls) != 2:
        raise Unsupported('expected two log-probability calls, found %d' % len(logcalls))
    acc = [c for c in choices if c['p'] is not None]
    if len(acc) != 1:
        raise Unsupported('expected one acceptance draw')
    p = acc[0]['p']
    if not (isinstance(p, T) and len(p.items) == 2):
        raise Unsupported('acceptance distribution shape')
    qv = Z(p.items[1])
    # which call is on previous_error (the parameter object itself) and which on the proposal
    cp = [c for c in logcalls if c['error'] is prev]
    cn = [c for c in logcalls if c['error'] is not prev]
    if len(cp) != 1 or len(cn) != 1:
        raise Unsupported('cannot tell previous from proposed error')
    d = cn[0]['val'] - cp[0]['val']
    want = UF['exp'](z3.If(d < 0, d, z3.RealVal(0)))
    same_args = z3.And(eq(cp[0]['rate'], rate), eq(cn[0]['rate'], rate))
    same_code = (cp[0]['code'] is code) and (cn[0]['code'] is code)
    goal = [z3.Or(qv != want, z3.Not(same_args), z3.BoolVal(not same_code), Z(p.items[0]) != 1 - qv)]
    return result('metropolis', check(goal, timeout), [f], x, goal)


def obligations(tier):
    names = ['cover', 'noraise', 'shape.prod', 'shape.log', 'factor.prod', 'factor.log', 'qubitsum', 'metropolis', 'metropolis.lemma']
    return [Ob('C18.' + n, ob, dict(which=n), timeout=60) for n in names]


# ------------------------------------------------------------------------------------------- native
def _models():
    from panqec.error_models import PauliErrorModel
    from panqec.codes import Toric2DCode, Planar2DCode, RotatedPlanar2DCode
    return [(Toric2DCode(2, 1) if False else Planar2DCode(1, 2), 'P12'), (RotatedPlanar2DCode(2, 2), 'RP22'), (Toric2DCode(1, 2), 'T12'),
            (Planar2DCode(2, 2), 'P22')]


def native_check(code, em, p):
    """contract on the real function for one (code, model, rate): per-error product formula + total 1"""
    n = code.n
    pi, px, py, pz = em.probability_distribution(code, p)
    tot = 0.0
    for bits in itertools.product((0, 1), repeat=2 * n):
        e = np.array(bits, dtype=np.uint8)
        want = 1.0
        for i in range(n):
            want *= {(0, 0): pi[i], (1, 0): px[i], (1, 1): py[i], (0, 1): pz[i]}[(bits[i], bits[n + i])]
        got = em.error_probability(e, code, p)
        if not np.isclose(got, want, rtol=1e-9, atol=1e-15):
            return 'P(e) = %r but product of per-qubit channel probabilities = %r for e=%s' % (float(got), want, ''.join(map(str, bits)))
        with np.errstate(divide='ignore'):
            lg = em.error_probability(e, code, p, log_output=True)
        if want > 0:
            if not np.isclose(lg, np.log(want), rtol=1e-9, atol=1e-12):
                return 'log form %r != log(%r) for e=%s' % (float(lg), want, ''.join(map(str, bits)))
        elif not (np.isneginf(lg)):
            return 'an impossible error (probability 0) has log-probability %r instead of -inf, e=%s' % (float(lg), ''.join(map(str, bits)))
        tot += got
    if not np.isclose(tot, 1.0, atol=1e-9):
        return 'sum over 4^n errors = %r' % tot
    return None


def bounded(tier, seed):
    from panqec.error_models import PauliErrorModel
    rnd = random.Random(seed)
    dirs = [(1 / 3, 1 / 3, 1 / 3), (1, 0, 0), (0, 1, 0), (0, 0, 1), (0.1, 0.3, 0.6), (0.5, 0.5, 0)]
    for _ in range(3 if tier == 'quick' else 10):
        a, b = sorted((rnd.random(), rnd.random())); dirs.append((a, b - a, 1 - b))
    ev, viol, samples, nt = 0, [], [], set()
    for code, cn in _models():
        if code.n > (5 if tier == 'quick' else 6):
            continue
        for d in dirs:
            for defo in [None] + list(code.deformation_names):
                for p in (0.0, 0.1, 0.37, 1.0):
                    em = PauliErrorModel(*d, deformation_name=defo)
                    why = native_check(code, em, p)
                    ev += 1
                    if why is None and 0 < p < 1:
                        # the same contract after the model was USED on this (code, rate): matching weights computed, errors sampled (a decoder was built, a trial run);
                        # the per-qubit channel must still be the stated one (checked against the direction, not against the model's own cached table)
                        from bounded import noise as N
                        em.get_weights(code, p); em.generate(code, p, rng=np.random.default_rng(0)); em.get_weights(code, p)
                        why = N.nat_dist_of(em, code, d, p, defo) or native_check(code, em, p)
                        ev += 1
                        if why:
                            why = 'after get_weights / generate on the same (model, code, rate): ' + why
                    if d[1] > 0 and 0 < p:
                        nt.add((cn, d, defo, p))
                    if len(samples) < 3:
                        samples.append(dict(code=cn, n=code.n, direction=d, deformation=defo, error_rate=p, ok=why is None))
                    if why:
                        viol.append(dict(obligation='C18.bounded', input=dict(code=cn, direction=list(d), deformation=defo, error_rate=p), detail=why))
    return dict(bound='all 4^n errors, n <= %d, on a fresh model and again after get_weights / generate were called on it' % (5 if tier == 'quick' else 6), evaluations=ev, distinct_nontrivial=len(nt),
                rule='(code, direction, deformation, rate) x all 4^n errors through the real error_probability; non-trivial iff r_y>0 and p>0',
                samples=samples, violations=viol[:3])


def replay(r):
    from panqec.error_models import PauliErrorModel
    from panqec.codes import Planar2DCode
    code = Planar2DCode(1, 2)
    for d in [(0.2, 0.3, 0.5), (1 / 3, 1 / 3, 1 / 3), (0, 1, 0)]:
        why = native_check(code, PauliErrorModel(*d), 0.3)
        if why:
            return dict(confirmed=True, input=dict(code='Planar2DCode(1,2)', direction=list(d), error_rate=0.3), detail=why)
    return dict(confirmed=False, detail='4^n enumeration on Planar2DCode(1,2) satisfies the contract')


def replay_file(data):
    inp = (data or {}).get('input') or {}
    if 'direction' in inp and 'code' in inp:
        from panqec.error_models import PauliErrorModel
        from bounded import noise as N
        code = dict((cn, c) for c, cn in _models())[inp['code']]
        d, defo, rate = tuple(inp['direction']), inp.get('deformation'), inp.get('error_rate', 0.3)
        em = PauliErrorModel(*d, deformation_name=defo)
        why = native_check(code, em, rate)
        if why is None and 0 < rate < 1:
            em.get_weights(code, rate); em.generate(code, rate, rng=np.random.default_rng(0)); em.get_weights(code, rate)
            why = N.nat_dist_of(em, code, d, rate, defo) or native_check(code, em, rate)
        return dict(confirmed=bool(why), input=inp, detail=why or 'product formula and normalisation hold, also after the model was used')
    return replay({})
